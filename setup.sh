#!/bin/sh
# MANIFEST.setup_cmd: offline smoke test of the tool chain + SANY parse of every specification.
set -e
cd "$(dirname "$0")"
java -version >/dev/null 2>&1 || { echo "java missing"; exit 1; }
test -f /opt/veriftools/tla/tla2tools.jar || { echo "tla2tools.jar missing"; exit 1; }
/venv/bin/python -c "import beartype, jsonschema" || { echo "python deps missing"; exit 1; }
fail=0
for f in spec/*.tla spec/trace/*.tla; do
  [ -f "$f" ] || continue
  out=$(cd "$(dirname "$f")" && java -DTLA-Library=/verif/spec -cp /opt/veriftools/tla/tla2tools.jar:/opt/veriftools/tla/CommunityModules-deps.jar tla2sany.SANY "$(basename "$f")" 2>&1) || true
  if echo "$out" | grep -q "Fatal errors\|\*\*\* Errors\|Could not parse\|Semantic errors"; then
    echo "SANY rejects $f"; echo "$out" | tail -15; fail=1
  fi
done
mkdir -p evidence replay
[ $fail -eq 0 ] && echo "setup ok"
exit $fail
