"""pytest plugin (loaded with ``-p verifkit.pytest_rec_conf``): records every BeartypeConf(...)
construction performed while the repository's OWN pinned tests run, as ConfTrace.tla events.

Instrumentation from outside: BeartypeConf.__new__ is wrapped for the duration of the test
session; arguments and read-back values are projected to the abstract values of Conf.tla through
the catalogue of drivers/c17.py.  Calls with values outside the catalogue are logged as "skip"."""
from __future__ import annotations

import json
import os

_OUT = os.environ.get("VERIF_CONF_TRACE")
_events = []
_objs = []
_classes = {}


def pytest_configure(config):
    if not _OUT:
        return
    import warnings
    from verifkit.drivers import c17
    from beartype import BeartypeConf
    from beartype.roar import BeartypeConfParamException
    cat = c17._Cat()
    # the repository's tests use their own classes: relate real values to abstract ones where possible
    orig_new = BeartypeConf.__new__
    _objs.append(BeartypeConf())
    _events.append({"ev": "Reset", "tid": 0})

    def absval(o, x):
        if o == "warning_cls_on_decorator_exception":
            return None
        p = cat.proj(o, x)
        if p[0] == "unknown":
            if o in c17.EXC_OPTS + ["violation_type"] and isinstance(x, type):
                # distinct real classes must stay distinct abstract values: at most one Warning class and two
                # Exception classes per session are representable in Conf.tla's universe; others are skipped
                if x in _classes:
                    return _classes[x]
                if issubclass(x, Warning):
                    av = ["warn", 1] if not any(v[0] == "warn" for v in _classes.values()) else None
                elif issubclass(x, Exception):
                    used = sum(1 for v in _classes.values() if v[0] == "exc")
                    av = ["exc", used + 1] if used < 2 else None
                else:
                    av = ["cls", 9]
                if av is not None:
                    _classes[x] = av
                return av
            if o == "claw_skip_package_names" and isinstance(x, tuple) and x and all(isinstance(i, str) for i in x):
                # abstract value 1 = "a tuple of package names", 7 = "a tuple containing a non-name string"
                good = all(i and all(part.isidentifier() for part in i.split(".")) for i in x)
                return ["tuple", 1 if good else 7]
            return None
        return p

    def new(cls, *a, **kw):
        known = not a and all(k in c17.OPTS for k in kw)
        akw = {}
        if known:
            for k, v in kw.items():
                av = absval(k, v)
                if av is None:
                    known = False
                    break
                akw[k] = av
        out, obj = "conf", None
        try:
            obj = orig_new(cls, *a, **kw)
        except BeartypeConfParamException:
            out = "raise"
            raise
        except TypeError:
            out = "typeerror"
            raise
        except BaseException:
            out = "other"       # e.g. the shell-variable exception: outside Conf.tla's vocabulary
            raise
        finally:
            # calls made while the tests set ${BEARTYPE_IS_COLOR} are governed by the environment-variable
            # adjustment, which Conf.tla models only through _env_var(): not events of this trace
            if known and out in ("conf", "raise") and "BEARTYPE_IS_COLOR" not in os.environ:
                ev = {"ev": "Make", "tid": 0, "out": out,
                      "kw": {o: dict(zip(("ty", "v"), akw.get(o, list(c17.default_of(o))))) for o in c17.OPTS}}
                if obj is not None:
                    ident = next((i for i, p in enumerate(_objs) if p is obj), len(_objs))
                    if ident == len(_objs):
                        _objs.append(obj)
                    rb = {}
                    ok = True
                    for o in c17.OPTS:
                        p = cat.proj(o, getattr(obj, o)) if o != "warning_cls_on_decorator_exception" else \
                            (["none", 0] if getattr(obj, o) is None else cat.proj(o, getattr(obj, o)))
                        if p[0] == "unknown":
                            p = absval(o, getattr(obj, o)) or p
                        if p[0] == "unknown":
                            ok = False
                        rb[o] = {"ty": p[0], "v": p[1]}
                    import re
                    r = repr(obj)
                    ev.update(ident=ident, rb=rb, listed=sorted(o for o in c17.OPTS if re.search(r"[(, ]" + o + "=", r)))
                    if not ok:
                        ev = None
                else:
                    ev["ident"] = -1
                if ev is not None:
                    _events.append(ev)
        return obj
    BeartypeConf.__new__ = staticmethod(new)


def pytest_unconfigure(config):
    if _OUT:
        with open(_OUT, "w") as fh:
            for e in _events:
                fh.write(json.dumps(e) + "\n")
