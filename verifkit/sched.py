"""Deterministic thread scheduler for C15 (thread safety under every interleaving).

The harness instruments the *process*, not the repository:

* ``install()`` replaces ``threading.Lock`` / ``threading.RLock`` by factories of
  *cooperative recording locks*, imports every ``beartype.*`` submodule (so that every
  ``from threading import Lock`` binds the factory and every module-level lock is
  cooperative), then restores the real factories.  It must run BEFORE beartype is
  imported.  Outside a scheduled thread a cooperative lock behaves like the real one.
* ``Run`` executes N thread bodies so that exactly one of them runs at any time.  Every
  thread runs under ``sys.settrace`` with line (or opcode) events enabled only for frames
  whose file lies under ``$VERIF_REPO/beartype``; at each event -- and before each
  cooperative lock operation and each access to a probed container -- the running thread
  asks the *policy* who runs next and hands the baton over through per-thread binary
  semaphores.  EVERY context switch is therefore chosen; nothing is left to the OS or the
  GIL.  ``acquire`` on a held lock parks the thread as *blocked*; if no thread is
  runnable the run ends with ``deadlock`` set (the schedule is in ``run.switches``).
* every run produces a log of events ``{th, seq, ev, ...}`` whose sequence number is
  taken while the baton is held (so it is a total order consistent with the execution).

Nothing in here knows beartype's internals by name except through the tables handed in
by the driver (``hooks`` = functions whose call/return is logged, probed containers).
"""
from __future__ import annotations

import _thread
import importlib
import os
import pkgutil
import sys
import threading
from typing import Any, Callable, Dict, List, Optional, Tuple

_RealLock = threading.Lock
_RealRLock = threading.RLock
_alloc = _thread.allocate_lock
_ident = _thread.get_ident

_ACTIVE: Optional["Run"] = None          # the run in progress (at most one per process)
LOCKS: List["CoopLock"] = []             # every cooperative lock ever created
_HERE = os.path.abspath(__file__).rstrip("c")


def repo_prefix() -> str:
    return os.path.join(os.path.realpath(os.environ.get("VERIF_REPO", "/repo")), "beartype") + os.sep


# ------------------------------------------------------------------------------- locks
class CoopLock:
    """Cooperative recording lock (non-reentrant)."""
    reentrant = False
    __slots__ = ("_real", "owner", "count", "lid", "site", "__weakref__")

    def __init__(self, *a, **k):
        self._real = _RealRLock() if self.reentrant else _alloc()
        self.owner = None               # _TS of the scheduled owner
        self.count = 0
        f = sys._getframe(1)
        while f is not None and os.path.abspath(f.f_code.co_filename) == _HERE:
            f = f.f_back
        self.site = (os.path.basename(f.f_code.co_filename), f.f_lineno) if f is not None else ("?", 0)
        self.lid = len(LOCKS) + 1
        LOCKS.append(self)

    # -- the threading.Lock protocol
    def acquire(self, blocking=True, timeout=-1):
        run = _ACTIVE
        if run is not None:
            ts = run.by_ident.get(_ident())
            if ts is not None:
                return run._acquire(ts, self, blocking)
        if timeout is None or timeout == -1:
            return self._real.acquire(blocking)
        return self._real.acquire(blocking, timeout)

    def release(self):
        run = _ACTIVE
        if run is not None:
            ts = run.by_ident.get(_ident())
            if ts is not None:
                return run._release(ts, self)
        return self._real.release()

    def __enter__(self):
        return self.acquire()

    def __exit__(self, *exc):
        self.release()

    def locked(self):
        if self.owner is not None:
            return True
        if self.reentrant:
            if self._real.acquire(False):
                self._real.release()
                return False
            return True
        return self._real.locked()

    def _at_fork_reinit(self):
        self._real = _RealRLock() if self.reentrant else _alloc()
        self.owner, self.count = None, 0

    def __repr__(self):
        return f"<{type(self).__name__} #{self.lid} {self.site[0]}:{self.site[1]}>"


class CoopRLock(CoopLock):
    """Cooperative recording lock (reentrant)."""
    reentrant = True
    __slots__ = ()

    # threading.Condition support outside a scheduled thread
    def _is_owned(self):
        return self._real._is_owned()

    def _release_save(self):
        return self._real._release_save()

    def _acquire_restore(self, x):
        return self._real._acquire_restore(x)


def _lock_factory(*a, **k):
    return CoopLock()


def _rlock_factory(*a, **k):
    return CoopRLock()


def install(package: str = "beartype") -> Dict[str, Any]:
    """Patch the lock factories, import ``package`` and all its submodules, restore.

    Returns {"modules": n, "failed": [(name, error)], "locks": n}."""
    if package in sys.modules:
        raise RuntimeError(f"sched.install(): {package} is already imported; the lock factories cannot be patched")
    failed: List[Tuple[str, str]] = []
    n = 0
    threading.Lock, threading.RLock = _lock_factory, _rlock_factory
    try:
        root = importlib.import_module(package)
        n += 1
        for mi in pkgutil.walk_packages(root.__path__, package + ".", onerror=lambda name: failed.append((name, "walk"))):
            try:
                importlib.import_module(mi.name)
                n += 1
            except BaseException as ex:          # optional integrations (numpy, torch, ...) may be absent
                failed.append((mi.name, f"{type(ex).__name__}: {ex}"[:120]))
    finally:
        threading.Lock, threading.RLock = _RealLock, _RealRLock
    where = os.path.dirname(os.path.realpath(root.__file__)) + os.sep
    if where != repo_prefix():
        raise RuntimeError(f"beartype imported from {where}, expected {repo_prefix()}")
    return {"modules": n, "failed": failed, "locks": len(LOCKS)}


# ------------------------------------------------------------------------------- ids
_OIDS: Dict[int, Tuple[int, Any]] = {}
_KIDS: Dict[Any, int] = {}


def oid(obj: Any) -> int:
    """Small process-unique identity number of ``obj`` (the object is kept alive)."""
    if obj is None:
        return 0
    e = _OIDS.get(id(obj))
    if e is None or e[1] is not obj:
        e = _OIDS[id(obj)] = (len(_OIDS) + 1, obj)
    return e[0]


def kid(key: Any) -> int:
    """Small number identifying a hashable key up to equality (-1: unhashable)."""
    try:
        e = _KIDS.get(key)
        if e is None:
            e = _KIDS[key] = len(_KIDS) + 1
        return e
    except TypeError:
        return -1


# ------------------------------------------------------------------------------- probed containers
def _visible(name: str, op: str, key: Any):
    """Yield point + who-am-I for an access to a probed container."""
    run = _ACTIVE
    if run is None:
        return None, None
    ts = run.by_ident.get(_ident())
    if ts is None:
        return None, None
    run._point(ts, "access", (name, op))
    return run, ts


class RecDict(dict):
    """dict whose probes and fills are visible events of the scheduler."""
    _rec_name = "dict"

    def get(self, key, default=None):
        run, ts = _visible(self._rec_name, "probe", key)
        v = dict.get(self, key, default)
        if run is not None:
            run.log(ts, "Probe", tab=self._rec_name, key=kid(key), rid=(oid(v) if v is not default else 0))
        return v

    def __getitem__(self, key):
        run, ts = _visible(self._rec_name, "probe", key)
        try:
            v = dict.__getitem__(self, key)
        except KeyError:
            if run is not None:
                run.log(ts, "Probe", tab=self._rec_name, key=kid(key), rid=0)
            if hasattr(type(self), "__missing__"):
                return type(self).__missing__(self, key)
            raise
        if run is not None:
            run.log(ts, "Probe", tab=self._rec_name, key=kid(key), rid=oid(v))
        return v

    def __contains__(self, key):
        run, ts = _visible(self._rec_name, "probe", key)
        v = dict.__contains__(self, key)
        if run is not None:
            run.log(ts, "Probe", tab=self._rec_name, key=kid(key), rid=(oid(dict.get(self, key)) if v else 0))
        return v

    def __setitem__(self, key, value):
        run, ts = _visible(self._rec_name, "fill", key)
        dict.__setitem__(self, key, value)
        if run is not None:
            run.log(ts, "Fill", tab=self._rec_name, key=kid(key), rid=oid(value))

    def setdefault(self, key, default=None):
        run, ts = _visible(self._rec_name, "fill", key)
        v = dict.setdefault(self, key, default)
        if run is not None:
            run.log(ts, "Fill", tab=self._rec_name, key=kid(key), rid=oid(v))
        return v


class RecList(list):
    """list (a KeyPool pool) whose emptiness test, pop and append are visible events."""
    _rec_name = "pool"

    def __bool__(self):
        run, ts = _visible(self._rec_name, "test", None)
        v = list.__len__(self) > 0
        if run is not None:
            run.log(ts, "PTest", tab=self._rec_name, key=oid(self), rid=int(v))
        return v

    def pop(self, *a):
        run, ts = _visible(self._rec_name, "pop", None)
        try:
            v = list.pop(self, *a)
        except IndexError:
            if run is not None:
                run.log(ts, "PPop", tab=self._rec_name, key=oid(self), rid=0)
            raise
        if run is not None:
            run.log(ts, "PPop", tab=self._rec_name, key=oid(self), rid=oid(v))
        return v

    def append(self, v):
        run, ts = _visible(self._rec_name, "push", None)
        list.append(self, v)
        if run is not None:
            run.log(ts, "PPush", tab=self._rec_name, key=oid(self), rid=oid(v))


def rec_dict_class(name: str, base: type = RecDict) -> type:
    return type(f"Rec_{name}", (base,), {"_rec_name": name})


# ------------------------------------------------------------------------------- run
class Deadlock(Exception):
    pass


class _Worker:
    """A reusable OS thread (creating one costs milliseconds in this sandbox; an execution needs 2-3)."""

    def __init__(self):
        self.go = _alloc()
        self.go.acquire()
        self.job = None
        self.thread = threading.Thread(target=self._loop, daemon=True)
        self.thread.start()

    def _loop(self):
        while True:
            self.go.acquire()
            fn, arg = self.job
            self.job = None
            fn(arg)
            _IDLE.append(self)          # never reached by a thread parked for ever (deadlock / abort)


_IDLE: List[_Worker] = []
os.register_at_fork(after_in_child=_IDLE.clear)      # threads do not survive a fork


class _TS:
    """State of one scheduled thread."""
    __slots__ = ("tid", "body", "sem", "ident", "done", "blocked_on", "exc", "results", "steps", "pending", "data")

    def __init__(self, tid, body):
        self.tid, self.body = tid, body
        self.sem = _alloc()
        self.sem.acquire()
        self.ident = None
        self.done = False
        self.blocked_on: Optional[CoopLock] = None
        self.exc: Optional[BaseException] = None
        self.results: List[Any] = []
        self.steps = 0                   # number of yield points passed by this thread
        self.pending = None              # (kind, info) of the point the thread is parked at
        self.data: Dict[str, Any] = {}


class Run:
    """One controlled execution of ``bodies`` (callables taking the thread state).

    granularity: "line"    yield at every line of beartype code + lock ops + probed accesses
                 "opcode"  yield at every bytecode of beartype code + ...
                 "visible" yield only at lock operations, probed accesses and explicit points
    policy:      object with ``choose(run, cur, enabled, kind, info) -> tid``; ``cur`` is the
                 thread at the point (None when it cannot continue: finished or blocked).
    hooks:       {(file basename, function name): (on_call, on_return)}; callbacks get
                 (run, ts, frame, arg) and usually call ``run.log``.
    """

    def __init__(self, bodies: List[Callable[["_TS"], Any]], policy, *, granularity: str = "line",
                 hooks: Optional[Dict[Tuple[str, str], Tuple[Any, Any]]] = None, max_steps: int = 2_000_000,
                 log_locks: bool = True, prefix: Optional[str] = None):
        self.threads = [_TS(i + 1, b) for i, b in enumerate(bodies)]
        self.policy = policy
        self.granularity = granularity
        self.hooks = hooks or {}
        self.max_steps = max_steps
        self.prefix = prefix or repo_prefix()
        self.by_ident: Dict[int, _TS] = {}
        self.main = _alloc()
        self.main.acquire()
        self.events: List[Dict[str, Any]] = []
        self.seq = 0
        self.steps = 0
        self.switches: List[Tuple[int, int]] = []     # (global step, tid switched to)
        self.deadlock: Optional[Dict[str, Any]] = None
        self.aborted: Optional[str] = None
        self.log_locks = log_locks
        self._codes: Dict[Any, Any] = {}
        self._cur: Optional[_TS] = None
        self.order_edges = set()                     # (outer lock id, inner lock id)

    # -- logging ----------------------------------------------------------------------
    def log(self, ts: _TS, ev: str, **kw):
        self.seq += 1
        kw["th"] = ts.tid
        kw["seq"] = self.seq
        kw["ev"] = ev
        self.events.append(kw)

    # -- baton ------------------------------------------------------------------------
    def _enabled(self) -> List[int]:
        out = []
        for t in self.threads:
            if t.done:
                continue
            b = t.blocked_on
            if b is None and t.pending is not None and t.pending[0] == "acq":
                b = LOCKS[t.pending[1] - 1]       # parked just before an acquire
            if b is not None and not (b.owner is None or (b.reentrant and b.owner is t)):
                continue
            out.append(t.tid)
        return out

    def _handoff(self, ts: Optional[_TS], nxt: _TS, park: bool):
        """Give the baton to ``nxt``; park ``ts`` (unless it is finishing)."""
        self.switches.append((self.steps, nxt.tid))
        self._cur = nxt
        nxt.sem.release()
        if park:
            ts.sem.acquire()

    def _point(self, ts: _TS, kind: str, info: Any = None):
        """A yield point of the running thread ``ts``."""
        self.steps += 1
        ts.steps += 1
        if self.steps > self.max_steps:
            self.aborted = f"more than {self.max_steps} scheduling steps"
            self._stop_all(ts)
        ts.pending = (kind, info)
        enabled = self._enabled()
        if not enabled:
            return                        # only possible before an acquire: _acquire reports the deadlock
        nxt = self.policy.choose(self, ts.tid, enabled, kind, info)
        if nxt != ts.tid and nxt in enabled:
            self._handoff(ts, self.threads[nxt - 1], True)

    def _must_switch(self, ts: _TS, finishing: bool):
        """``ts`` cannot continue (blocked or finished): somebody else must run."""
        enabled = [t for t in self._enabled() if t != ts.tid]
        if not enabled:
            if all(t.done for t in self.threads):
                self.main.release()
                return
            # nobody can run and somebody is not done: deadlock
            self.deadlock = {"blocked": {t.tid: (t.blocked_on.lid if t.blocked_on else None)
                                         for t in self.threads if not t.done},
                             "owners": {t.tid: [l.lid for l in LOCKS if l.owner is t] for t in self.threads},
                             "step": self.steps}
            self.main.release()
            if not finishing:
                ts.sem.acquire()          # parked forever (daemon thread)
            return
        self.steps += 1
        nxt = self.policy.choose(self, None, enabled, "blocked" if not finishing else "end", ts.tid)
        self._handoff(ts, self.threads[nxt - 1], not finishing)

    def _stop_all(self, ts: _TS):
        self.main.release()
        ts.sem.acquire()                  # parked forever

    # -- cooperative lock operations --------------------------------------------------
    def _acquire(self, ts: _TS, lock: CoopLock, blocking: bool):
        self._point(ts, "acq", lock.lid)
        while True:
            if lock.owner is None or (lock.reentrant and lock.owner is ts):
                for l in LOCKS:
                    if l.owner is ts and l is not lock:
                        self.order_edges.add((l.lid, lock.lid))
                lock.owner = ts
                lock.count += 1
                if self.log_locks:
                    self.log(ts, "Acq", lock=lock.lid, re=int(lock.reentrant), cnt=lock.count)
                return True
            if not blocking:
                return False
            ts.blocked_on = lock
            if self.log_locks:
                self.log(ts, "Block", lock=lock.lid, owner=lock.owner.tid)
            self._must_switch(ts, False)
            ts.blocked_on = None

    def _release(self, ts: _TS, lock: CoopLock):
        if lock.owner is not ts:
            raise RuntimeError("release of a cooperative lock that the thread does not own")
        self._point(ts, "rel", lock.lid)
        lock.count -= 1
        if lock.count == 0:
            lock.owner = None
        if self.log_locks:
            self.log(ts, "Rel", lock=lock.lid, cnt=lock.count)

    # -- tracing ----------------------------------------------------------------------
    def _make_tracer(self, ts: _TS):
        prefix, codes, hooks, run = self.prefix, self._codes, self.hooks, self
        opcode = self.granularity == "opcode"
        want = "opcode" if opcode else "line"
        base = os.path.basename

        def local(frame, event, arg):
            if event == want:
                run._point(ts, "line", frame)
            elif event == "return":
                h = codes.get(frame.f_code)
                if h is not True and h[1] is not None:
                    h[1](run, ts, frame, arg)
            return local

        def glob(frame, event, arg):
            code = frame.f_code
            h = codes.get(code)
            if h is None:
                if code.co_filename.startswith(prefix):
                    h = hooks.get((base(code.co_filename), code.co_name), True)
                else:
                    h = False
                codes[code] = h
            if h is False:
                return None
            if opcode:
                frame.f_trace_opcodes = True
                frame.f_trace_lines = False
            if h is not True and h[0] is not None:
                h[0](run, ts, frame, arg)
            return local

        return glob

    def _thread_main(self, ts: _TS):
        ts.sem.acquire()                  # wait for the baton (identity registered by go())
        traced = self.granularity != "visible" or self.hooks
        try:
            if traced:
                if self.granularity == "visible":
                    sys.settrace(self._make_hook_only_tracer(ts))
                else:
                    sys.settrace(self._make_tracer(ts))
            try:
                ts.body(ts)
            finally:
                sys.settrace(None)
        except BaseException as ex:       # noqa: the body is expected to catch per operation
            ts.exc = ex
        ts.done = True
        ts.pending = None
        self._must_switch(ts, True)

    def _make_hook_only_tracer(self, ts: _TS):
        """call/return hooks without line events (model granularity)."""
        prefix, codes, hooks, run = self.prefix, self._codes, self.hooks, self
        base = os.path.basename

        def local(frame, event, arg):
            if event == "return":
                h = codes.get(frame.f_code)
                if h[1] is not None:
                    h[1](run, ts, frame, arg)
            return local

        def glob(frame, event, arg):
            code = frame.f_code
            h = codes.get(code)
            if h is None:
                h = False
                if code.co_filename.startswith(prefix):
                    h = hooks.get((base(code.co_filename), code.co_name), False)
                codes[code] = h
            if h is False:
                return None
            frame.f_trace_lines = False
            if h[0] is not None:
                h[0](run, ts, frame, arg)
            return local

        return glob

    # -- explicit points for the harness (operation boundaries) -------------------------
    def point(self, ts: _TS, kind: str, info: Any = None):
        self._point(ts, kind, info)

    # -- driver -------------------------------------------------------------------------
    def go(self, join_timeout: float = 120.0) -> "Run":
        global _ACTIVE
        if _ACTIVE is not None:
            raise RuntimeError("nested scheduler runs are not supported")
        _ACTIVE = self
        try:
            for ts in self.threads:
                w = _IDLE.pop() if _IDLE else _Worker()
                ts.data["worker"] = w
                ts.ident = w.thread.ident
                self.by_ident[ts.ident] = ts
                w.job = (self._thread_main, ts)
                w.go.release()
            self.steps += 1
            first = self.policy.choose(self, None, self._enabled(), "start", None)
            self.switches.append((self.steps, first))
            self._cur = self.threads[first - 1]
            self.threads[first - 1].sem.release()
            if not self.main.acquire(timeout=join_timeout):
                self.aborted = f"run did not finish within {join_timeout}s (harness failure)"
            # (the last thread released ``main`` as its final action on shared state; workers return to the pool)
        finally:
            _ACTIVE = None
        return self

    @property
    def clean(self) -> bool:
        """False if threads were left parked (deadlock / abort): the process state is tainted."""
        return self.deadlock is None and self.aborted is None


# ------------------------------------------------------------------------------- policies
class NonPreemptive:
    """Run the current thread until it blocks or ends, then the lowest runnable thread.
    ``preempt``: {(tid, k): target}: when thread ``tid`` reaches its k-th yield point,
    switch to ``target`` (if runnable).  Used for the bounded-preemption DFS."""

    def __init__(self, preempt: Optional[Dict[Tuple[int, int], int]] = None, first: int = 1, record: bool = False):
        self.preempt = preempt or {}
        self.first = first
        self.record = record
        self.points: List[Tuple[int, int, Tuple[int, ...], str]] = []    # (tid, k, other enabled, file)
        self.taken = 0
        self.taken_at: List[int] = []      # index into points of each preemption taken

    def choose(self, run, cur, enabled, kind, info):
        if cur is None:
            if kind == "start" and self.first in enabled:
                return self.first
            return enabled[0]
        ts = run.threads[cur - 1]
        if self.record and len(enabled) > 1:
            self.points.append((cur, ts.steps, tuple(t for t in enabled if t != cur),
                                os.path.basename(info.f_code.co_filename) if kind == "line" else kind))
        if self.preempt:
            tgt = self.preempt.get((cur, ts.steps))
            if tgt is not None and tgt in enabled and tgt != cur:
                self.taken += 1
                self.taken_at.append(len(self.points) - 1)
                return tgt
        return cur


class PCT:
    """PCT-style randomised priorities: the runnable thread of highest priority runs; at d-1
    randomly chosen steps the running thread's priority drops below all others."""

    def __init__(self, rng, nthreads: int, depth: int, est_steps: int):
        pr = list(range(depth, depth + nthreads))
        rng.shuffle(pr)
        self.prio = {t + 1: pr[t] for t in range(nthreads)}
        self.change = {}
        for i in range(depth - 1):
            self.change[rng.randrange(1, max(2, est_steps))] = depth - 1 - i
        self.k = 0

    def choose(self, run, cur, enabled, kind, info):
        self.k += 1
        low = self.change.get(self.k)
        if low is not None and cur is not None:
            self.prio[cur] = low
        return max(enabled, key=lambda t: self.prio[t])


class RandomSwitch:
    """Switch to a random other runnable thread with probability p at every point."""

    def __init__(self, rng, p: float):
        self.rng, self.p = rng, p

    def choose(self, run, cur, enabled, kind, info):
        if cur is None or cur not in enabled:
            return self.rng.choice(enabled)
        if len(enabled) > 1 and self.rng.random() < self.p:
            return self.rng.choice([t for t in enabled if t != cur])
        return cur


class Fixed:
    """Replay of a recorded list of switches [(global step, tid), ...]."""

    def __init__(self, switches):
        self.at = {int(s): int(t) for s, t in switches}

    def choose(self, run, cur, enabled, kind, info):
        t = self.at.get(run.steps)
        if t is not None and t in enabled:
            return t
        if cur is not None and cur in enabled:
            return cur
        return enabled[0]


class ModelReplay:
    """Replay of a model-level schedule: ``steps`` = [(tid, label), ...], one entry per visible
    event.  A thread is always parked *before* its next visible event; resuming it performs
    that event and runs to the next one.  Steps whose thread cannot run (blocked on a lock the
    model's variant does not have, or already finished) are skipped and counted."""

    def __init__(self, steps, match=None):
        self.steps = list(steps)
        self.i = 0
        self.skipped = 0
        self.mismatch: List[Tuple[int, Any, Any]] = []
        self.match = match
        self.followed = 0
        self.elided = 0
        self.extra = 0
        self.unstarted = None

    def choose(self, run, cur, enabled, kind, info):
        # first bring every thread to its first visible event (the prefix is thread-local)
        if self.unstarted is None:
            self.unstarted = {t.tid for t in run.threads}
        if cur is not None:
            self.unstarted.discard(cur)
        elif kind == "end":
            self.unstarted.discard(info)
        if self.unstarted:
            cand = [t for t in enabled if t in self.unstarted]
            if cand:
                return cand[0]
        while self.i < len(self.steps):
            t, label = self.steps[self.i]
            self.i += 1
            if t in enabled:
                pend = run.threads[t - 1].pending
                verdict = True if (self.match is None or pend is None) else self.match(label, pend)
                if verdict == "model_extra":      # a lock operation of the model that the code does not perform
                    self.elided += 1
                    continue
                if verdict == "real_extra":       # a lock operation of the code that the model does not have:
                    self.i -= 1                   # perform it, then look at the same model step again
                    self.extra += 1
                    return t
                if verdict is not True:
                    self.mismatch.append((self.i - 1, label, pend))
                self.followed += 1
                return t
            self.skipped += 1
        if cur is not None and cur in enabled:
            return cur
        return enabled[0]
