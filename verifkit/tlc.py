"""Thin, dependency-free driver around TLC / SANY (TLA+ tools 1.8).

Everything a check needs from TLC goes through here:

* ``run_tlc``      – run a spec/config pair, return a ``TLCResult`` with the state
                     counts, the violated property (if any), the error trace (parsed),
                     the ``PrintT`` rows (parsed as JSON where possible) and coverage.
* ``parse_value``  – parser for TLA+ values as TLC prints them (records, functions,
                     tuples, sets, strings, integers, booleans, model values).
* ``parse_dot``    – ``-dump dot,actionlabels`` graph -> nodes / labelled edges.
* ``parse_sim_dir``– ``-simulate file=...`` behaviours -> list of [(action, state)].

All scratch data lives in a ``tempfile.mkdtemp`` directory that is removed afterwards.
"""
from __future__ import annotations

import json
import os
import re
import shutil
import subprocess
import tempfile
import time
from dataclasses import dataclass, field
from typing import Any, Dict, List, Optional, Tuple

JAR = "/opt/veriftools/tla/tla2tools.jar"
DEPS = "/opt/veriftools/tla/CommunityModules-deps.jar"
SPEC_DIR = os.path.join(os.path.dirname(os.path.dirname(os.path.abspath(__file__))), "spec")


class TLCMachineryError(RuntimeError):
    """TLC itself failed (parse error, crash, timeout): exit status 2 material."""


# --------------------------------------------------------------------------- values
class _P:
    def __init__(self, s: str):
        self.s = s
        self.i = 0

    def ws(self):
        s, n = self.s, len(self.s)
        while self.i < n and s[self.i] in " \t\r\n":
            self.i += 1

    def peek(self, k=1):
        return self.s[self.i:self.i + k]

    def eat(self, tok):
        self.ws()
        if not self.s.startswith(tok, self.i):
            raise ValueError(f"expected {tok!r} at {self.i}: {self.s[self.i:self.i+40]!r}")
        self.i += len(tok)

    def try_eat(self, tok):
        self.ws()
        if self.s.startswith(tok, self.i):
            self.i += len(tok)
            return True
        return False

    def value(self):
        self.ws()
        s = self.s
        c = s[self.i]
        if c == '"':
            j = self.i + 1
            out = []
            while s[j] != '"':
                if s[j] == "\\":
                    nxt = s[j + 1]
                    out.append({"n": "\n", "t": "\t", "r": "\r", "f": "\f"}.get(nxt, nxt))
                    j += 2
                else:
                    out.append(s[j])
                    j += 1
            self.i = j + 1
            return "".join(out)
        if c == "<" and s.startswith("<<", self.i):
            self.i += 2
            items = []
            if self.try_eat(">>"):
                return tuple(items)
            while True:
                items.append(self.value())
                if self.try_eat(">>"):
                    return tuple(items)
                self.eat(",")
        if c == "{":
            self.i += 1
            items = []
            if self.try_eat("}"):
                return frozenset()
            while True:
                items.append(self.value())
                if self.try_eat("}"):
                    return frozenset(_hashable(x) for x in items)
                self.eat(",")
        if c == "[":
            self.i += 1
            rec = {}
            while True:
                self.ws()
                m = re.compile(r"[A-Za-z_][A-Za-z0-9_]*").match(s, self.i)
                key = m.group(0)
                self.i = m.end()
                self.eat("|->")
                rec[key] = self.value()
                if self.try_eat("]"):
                    return rec
                self.eat(",")
        if c == "(":
            # function literal  (a :> b @@ c :> d)
            self.i += 1
            fn = {}
            while True:
                k = self.value()
                self.eat(":>")
                v = self.value()
                fn[_hashable(k)] = v
                if self.try_eat(")"):
                    return fn
                self.eat("@@")
        m = re.compile(r"-?\d+").match(s, self.i)
        if m:
            self.i = m.end()
            # ranges a..b are printed by TLC for integer intervals
            self.ws()
            if s.startswith("..", self.i):
                self.i += 2
                self.ws()
                m2 = re.compile(r"-?\d+").match(s, self.i)
                self.i = m2.end()
                return frozenset(range(int(m.group(0)), int(m2.group(0)) + 1))
            return int(m.group(0))
        m = re.compile(r"[A-Za-z_][A-Za-z0-9_]*").match(s, self.i)
        if m:
            self.i = m.end()
            w = m.group(0)
            if w == "TRUE":
                return True
            if w == "FALSE":
                return False
            return ModelValue(w)
        raise ValueError(f"cannot parse TLA+ value at {self.i}: {s[self.i:self.i+60]!r}")


class ModelValue(str):
    pass


def _hashable(x):
    if isinstance(x, dict):
        return tuple(sorted((_hashable(k), _hashable(v)) for k, v in x.items()))
    if isinstance(x, (list, tuple)):
        return tuple(_hashable(y) for y in x)
    if isinstance(x, (set, frozenset)):
        return frozenset(_hashable(y) for y in x)
    return x


def parse_value(text: str) -> Any:
    p = _P(text)
    v = p.value()
    p.ws()
    if p.i != len(p.s):
        raise ValueError(f"trailing text after TLA+ value: {p.s[p.i:p.i+40]!r}")
    return v


_VAR_LINE = re.compile(r"^(?:/\\ )?([A-Za-z_][A-Za-z0-9_]*) = ", re.M)


def parse_state(text: str) -> Dict[str, Any]:
    """``/\\ x = 1\\n/\\ y = <<>>``  ->  {'x': 1, 'y': ()}."""
    text = text.strip()
    starts = [(m.start(), m.end(), m.group(1)) for m in _VAR_LINE.finditer(text)]
    out = {}
    for idx, (st, en, name) in enumerate(starts):
        stop = starts[idx + 1][0] if idx + 1 < len(starts) else len(text)
        out[name] = parse_value(text[en:stop].strip())
    return out


# --------------------------------------------------------------------------- result
@dataclass
class TLCResult:
    ok: bool                      # finished without any error
    returncode: int
    generated: int = 0
    distinct: int = 0
    depth: int = 0
    violated: Optional[str] = None          # invariant / property name, "deadlock", "postcondition"
    error_trace: List[Tuple[str, Dict[str, Any]]] = field(default_factory=list)
    printed: List[Any] = field(default_factory=list)
    coverage: Dict[str, Tuple[int, int]] = field(default_factory=dict)  # action -> (distinct, total)
    output: str = ""
    wall_s: float = 0.0
    cmd: str = ""

    def zero_actions(self, ignore=()):
        return sorted(a for a, (d, t) in self.coverage.items() if t == 0 and a not in ignore)


_STR_SCAN = re.compile(r'"((?:[^"\\]|\\.)*)"')


def _scan_printed(out: str) -> List[Any]:
    rows = []
    for line in out.splitlines():
        if not line.startswith('"'):
            continue
        for m in _STR_SCAN.finditer(line):
            raw = m.group(0)
            try:
                s = json.loads(raw)
            except Exception:
                # TLA+ strings escape only \" and \\ : do it by hand
                s = m.group(1).replace('\\"', '"').replace("\\\\", "\\")
            if s[:1] in "{[":
                try:
                    rows.append(json.loads(s))
                    continue
                except Exception:
                    pass
            rows.append(s)
    return rows


def _parse_trace(out: str) -> List[Tuple[str, Dict[str, Any]]]:
    trace = []
    # State N: <Action line ...>\n vars...\n\n
    for m in re.finditer(r"^State (\d+): <([^>]*)>\n(.*?)(?=\n\n|\nState \d+:|\Z)", out, re.S | re.M):
        head = m.group(2)
        act = head.split(" line ")[0].strip()
        try:
            st = parse_state(m.group(3))
        except Exception:
            st = {"_raw": m.group(3)}
        trace.append((act, st))
    return trace


def _parse_coverage(out: str) -> Dict[str, Tuple[int, int]]:
    cov = {}
    for m in re.finditer(r"^<([A-Za-z_][A-Za-z0-9_!]*) line \d+, col \d+ to line \d+, col \d+ of module [A-Za-z0-9_]+>: (\d+):(\d+)", out, re.M):
        name = m.group(1)
        d, t = int(m.group(2)), int(m.group(3))
        if name in cov:
            d += cov[name][0]
            t += cov[name][1]
        cov[name] = (d, t)
    return cov


def run_tlc(spec: str, cfg: Optional[str] = None, *, workers: int | str = 16, coverage: bool = False,
            simulate: Optional[str] = None, depth: Optional[int] = None, seed: Optional[int] = None,
            dump_dot: Optional[str] = None, env: Optional[Dict[str, str]] = None, timeout: int = 3600,
            deadlock: Optional[bool] = None, extra: Optional[List[str]] = None, dfs_queue: bool = False,
            heap: str = "8g", keep_output: bool = True, cwd: Optional[str] = None) -> TLCResult:
    """Run TLC.  ``spec`` is a path (absolute or relative to /verif/spec)."""
    if not os.path.isabs(spec):
        spec = os.path.join(SPEC_DIR, spec)
    if cfg is None:
        cfg = spec[:-4] + ".cfg"
    elif not os.path.isabs(cfg):
        cfg = os.path.join(SPEC_DIR, cfg)
    meta = tempfile.mkdtemp(prefix="vtlc-")
    java = ["java", "-XX:+UseParallelGC", f"-Xmx{heap}"]
    if dfs_queue:
        java.append("-Dtlc2.tool.queue.IStateQueue=StateDeque")
    java += [f"-DTLA-Library={SPEC_DIR}", "-cp", f"{JAR}:{DEPS}", "tlc2.TLC"]
    args = ["-workers", str(workers), "-metadir", meta, "-noGenerateSpecTE", "-config", cfg]
    if coverage:
        args += ["-coverage", "1"]
    if simulate is not None:
        args += ["-simulate", simulate]
    if depth is not None:
        args += ["-depth", str(depth)]
    if seed is not None:
        args += ["-seed", str(seed)]
    if dump_dot is not None:
        args += ["-dump", "dot,actionlabels", dump_dot]
    if deadlock is False:
        args += ["-deadlock"]
    if extra:
        args += extra
    args.append(spec)
    e = dict(os.environ)
    e.pop("JAVA_TOOL_OPTIONS", None)
    if env:
        e.update(env)
    t0 = time.time()
    try:
        cp = subprocess.run(java + args, capture_output=True, text=True, env=e, timeout=timeout,
                            cwd=cwd or os.path.dirname(spec))
    except subprocess.TimeoutExpired as ex:
        shutil.rmtree(meta, ignore_errors=True)
        raise TLCMachineryError(f"TLC timed out after {timeout}s on {spec}") from ex
    finally:
        pass
    shutil.rmtree(meta, ignore_errors=True)
    out = cp.stdout + ("\n" + cp.stderr if cp.stderr.strip() else "")
    res = TLCResult(ok=False, returncode=cp.returncode, output=out if keep_output else out[-20000:],
                    wall_s=time.time() - t0, cmd=" ".join(["tlc"] + args))
    m = re.search(r"(\d+) states generated, (\d+) distinct states found", out)
    if m:
        res.generated, res.distinct = int(m.group(1)), int(m.group(2))
    m = re.search(r"The depth of the complete state graph search is (\d+)", out)
    if m:
        res.depth = int(m.group(1))
    res.printed = _scan_printed(cp.stdout)
    if coverage:
        res.coverage = _parse_coverage(out)
    m = re.search(r"Error: Invariant (\S+) is violated", out)
    if m:
        res.violated = m.group(1)
    elif re.search(r"Error: Action property (\S+)", out):
        res.violated = re.search(r"Error: Action property (\S+)", out).group(1).rstrip(".")
    elif "Error: Deadlock reached" in out:
        res.violated = "deadlock"
    elif re.search(r"Temporal properties were violated", out):
        res.violated = "temporal"
    elif re.search(r"Postcondition (\S+) .*(violated|false)", out):
        res.violated = "postcondition"
    elif re.search(r"Error: Evaluating assumption|Assumption .* is false", out):
        res.violated = "assumption"
    if res.violated:
        res.error_trace = _parse_trace(out)
    has_error = bool(re.search(r"^Error:", out, re.M)) or cp.returncode not in (0,)
    res.ok = (not has_error) and res.violated is None
    if has_error and res.violated is None:
        # a genuine TLC failure (parse error, evaluation error, ...)
        raise TLCMachineryError(f"TLC failed on {os.path.basename(spec)} / {os.path.basename(cfg)}:\n" + out[-4000:])
    return res


def sany(spec: str) -> None:
    if not os.path.isabs(spec):
        spec = os.path.join(SPEC_DIR, spec)
    cp = subprocess.run(["java", f"-DTLA-Library={SPEC_DIR}", "-cp", f"{JAR}:{DEPS}", "tla2sany.SANY", spec], capture_output=True, text=True,
                        cwd=os.path.dirname(spec))
    if cp.returncode != 0 or "rror" in cp.stdout.replace("Semantic errors:\n\n", ""):
        if re.search(r"\*\*\* Errors|Fatal errors|Semantic errors|Parsing or semantic analysis failed", cp.stdout):
            raise TLCMachineryError(f"SANY rejected {spec}:\n{cp.stdout[-3000:]}")


# --------------------------------------------------------------------------- graphs
@dataclass
class Graph:
    init: List[str]
    nodes: Dict[str, Dict[str, Any]]
    edges: List[Tuple[str, str, str]]     # (src, action label, dst)

    def out(self):
        d: Dict[str, List[Tuple[str, str]]] = {n: [] for n in self.nodes}
        for s, a, t in self.edges:
            d[s].append((a, t))
        return d


_DOT_NODE = re.compile(r'^(-?\d+) \[label="((?:[^"\\]|\\.)*)"(,style = filled)?')
_DOT_EDGE = re.compile(r'^(-?\d+) -> (-?\d+) \[label="((?:[^"\\]|\\.)*)"')


def _undot(s: str) -> str:
    return s.replace("\\n", "\n").replace('\\"', '"').replace("\\\\", "\\")


def parse_dot(path: str) -> Graph:
    nodes, edges, init = {}, [], []
    with open(path) as fh:
        for line in fh:
            m = _DOT_EDGE.match(line)
            if m:
                edges.append((m.group(1), _undot(m.group(3)), m.group(2)))
                continue
            m = _DOT_NODE.match(line)
            if m:
                nodes[m.group(1)] = parse_state(_undot(m.group(2)))
                if m.group(3):
                    init.append(m.group(1))
    return Graph(init, nodes, edges)


def parse_action(label: str) -> Tuple[str, List[Any]]:
    """``Pkgs(<<"a">>, "C1")`` -> ('Pkgs', [('a',), 'C1'])."""
    label = label.strip()
    m = re.match(r"([A-Za-z_][A-Za-z0-9_]*)\s*(?:\((.*)\))?$", label, re.S)
    if not m:
        return label, []
    name, rest = m.group(1), m.group(2)
    if rest is None or not rest.strip():
        return name, []
    return name, list(parse_value("<<" + rest + ">>"))


def edge_cover_paths(g: Graph, max_len: int = 64) -> List[List[Tuple[str, str, str]]]:
    """A set of paths from the initial states that together traverse every edge.

    Greedy: BFS tree gives a shortest prefix to every node; for every uncovered edge
    (s,a,t) emit prefix(s) + [(s,a,t)] and then keep walking along uncovered edges."""
    out = g.out()
    from collections import deque
    pred: Dict[str, Optional[Tuple[str, str, str]]] = {}
    dq = deque()
    for i in g.init:
        pred[i] = None
        dq.append(i)
    while dq:
        n = dq.popleft()
        for a, t in out[n]:
            if t not in pred:
                pred[t] = (n, a, t)
                dq.append(t)

    def prefix(n):
        p = []
        while pred.get(n) is not None:
            e = pred[n]
            p.append(e)
            n = e[0]
        return list(reversed(p))

    covered = set()
    paths = []
    for e in g.edges:
        if e in covered or e[0] not in pred:
            continue
        p = prefix(e[0]) + [e]
        covered.update(p)
        cur = e[2]
        while len(p) < max_len:
            nxt = next(((cur, a, t) for a, t in out[cur] if (cur, a, t) not in covered), None)
            if nxt is None:
                break
            p.append(nxt)
            covered.add(nxt)
            cur = nxt[2]
        paths.append(p)
    return paths


# --------------------------------------------------------------------------- simulate
def parse_sim_dir(directory: str) -> List[List[Tuple[str, Dict[str, Any]]]]:
    """Files written by ``-simulate file=<dir>/tr,num=N``."""
    behs = []
    for fn in sorted(os.listdir(directory)):
        p = os.path.join(directory, fn)
        if not os.path.isfile(p):
            continue
        txt = open(p).read()
        beh = []
        for m in re.finditer(r"\\\* <([^>]*)>\s*\nSTATE_(\d+) ==\s*\n(.*?)(?=\n\n|\Z)", txt, re.S):
            act = m.group(1).split(" line ")[0].strip()
            beh.append((act, parse_state(m.group(3))))
        if beh:
            behs.append(beh)
    return behs


def simulate(spec: str, cfg: str, num: int, depth: int, seed: int = 0, timeout: int = 1800,
             env: Optional[Dict[str, str]] = None) -> Tuple[TLCResult, List[List[Tuple[str, Dict[str, Any]]]]]:
    d = tempfile.mkdtemp(prefix="vsim-")
    try:
        res = run_tlc(spec, cfg, workers=1, simulate=f"file={d}/tr,num={num}", depth=depth, seed=seed,
                      timeout=timeout, env=env)
        return res, parse_sim_dir(d)
    finally:
        shutil.rmtree(d, ignore_errors=True)
