"""Small helpers shared by drivers: scratch directories, generated cfg files, forked isolation."""
from __future__ import annotations

import contextlib
import multiprocessing as mp
import os
import shutil
import tempfile
from typing import Any, Callable, Iterable, List


@contextlib.contextmanager
def scratch(prefix: str = "verif-"):
    d = tempfile.mkdtemp(prefix=prefix)
    try:
        yield d
    finally:
        shutil.rmtree(d, ignore_errors=True)


def write_file(directory: str, name: str, text: str) -> str:
    p = os.path.join(directory, name)
    with open(p, "w") as fh:
        fh.write(text)
    return p


def tla_set(items: Iterable[str]) -> str:
    return "{" + ", ".join('"%s"' % i for i in items) + "}"


def _in_fork(fn, item):
    """Run fn(item) in a forked child of the *current* process; return its result."""
    import pickle
    r, w = os.pipe()
    pid = os.fork()
    if pid == 0:
        code = 0
        try:
            os.close(r)
            try:
                payload = pickle.dumps(("ok", fn(item)))
            except BaseException as ex:      # noqa
                import traceback
                payload = pickle.dumps(("err", f"{type(ex).__name__}: {ex}\n{traceback.format_exc()[-1500:]}"))
            with os.fdopen(w, "wb") as fh:
                fh.write(payload)
        except BaseException:                 # noqa
            code = 3
        finally:
            os._exit(code)
    os.close(w)
    with os.fdopen(r, "rb") as fh:
        data = fh.read()
    _, status = os.waitpid(pid, 0)
    if not data:
        return ("err", f"child died with status {status}")
    return pickle.loads(data)


def _fork_chunk(args):
    fn, items = args
    return [_in_fork(fn, it) for it in items]


class ForkPool:
    """Persistent workers forked *now* (while the caller is still small); each worker forks
    once more per item, so every item runs in a pristine copy of the caller's state."""

    def __init__(self, procs: int = 16):
        self.procs = procs
        self.pool = mp.get_context("fork").Pool(processes=procs)

    def map(self, fn: Callable[[Any], Any], items: List[Any], chunksize: int = 0) -> List[Any]:
        if not items:
            return []
        n = len(items)
        size = chunksize or max(1, min(64, (n + self.procs * 4 - 1) // (self.procs * 4)))
        chunks = [(fn, items[i:i + size]) for i in range(0, n, size)]
        res = self.pool.map(_fork_chunk, chunks, chunksize=1)
        out = []
        for ch in res:
            for tag, val in ch:
                if tag != "ok":
                    raise RuntimeError(f"forked task failed: {val}")
                out.append(val)
        return out

    def close(self):
        self.pool.terminate()
        self.pool.join()

    def __enter__(self):
        return self

    def __exit__(self, *a):
        self.close()


def fork_map(fn: Callable[[Any], Any], items: List[Any], procs: int = 16, chunksize: int = 0) -> List[Any]:
    """One-shot convenience wrapper around ForkPool."""
    if not items:
        return []
    with ForkPool(max(1, min(procs, len(items)))) as pool:
        return pool.map(fn, items, chunksize)
