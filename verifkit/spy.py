"""Recording containers: every dunder a type-check could call on its subject is logged.

One global event list (reset per check).  An event is (spy id, op).  Ops:
  len getitem iter next keys values items contains eq bool repr hash   read-only protocol
  mut                                                                   any mutator
  missing                                                               defaultdict factory / __missing__
  send throw close                                                      generator protocol
Iterators handed out by ``iter(collection)`` log ``next`` against the collection's id with
kind "own" (advancing an iterator the check created itself is allowed); ``next`` on a
one-shot subject logs kind "subject".
"""
from __future__ import annotations

import collections
import collections.abc as cabc

LOG = []


def reset():
    del LOG[:]


def _log(obj, op):
    LOG.append((id(obj), op))


class _OwnIter:
    """Iterator created by iter(<spy collection>): advancing it is a read of the collection."""
    __slots__ = ("_o", "_it")

    def __init__(self, owner, it):
        self._o, self._it = owner, it

    def __iter__(self):
        return self

    def __next__(self):
        _log(self._o, "next")
        return next(self._it)


def _mutators(cls, base, names):
    for n in names:
        if hasattr(base, n):
            def make(n):
                def m(self, *a, **k):
                    _log(self, "mut")
                    return getattr(base, n)(self, *a, **k)
                m.__name__ = n
                return m
            setattr(cls, n, make(n))


class _ReadMixin:
    def __len__(self):
        _log(self, "len")
        return super().__len__()

    def __iter__(self):
        _log(self, "iter")
        return _OwnIter(self, super().__iter__())

    def __contains__(self, x):
        _log(self, "contains")
        return super().__contains__(x)

    def __eq__(self, o):
        _log(self, "eq")
        return super().__eq__(o)

    def __ne__(self, o):
        _log(self, "eq")
        return super().__ne__(o)

    def __repr__(self):
        _log(self, "repr")
        return f"<{type(self).__name__} of {super().__len__()}>"

    def __bool__(self):
        _log(self, "bool")
        return super().__len__() > 0


class SpyList(_ReadMixin, list):
    __hash__ = None

    def __getitem__(self, i):
        _log(self, "getitem")
        return super().__getitem__(i)

    def __reversed__(self):
        _log(self, "iter")
        return _OwnIter(self, list.__reversed__(self))


_mutators(SpyList, list, ["append", "extend", "insert", "pop", "remove", "clear", "sort", "reverse", "__setitem__",
                          "__delitem__", "__iadd__", "__imul__"])


class SpyTuple(_ReadMixin, tuple):
    def __getitem__(self, i):
        _log(self, "getitem")
        return super().__getitem__(i)

    def __hash__(self):
        _log(self, "hash")
        return id(self)


class SpyDeque(_ReadMixin, collections.deque):
    __hash__ = None

    def __getitem__(self, i):
        _log(self, "getitem")
        return super().__getitem__(i)


_mutators(SpyDeque, collections.deque, ["append", "appendleft", "extend", "extendleft", "pop", "popleft", "remove",
                                        "clear", "rotate", "insert", "__setitem__", "__delitem__"])


class SpySet(_ReadMixin, set):
    __hash__ = None


_mutators(SpySet, set, ["add", "discard", "remove", "pop", "clear", "update", "difference_update",
                        "intersection_update", "symmetric_difference_update"])


class SpyFrozenSet(_ReadMixin, frozenset):
    def __hash__(self):
        _log(self, "hash")
        return id(self)


class _SpyView:
    __slots__ = ("_o", "_v")

    def __init__(self, owner, view):
        self._o, self._v = owner, view

    def __iter__(self):
        _log(self._o, "iter")
        return _OwnIter(self._o, iter(self._v))

    def __len__(self):
        _log(self._o, "len")
        return len(self._v)

    def __contains__(self, x):
        _log(self._o, "contains")
        return x in self._v


class _DictRead(_ReadMixin):
    def __getitem__(self, k):
        _log(self, "getitem")
        return super().__getitem__(k)

    def get(self, k, d=None):
        _log(self, "getitem")
        return super().get(k, d)

    def keys(self):
        _log(self, "keys")
        return _SpyView(self, super().keys())

    def values(self):
        _log(self, "values")
        return _SpyView(self, super().values())

    def items(self):
        _log(self, "items")
        return _SpyView(self, super().items())


class SpyDict(_DictRead, dict):
    __hash__ = None


_DICT_MUT = ["__setitem__", "__delitem__", "pop", "popitem", "clear", "update", "setdefault"]
_mutators(SpyDict, dict, _DICT_MUT)


class SpyDefaultDict(_DictRead, collections.defaultdict):
    __hash__ = None

    def __missing__(self, k):
        _log(self, "missing")
        return super().__missing__(k)


_mutators(SpyDefaultDict, collections.defaultdict, _DICT_MUT)


class SpyOrderedDict(_DictRead, collections.OrderedDict):
    __hash__ = None


_mutators(SpyOrderedDict, collections.OrderedDict, _DICT_MUT + ["move_to_end"])


class SpyCounter(_DictRead, collections.Counter):
    __hash__ = None

    def __missing__(self, k):
        _log(self, "missing")
        return 0


_mutators(SpyCounter, collections.Counter, _DICT_MUT + ["subtract"])


class SpySeq(cabc.Sequence):
    """user-defined Sequence (not a list)"""

    def __init__(self, items):
        self._d = list(items)

    def __len__(self):
        _log(self, "len")
        return len(self._d)

    def __getitem__(self, i):
        _log(self, "getitem")
        return self._d[i]

    def __iter__(self):
        _log(self, "iter")
        return _OwnIter(self, iter(self._d))

    def __contains__(self, x):
        _log(self, "contains")
        return x in self._d

    def __reversed__(self):
        _log(self, "iter")
        return _OwnIter(self, reversed(self._d))

    def __repr__(self):
        _log(self, "repr")
        return f"<SpySeq of {len(self._d)}>"

    def __eq__(self, o):
        _log(self, "eq")
        return self is o

    __hash__ = None


class SpyColl(cabc.Collection):
    """user-defined Collection that is not a Sequence"""

    def __init__(self, items):
        self._d = list(items)

    def __len__(self):
        _log(self, "len")
        return len(self._d)

    def __iter__(self):
        _log(self, "iter")
        return _OwnIter(self, iter(self._d))

    def __contains__(self, x):
        _log(self, "contains")
        return x in self._d

    def __repr__(self):
        _log(self, "repr")
        return f"<SpyColl of {len(self._d)}>"


class SpyMap(cabc.Mapping):
    def __init__(self, pairs):
        self._d = dict(pairs)

    def __len__(self):
        _log(self, "len")
        return len(self._d)

    def __getitem__(self, k):
        _log(self, "getitem")
        return self._d[k]

    def __iter__(self):
        _log(self, "iter")
        return _OwnIter(self, iter(self._d))

    def keys(self):
        _log(self, "keys")
        return _SpyView(self, self._d.keys())

    def values(self):
        _log(self, "values")
        return _SpyView(self, self._d.values())

    def items(self):
        _log(self, "items")
        return _SpyView(self, self._d.items())

    def __repr__(self):
        _log(self, "repr")
        return f"<SpyMap of {len(self._d)}>"


class SpyIterable:
    """iterable but NOT a collection: a check must not iterate it at all"""

    def __init__(self, items):
        self._d = list(items)
        self.iterated = 0

    def __iter__(self):
        _log(self, "iter_noncollection")
        self.iterated += 1
        return iter(self._d)

    def __repr__(self):
        _log(self, "repr")
        return "<SpyIterable>"


class SpyIterator:
    """one-shot iterator: any __next__ consumes it"""

    def __init__(self, items):
        self._d = list(items)
        self.pos = 0

    def __iter__(self):
        _log(self, "iter_self")
        return self

    def __next__(self):
        _log(self, "next_subject")
        if self.pos >= len(self._d):
            raise StopIteration
        self.pos += 1
        return self._d[self.pos - 1]

    def __repr__(self):
        _log(self, "repr")
        return "<SpyIterator>"


class SpySizedIterator(SpyIterator):
    """one-shot iterator that also defines __len__ (Sized but not a Collection)"""

    def __len__(self):
        _log(self, "len")
        return len(self._d) - self.pos


class SpyGenerator(cabc.Generator):
    """generator-protocol object: send / throw / close are all forbidden for a check"""

    def __init__(self, items):
        self._d = list(items)
        self.pos = 0
        self.closed = False

    def send(self, v):
        _log(self, "send")
        if self.pos >= len(self._d):
            raise StopIteration
        self.pos += 1
        return self._d[self.pos - 1]

    def throw(self, typ=None, val=None, tb=None):
        _log(self, "throw")
        raise StopIteration

    def close(self):
        _log(self, "close")
        self.closed = True

    def __repr__(self):
        _log(self, "repr")
        return "<SpyGenerator>"


FORBIDDEN = {"mut", "missing", "send", "throw", "close", "next_subject", "iter_noncollection"}


def summarize(ids=None):
    """Counts of the events logged since reset(): (per-op totals, per-object read counts)."""
    tot = collections.Counter()
    per_obj = collections.Counter()
    for oid, op in LOG:
        tot[op] += 1
        if op in ("getitem", "next"):
            per_obj[oid] += 1
    return tot, per_obj
