"""Replay engine for the Semantics case tables (binding B1, DESIGN.md §2.3).

``build_rows``  runs TLC on MC_Semantics (design invariants + row emission) and caches the
                rows under /verif/.scratch (they depend only on the specification).
``replay``      concretises every (hint, configuration) row and every object, sets the draw,
                calls the real entry points and returns observations / issues per property.
"""
from __future__ import annotations

import glob
import hashlib
import json
import multiprocessing as mp
import os
import re
import shutil
import warnings

from verifkit.bind import sem          # noqa  (patches the sampler, then imports beartype)
from verifkit.bind.sem import (DRAW, World, okey, real_conf, set_draw, short_hint, short_obj)
from verifkit import tlc

ROOT = os.path.dirname(os.path.dirname(os.path.dirname(os.path.abspath(__file__))))
SCRATCH = os.path.join(ROOT, ".scratch")

INVARIANTS = ["C01_NoFalseAlarm", "C02a_MustReject", "C02b_EveryIndexReachable", "C02c_NonRandomFirst",
              "C02d_AcceptedIsWeak", "C02e_IgnorableAcceptsAll", "Lemma_SatOrder", "Lemma_DrawAbstraction"]

CFG = """SPECIFICATION Spec
CONSTANTS
  Tier = "%(tier)s"
  L = %(L)d
  Emit = %(emit)s
  Mut = "%(mut)s"
%(invs)s
CHECK_DEADLOCK FALSE
"""


def _spec_hash(tier):
    h = hashlib.sha1()
    for f in ("Semantics.tla", "MC_Semantics.tla"):
        h.update(open(os.path.join(tlc.SPEC_DIR, f), "rb").read())
    h.update(tier.encode())
    return h.hexdigest()[:16]


def tier_params(tier):
    return {"tier": tier, "L": 2 if tier == "quick" else 3}


def run_model(rep, tier, mut="none", emit_dir=None, invariants=INVARIANTS):
    """One TLC run of MC_Semantics: design invariants (+ rows when emit_dir is given)."""
    invs = "\n".join(f"INVARIANT {i}" for i in invariants)
    if emit_dir:
        invs += "\nINVARIANT EmitObjs\nINVARIANT EmitRows"
    p = tier_params(tier)
    os.makedirs(SCRATCH, exist_ok=True)
    cfg = os.path.join(SCRATCH, f"mc_sem_{tier}_{mut}_{os.getpid()}.cfg")
    with open(cfg, "w") as fh:
        fh.write(CFG % {"tier": tier, "L": p["L"], "emit": "TRUE" if emit_dir else "FALSE", "mut": mut, "invs": invs})
    try:
        return tlc.run_tlc("MC_Semantics.tla", cfg, env={"ROW_DIR": emit_dir or "/nonexistent"}, timeout=7200,
                           heap="16g")
    finally:
        os.remove(cfg)


def build_rows(rep, tier):
    """Return the directory holding objs.json and row_*.json for this tier (cached by spec hash)."""
    d = os.path.join(SCRATCH, f"rows-{tier}-{_spec_hash(tier)}")
    if os.path.exists(os.path.join(d, "DONE")):
        st = json.load(open(os.path.join(d, "DONE")))
        rep.cov["states"] = rep.cov.get("states", 0) + st["distinct"]
        rep.cov["transitions"] = rep.cov.get("transitions", 0) + st["generated"]
        rep.cov.setdefault("tlc_runs", []).append({"label": "MC_Semantics (cached rows of this spec version)", **st})
        return d
    for old in glob.glob(os.path.join(SCRATCH, f"rows-{tier}-*")):
        shutil.rmtree(old, ignore_errors=True)
    os.makedirs(d, exist_ok=True)
    res = run_model(rep, tier, emit_dir=d)
    rep.tlc(res, f"MC_Semantics {tier}: design invariants + rows")
    if res.violated:
        shutil.rmtree(d, ignore_errors=True)
        rep.machinery(f"MC_Semantics ({tier}) violates {res.violated}: the specification of the generated check "
                      f"contradicts the declarative semantics at hint index "
                      f"{[s.get('hid') for a, s in res.error_trace][-1:]} - fix the model")
    with open(os.path.join(d, "DONE"), "w") as fh:
        json.dump({"distinct": res.distinct, "generated": res.generated, "wall_s": round(res.wall_s, 1)}, fh)
    return d


def run_mutants(rep, tier="quick", muts=("union_first_only", "seq_len_minus_1")):
    """Spec mutants of the generated check must be rejected by the design invariants."""
    for m in muts:
        res = run_model(rep, tier, mut=m)
        if not res.violated:
            rep.machinery(f"spec mutant {m} is not rejected by any invariant: vacuous model")
        rep.add("spec_mutants_killed")
        rep.cov.setdefault("spec_mutants", []).append({"mutant": m, "rejected_by": res.violated})


# ----------------------------------------------------------------------------- replay
_ANSI = re.compile(r"\x1b\[[0-9;]*m")


class _Ctx:
    pass


def _worker(args):
    rows_dir, hids, opts = args
    warnings.simplefilter("ignore")
    objs_doc = json.load(open(os.path.join(rows_dir, "objs.json")))
    objs, confs, lcm = objs_doc["objs"], objs_doc["confs"], objs_doc["lcm"]
    w = World()
    index = {okey(o): j for j, o in enumerate(objs)}
    real = [None] * len(objs)
    jmap = list(range(len(objs)))
    for j, o in enumerate(objs):
        if o["k"] != "iter":
            real[j] = w.obj(o)
        if '"set"' in okey(o) or "frozenset" in okey(o):
            po = w.project_order(o, None)
            jm = index.get(okey(po))
            if jm is None:
                return {"fatal": f"projection of object {j} not in the universe: {okey(po)[:200]}"}
            jmap[j] = jm
    out = {"issues": [], "n_calls": 0, "n_pairs": 0, "nontrivial": set(), "drift": 0, "drift_ex": [],
           "samples": [], "draw_calls_max": 0, "counts": {}}
    for hid in hids:
        for f in sorted(glob.glob(os.path.join(rows_dir, f"row_{hid}_*.json"))):
            row = json.load(open(f))
            _replay_row(w, row, objs, real, jmap, confs, lcm, opts, out)
    out["nontrivial"] = sorted(out["nontrivial"])
    return out


def _issue(out, prop, kind, row, j, objs, detail, extra=None):
    key = (prop, kind, row["hid"], row["conf"])
    c = out["counts"].get(key, 0)
    out["counts"][key] = c + 1
    if c >= 2:
        return
    out["issues"].append({"prop": prop, "kind": kind, "hint": short_hint(row["h"]), "habs": row["h"],
                          "conf": row["conf"], "obj": short_obj(objs[j]) if j is not None else None,
                          "oabs": objs[j] if j is not None else None, "detail": detail, **(extra or {})})


def _fresh(w, objs, real, j):
    return real[j] if real[j] is not None else w.obj(objs[j])


def _replay_row(w, row, objs, real, jmap, confs, lcm, opts, out):
    from beartype.door import TypeHint, die_if_unbearable, is_bearable
    from beartype import beartype as deco
    from beartype.roar import (BeartypeCallHintParamViolation, BeartypeCallHintReturnViolation,
                               BeartypeDoorHintViolation)
    h, ci = row["h"], row["conf"]
    cabs = confs[ci - 1]
    conf = real_conf(w, cabs)
    code, chk, idx = row["code"], row["chk"], row["idx"]
    n = len(objs)
    draws = range(lcm)
    nsp = opts.get("spellings", 2)
    seed = opts.get("seed", 0)
    spellings = [0] + [1 + ((row["hid"] + seed + k) % 5) for k in range(nsp - 1)]
    props = opts["props"]
    for spi, sp in enumerate(spellings):
        try:
            hint = w.hint(h, sp)
        except TypeError as ex:
            continue        # spelling not expressible in this Python (e.g. X | TypeVar): skip the spelling
        try:
            is_bearable(0, hint, conf=conf)
        except Exception as ex:   # noqa
            _issue(out, "C11", "hint_rejected", row, None, objs,
                   f"supported hint {hint!r} (spelling {sp}) raises {type(ex).__name__}: {str(ex)[:200]}")
            continue
        th = TypeHint(hint)
        verd = [None] * n               # bitmask of accepting residues, from is_bearable
        for j in range(n):
            x = _fresh(w, objs, real, j)
            m = 0
            for r in draws:
                DRAW.value = r
                if is_bearable(x, hint, conf=conf):
                    m |= 1 << r
            verd[j] = m
        out["n_calls"] += n * lcm
        out["n_pairs"] += n
        full = (1 << lcm) - 1
        # ---- property verdicts from the declarative operators ---------------------------------
        rejects, accepts = [], []
        for j in range(n):
            jm = jmap[j]
            cd, m = code[jm], verd[j]
            if m:
                accepts.append(j)
            if m != full:
                rejects.append(j)
            if (cd & 1) and m != full and "C01" in props:
                _issue(out, "C01", "false_alarm", row, j, objs,
                       f"is_bearable rejects a conforming object for draw residues "
                       f"{[r for r in draws if not m >> r & 1]} (spelling {hint!r})", {"sp": sp})
            if "C02" in props:
                if (cd & 4) and m:
                    _issue(out, "C02", "must_reject_accepted", row, j, objs,
                           f"object whose violation no sampling can hide is accepted for draw residues "
                           f"{[r for r in draws if m >> r & 1]} (spelling {hint!r})", {"sp": sp})
                if m and not (cd & 8):
                    _issue(out, "C02", "accepted_not_weak", row, j, objs,
                           f"accepted object has no item consistent with the hint at some level (spelling {hint!r})",
                           {"sp": sp})
                ii = idx[jm]
                if ii & 128:
                    bad = [i for i in range(6) if ii >> i & 1]
                    if cabs["rnd"]:
                        if bad and m == full:
                            _issue(out, "C02", "index_unreachable", row, j, objs,
                                   f"items {bad} violate the item hint but no draw rejects the sequence "
                                   f"(spelling {hint!r})", {"sp": sp})
                    else:
                        if m not in (0, full):
                            _issue(out, "C02", "nonrandom_draw_dependent", row, j, objs,
                                   f"is_random=False but the verdict depends on the draw (spelling {hint!r})",
                                   {"sp": sp})
                        if (ii & 1) and m:
                            _issue(out, "C02", "nonrandom_not_first", row, j, objs,
                                   f"is_random=False: item 0 violates but the sequence is accepted "
                                   f"(spelling {hint!r})", {"sp": sp})
            if m != chk[jm]:
                out["drift"] += 1
                if len(out["drift_ex"]) < 5:
                    out["drift_ex"].append(f"{short_hint(h)} conf{ci} {short_obj(objs[j])}: real accept-mask "
                                           f"{m:b} spec Chk {chk[jm]:b}")
            if m and (cd & 1) and objs[j]["k"] in ("cont", "map") and objs[j]["items"]:
                out["nontrivial"].add(f"{row['hid']}:{objs[j]['cls']}:{len(objs[j]['items'])}")
        if spi == 0 and len(out["samples"]) < 2 and accepts:
            j = accepts[len(accepts) // 2]
            out["samples"].append({"hint": short_hint(h), "real_hint": repr(hint)[:120], "conf": cabs,
                                   "object": short_obj(objs[j]), "accept_mask": verd[j], "spec_code": code[jmap[j]],
                                   "spec_chk_mask": chk[jmap[j]]})
        # ---- the other entry points --------------------------------------------------------------
        if opts.get("entry_points"):
            try:
                @deco(conf=conf)
                def f_param(a: hint):
                    return a

                @deco(conf=conf)
                def f_ret(a) -> hint:
                    return a
            except Exception as ex:  # noqa
                _issue(out, "C11", "decor_rejected", row, None, objs,
                       f"@beartype rejects supported hint {hint!r}: {type(ex).__name__}: {str(ex)[:200]}")
                continue
            cap = opts.get("reject_cap", 12)
            rej_sample = rejects[:: max(1, len(rejects) // cap)][:cap] if (rejects and cap) else []
            todo = [(j, True) for j in accepts] + [(j, False) for j in rej_sample]
            for j, _ in todo:
                x = _fresh(w, objs, real, j)
                for r in draws:
                    want = bool(verd[j] >> r & 1)
                    big = (row["hid"] + j + r) % 3
                    for name in ("die", "th_is", "th_die", "param", "ret"):
                        set_draw(r, lcm, big)
                        DRAW.calls = 0
                        x2 = _fresh(w, objs, real, j) if objs[j]["k"] == "iter" else x
                        got, exc, res = True, None, None
                        try:
                            if name == "die":
                                die_if_unbearable(x2, hint, conf=conf)
                            elif name == "th_is":
                                got = th.is_bearable(x2, conf=conf)
                            elif name == "th_die":
                                th.die_if_unbearable(x2, conf=conf)
                            elif name == "param":
                                res = f_param(x2)
                            else:
                                res = f_ret(x2)
                        except Exception as ex:   # noqa
                            got, exc = False, ex
                        out["n_calls"] += 1
                        if DRAW.calls > out["draw_calls_max"]:
                            out["draw_calls_max"] = DRAW.calls
                        if DRAW.calls > 1 and "C02" in props:
                            _issue(out, "C02", "many_draws", row, j, objs, f"{name}: {DRAW.calls} sampler draws in one check")
                        if got != want:
                            if want and (code[jmap[j]] & 1) and "C01" in props:
                                _issue(out, "C01", "false_alarm_" + name, row, j, objs,
                                       f"{name} rejects a conforming object (draw residue {r}, is_bearable accepts): "
                                       f"{type(exc).__name__ if exc else got}: {_ANSI.sub('', str(exc))[:160]}",
                                       {"sp": sp})
                            if "C03" in props:
                                _issue(out, "C03", "entry_points_disagree", row, j, objs,
                                       f"is_bearable says {want} but {name} says {got} for the same draw residue {r} "
                                       f"({type(exc).__name__ if exc else ''}: {_ANSI.sub('', str(exc))[:160]})",
                                       {"sp": sp, "entry": name})
                            continue
                        if "C03" not in props:
                            continue
                        if got and name in ("param", "ret") and res is not x2:
                            _issue(out, "C03", "value_changed", row, j, objs, f"{name}: returned object is not the argument")
                        if not got and name != "th_is":
                            wantcls = {"die": BeartypeDoorHintViolation, "th_die": BeartypeDoorHintViolation,
                                       "param": BeartypeCallHintParamViolation,
                                       "ret": BeartypeCallHintReturnViolation}[name]
                            if type(exc) is not wantcls:
                                _issue(out, "C03", "wrong_violation_class", row, j, objs,
                                       f"{name}: rejection surfaces as {type(exc).__name__} "
                                       f"({_ANSI.sub('', str(exc))[:200]}), expected {wantcls.__name__}",
                                       {"sp": sp, "entry": name, "exc": type(exc).__name__})
                            else:
                                cul = getattr(exc, "culprits", ())
                                okc = bool(cul) and (cul[0] is x2 or cul[0] == repr(x2) or
                                                     (isinstance(cul[0], str) and objs[j]["k"] == "iter"))
                                if not okc:
                                    _issue(out, "C03", "culprit", row, j, objs,
                                           f"{name}: culprits {cul!r:.120} do not begin with the rejected object")
            out["n_pairs"] += len(todo)


def replay(rep, rows_dir, opts, procs=16):
    files = glob.glob(os.path.join(rows_dir, "row_*.json"))
    hids = sorted({int(os.path.basename(f).split("_")[1]) for f in files})
    frac = opts.get("hint_fraction", 1.0)
    if frac < 1.0:
        import random
        rnd = random.Random(opts.get("seed", 0))
        hids = sorted(rnd.sample(hids, max(1, int(len(hids) * frac))))
    chunks = [hids[i::procs * 4] for i in range(procs * 4)]
    chunks = [c for c in chunks if c]
    with mp.get_context("fork").Pool(procs) as pool:
        results = pool.map(_worker, [(rows_dir, c, opts) for c in chunks], chunksize=1)
    tot = {"issues": [], "n_calls": 0, "n_pairs": 0, "nontrivial": set(), "drift": 0, "drift_ex": [], "samples": [],
           "draw_calls_max": 0, "hints": len(hids), "rows": len(files)}
    for r in results:
        if "fatal" in r:
            rep.machinery(r["fatal"])
        tot["issues"] += r["issues"]
        tot["n_calls"] += r["n_calls"]
        tot["n_pairs"] += r["n_pairs"]
        tot["nontrivial"].update(r["nontrivial"])
        tot["drift"] += r["drift"]
        tot["drift_ex"] += r["drift_ex"]
        tot["samples"] += r["samples"]
        tot["draw_calls_max"] = max(tot["draw_calls_max"], r["draw_calls_max"])
    return tot
