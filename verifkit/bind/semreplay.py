"""Replay engine for the Semantics case tables (binding B1, DESIGN.md §2.3).

``build_rows``  runs TLC on MC_Semantics (design invariants + row emission) and caches the
                rows under /verif/.scratch (they depend only on the specification).
``replay``      concretises every (hint, configuration) row and every object, sets the draw,
                calls the real entry points and returns observations / issues per property.
"""
from __future__ import annotations

import glob
import hashlib
import json
import multiprocessing as mp
import os
import re
import shutil
import warnings

from verifkit.bind import sem          # noqa  (patches the sampler, then imports beartype)
from verifkit.bind.sem import (DRAW, World, okey, real_conf, set_draw, short_hint, short_obj)
from verifkit import tlc

ROOT = os.path.dirname(os.path.dirname(os.path.dirname(os.path.abspath(__file__))))
SCRATCH = os.path.join(ROOT, ".scratch")

INVARIANTS = ["C01_NoFalseAlarm", "C02a_MustReject", "C02b_EveryIndexReachable", "C02c_NonRandomFirst",
              "C02d_AcceptedIsWeak", "C02e_IgnorableAcceptsAll", "Lemma_SatOrder", "Lemma_DrawAbstraction",
              "Lemma_StretchClosure", "C09_ReadBound", "C10_NoForbiddenOp"]

CFG = """SPECIFICATION Spec
CONSTANTS
  Tier = "%(tier)s"
  L = %(L)d
  Emit = %(emit)s
  Mut = "%(mut)s"
%(invs)s
CHECK_DEADLOCK FALSE
"""


def _spec_hash(tier, module="MC_Semantics.tla"):
    h = hashlib.sha1()
    for f in ("Semantics.tla", module):
        h.update(open(os.path.join(tlc.SPEC_DIR, f), "rb").read())
    h.update(tier.encode())
    return h.hexdigest()[:16]


def tier_params(tier):
    return {"tier": tier, "L": 2 if tier == "quick" else 3}


VALE_INVARIANTS = ["C12_CodeIsMeaning", "C12_ValCodeIsValSem", "C12_Nested", "C12_Algebra"]


def run_model(rep, tier, mut="none", emit_dir=None, invariants=INVARIANTS, module="MC_Semantics.tla"):
    """One TLC run of MC_Semantics: design invariants (+ rows when emit_dir is given)."""
    invs = "\n".join(f"INVARIANT {i}" for i in invariants)
    if emit_dir:
        invs += "\nINVARIANT EmitObjs\nINVARIANT EmitRows"
    p = tier_params(tier)
    os.makedirs(SCRATCH, exist_ok=True)
    cfg = os.path.join(SCRATCH, f"mc_sem_{tier}_{mut}_{os.getpid()}.cfg")
    with open(cfg, "w") as fh:
        fh.write(CFG % {"tier": tier, "L": p["L"], "emit": "TRUE" if emit_dir else "FALSE", "mut": mut, "invs": invs})
    try:
        return tlc.run_tlc(module, cfg, env={"ROW_DIR": emit_dir or "/nonexistent"}, timeout=7200,
                           heap="16g")
    finally:
        os.remove(cfg)


def build_rows(rep, tier, module="MC_Semantics.tla", invariants=None):
    """Return the directory holding objs.json and row_*.json for this tier (cached by spec hash)."""
    tag = module[3:-4].lower()
    invariants = invariants or INVARIANTS
    d = os.path.join(SCRATCH, f"rows-{tag}-{tier}-{_spec_hash(tier, module)}")
    if os.path.exists(os.path.join(d, "DONE")):
        st = json.load(open(os.path.join(d, "DONE")))
        rep.cov["states"] = rep.cov.get("states", 0) + st["distinct"]
        rep.cov["transitions"] = rep.cov.get("transitions", 0) + st["generated"]
        rep.cov.setdefault("tlc_runs", []).append({"label": "MC_Semantics (cached rows of this spec version)", **st})
        return d
    for old in glob.glob(os.path.join(SCRATCH, f"rows-{tag}-{tier}-*")):
        shutil.rmtree(old, ignore_errors=True)
    os.makedirs(d, exist_ok=True)
    res = run_model(rep, tier, emit_dir=d, invariants=invariants, module=module)
    rep.tlc(res, f"{module} {tier}: design invariants + rows")
    if res.violated:
        shutil.rmtree(d, ignore_errors=True)
        rep.machinery(f"{module} ({tier}) violates {res.violated}: the specification of the generated check "
                      f"contradicts the declarative semantics at hint index "
                      f"{[s.get('hid') for a, s in res.error_trace][-1:]} - fix the model")
    with open(os.path.join(d, "DONE"), "w") as fh:
        json.dump({"distinct": res.distinct, "generated": res.generated, "wall_s": round(res.wall_s, 1)}, fh)
    return d


DEEP_INVARIANTS = ["Deep_NoFalseAlarm", "Deep_MustReject", "Deep_AcceptedIsWeak", "Deep_EveryIndexReachable",
                   "Deep_ReadBound", "Deep_NonVacuous"]

DEEP_CFG = """SPECIFICATION Spec
CONSTANTS
  Depth = %(depth)d
  L = 3
  Emit = TRUE
  Mut = "none"
%(invs)s
INVARIANT EmitObjs
INVARIANT EmitRows
CHECK_DEADLOCK FALSE
"""


def build_deep_rows(rep, depth):
    """MC_SemDeep: hints nested to ``depth`` with hint-derived objects; rows cached by spec hash."""
    tag = f"deep{depth}"
    d = os.path.join(SCRATCH, f"rows-{tag}-{_spec_hash(tag, 'MC_SemDeep.tla')}")
    if os.path.exists(os.path.join(d, "DONE")):
        st = json.load(open(os.path.join(d, "DONE")))
        rep.cov["states"] = rep.cov.get("states", 0) + st["distinct"]
        rep.cov["transitions"] = rep.cov.get("transitions", 0) + st["generated"]
        rep.cov.setdefault("tlc_runs", []).append({"label": f"MC_SemDeep depth {depth} (cached rows of this spec version)", **st})
        return d
    for old in glob.glob(os.path.join(SCRATCH, f"rows-{tag}-*")):
        shutil.rmtree(old, ignore_errors=True)
    os.makedirs(d, exist_ok=True)
    cfg = os.path.join(SCRATCH, f"mc_deep_{depth}_{os.getpid()}.cfg")
    with open(cfg, "w") as fh:
        fh.write(DEEP_CFG % {"depth": depth, "invs": "\n".join(f"INVARIANT {i}" for i in DEEP_INVARIANTS)})
    try:
        res = tlc.run_tlc("MC_SemDeep.tla", cfg, env={"ROW_DIR": d}, timeout=7200, heap="16g")
    finally:
        os.remove(cfg)
    rep.tlc(res, f"MC_SemDeep depth {depth}: design invariants + rows")
    if res.violated:
        shutil.rmtree(d, ignore_errors=True)
        rep.machinery(f"MC_SemDeep (depth {depth}) violates {res.violated} at hint index "
                      f"{[s_.get('hid') for a_, s_ in res.error_trace][-1:]}")
    with open(os.path.join(d, "DONE"), "w") as fh:
        json.dump({"distinct": res.distinct, "generated": res.generated, "wall_s": round(res.wall_s, 1)}, fh)
    return d


CAUSE_FILES = ("Semantics.tla", "MC_Semantics.tla", "Cause.tla", "MC_Cause.tla")
CAUSE_CFG = """SPECIFICATION CSpec
CONSTANTS
  Tier = "%(tier)s"
  L = %(L)d
  Emit = %(emit)s
  Mut = "%(mut)s"
INVARIANT Cause_Explains
%(invs)s
CHECK_DEADLOCK FALSE
"""
CAUSE_MUTANTS = ("cause_len_first", "cause_map_value_flag_from_key", "cause_quasi_first")


def _cause_hash(tier):
    h = hashlib.sha1()
    for f in CAUSE_FILES:
        h.update(open(os.path.join(tlc.SPEC_DIR, f), "rb").read())
    h.update(tier.encode())
    return h.hexdigest()[:16]


def _run_cause(tier, mut, emit_dir):
    p = tier_params(tier)
    os.makedirs(SCRATCH, exist_ok=True)
    cfg = os.path.join(SCRATCH, f"mc_cause_{tier}_{mut}_{os.getpid()}.cfg")
    invs = "INVARIANT Cause_NonVacuous\nINVARIANT CEmitObjs\nINVARIANT CEmitRows" if emit_dir else ""
    with open(cfg, "w") as fh:
        fh.write(CAUSE_CFG % {"tier": tier, "L": p["L"], "emit": "TRUE" if emit_dir else "FALSE", "mut": mut,
                              "invs": invs})
    try:
        return tlc.run_tlc("MC_Cause.tla", cfg, env={"ROW_DIR": emit_dir or "/nonexistent"}, timeout=7200, heap="16g")
    finally:
        os.remove(cfg)


def build_cause_rows(rep, tier):
    """MC_Cause: the explanation path (Cause.tla) on the MC_Semantics grammar plus hostile neighbours.
    TLC decides Cause_Explains (every rejection is explained, the finder never fails) and writes rows that
    carry, per object and draw, the outcome and path of the explanation; spec mutants must be rejected."""
    hsh = _cause_hash(tier)
    for m in CAUSE_MUTANTS:
        cache = os.path.join(SCRATCH, f"mutant-{m}-{hsh}.json")
        if os.path.exists(cache):
            st = json.load(open(cache))
            rep.cov.setdefault("spec_mutants", []).append({"mutant": m, "rejected_by": st["violated"], "cached": True})
        else:
            res = _run_cause("quick", m, None)
            if not res.violated:
                rep.machinery(f"spec mutant {m} of the explanation path is not rejected by Cause_Explains")
            json.dump({"violated": res.violated}, open(cache, "w"))
            rep.cov.setdefault("spec_mutants", []).append({"mutant": m, "rejected_by": res.violated})
        rep.add("spec_mutants_killed")
    d = os.path.join(SCRATCH, f"rows-cause-{tier}-{hsh}")
    if os.path.exists(os.path.join(d, "DONE")):
        st = json.load(open(os.path.join(d, "DONE")))
        rep.cov["states"] = rep.cov.get("states", 0) + st["distinct"]
        rep.cov["transitions"] = rep.cov.get("transitions", 0) + st["generated"]
        rep.cov.setdefault("tlc_runs", []).append({"label": "MC_Cause (cached rows of this spec version)", **st})
        return d
    for old in glob.glob(os.path.join(SCRATCH, f"rows-cause-{tier}-*")):
        shutil.rmtree(old, ignore_errors=True)
    os.makedirs(d, exist_ok=True)
    res = _run_cause(tier, "none", d)
    rep.tlc(res, f"MC_Cause {tier}: Cause_Explains + rows")
    if res.violated:
        shutil.rmtree(d, ignore_errors=True)
        rep.machinery(f"MC_Cause ({tier}) violates {res.violated}: the intended explanation path leaves a rejection "
                      f"unexplained at hint index {[s_.get('chid') for a_, s_ in res.error_trace][-1:]} - fix the model")
    with open(os.path.join(d, "DONE"), "w") as fh:
        json.dump({"distinct": res.distinct, "generated": res.generated, "wall_s": round(res.wall_s, 1)}, fh)
    return d


# the path of container steps named by a violation message ("... index 2 item ...", "key 'a' value ...")
_STEP = re.compile(r"index (\d+) item |\bkey (?:(?:(?! key | index \d+ item ).){1,300}? value )?|generic superclass ")
_LEAVES = (("notinst", " not instance of "), ("lit", " != "), ("vale", " violates validator "),
           ("notsub", " not subclass of "), ("len", " length "), ("nonempty", " non-empty"))


def message_path(msg):
    """Project a violation message onto the abstract path of Cause.tla (steps only; the leaf is searched)."""
    msg = _ANSI.sub("", msg)
    body = msg.split(" violates type hint ", 1)[-1]
    steps = []
    for m in _STEP.finditer(body):
        t = m.group(0)
        if t.startswith("index"):
            steps.append("idx" + m.group(1))
        elif t.startswith("generic"):
            steps.append("generic")
        elif t.rstrip().endswith("value"):
            steps.append("val")
        else:
            steps.append("key")
    return steps, body


def cause_agrees(model, msg):
    """``model`` = "found:idx0/key/notinst".  The model's steps must be a prefix of the message's steps (equal
    unless the model ends in a union, whose members are explained one per bullet) and the leaf must be named."""
    kind, _, path = model.partition(":")
    if kind != "found":
        return False
    mp_ = [p for p in path.split("/") if p]
    leaf = mp_[-1] if mp_ else ""
    msteps = mp_[:-1]
    steps, body = message_path(msg)
    if steps[:len(msteps)] != msteps:
        return False
    if leaf == "union":
        return True
    if len(steps) != len(msteps):
        return False
    if leaf.startswith("vale"):
        return " violates validator " in body
    for name, needle in _LEAVES:
        if leaf == name:
            return needle in body
    return True


def signal_table(rep):
    """Run TLC on Signal.tla (option lattice -> signal) and return {(vt, vk, kind): signal} for rejections."""
    from verifkit.util import scratch
    with scratch("sig-") as d:
        res = tlc.run_tlc("Signal.tla", "Signal.cfg", env={"ROW_DIR": d})
        rep.tlc(res, "Signal.tla: violation option lattice")
        if res.violated:
            rep.machinery(f"Signal.tla violates {res.violated}")
        tab = {}
        for f in glob.glob(os.path.join(d, "signal_*.json")):
            r = json.load(open(f))
            if not r["acc"]:
                tab[(r["vt"], r["vk"], r["kind"])] = r["sig"]
    if len(tab) != 27:
        rep.machinery(f"Signal.tla emitted {len(tab)} rejection rows, expected 27")
    return tab


def run_mutants(rep, tier="quick", muts=("union_first_only", "seq_len_minus_1"), module="MC_Semantics.tla",
                invariants=None):
    """Spec mutants of the generated check must be rejected by the design invariants."""
    os.makedirs(SCRATCH, exist_ok=True)
    for m in muts:
        cache = os.path.join(SCRATCH, f"mutant-{m}-{_spec_hash(tier, module)}.json")
        if os.path.exists(cache):
            st = json.load(open(cache))
            rep.add("spec_mutants_killed")
            rep.cov.setdefault("spec_mutants", []).append({"mutant": m, "rejected_by": st["violated"], "cached": True})
            continue
        res = run_model(rep, tier, mut=m, invariants=invariants or INVARIANTS, module=module)
        if res.violated:
            json.dump({"violated": res.violated}, open(cache, "w"))
        if not res.violated:
            rep.machinery(f"spec mutant {m} is not rejected by any invariant: vacuous model")
        rep.add("spec_mutants_killed")
        rep.cov.setdefault("spec_mutants", []).append({"mutant": m, "rejected_by": res.violated})


# ----------------------------------------------------------------------------- replay
_ANSI = re.compile(r"\x1b\[[0-9;]*m")


class _Ctx:
    pass


def _worker(args):
    rows_dir, hids, opts = args
    warnings.simplefilter("ignore")
    objs_doc = json.load(open(os.path.join(rows_dir, "objs.json")))
    objs, confs, lcm = objs_doc["objs"], objs_doc["confs"], objs_doc["lcm"]
    w = World()
    prep = _prep_objs(w, objs)
    if "fatal" in prep:
        return prep
    real, jmap = prep["real"], prep["jmap"]
    out = {"issues": [], "n_calls": 0, "n_pairs": 0, "nontrivial": set(), "drift": 0, "drift_ex": [],
           "samples": [], "draw_calls_max": 0, "counts": {}}
    for hid in hids:
        for f in sorted(glob.glob(os.path.join(rows_dir, f"row_{hid}_*.json"))):
            row = json.load(open(f))
            if "objs" in row:                      # rows that carry their own (hint-derived) objects
                p2 = _prep_objs(w, row["objs"], strict=False)
                _replay_row(w, row, row["objs"], p2["real"], p2["jmap"], confs, lcm, opts, out)
                out["skipped_objs"] = out.get("skipped_objs", 0) + p2["skipped"]
            else:
                _replay_row(w, row, objs, real, jmap, confs, lcm, opts, out)
    out["nontrivial"] = sorted(out["nontrivial"])
    return out


def _prep_objs(w, objs, strict=True):
    """Build the real objects; map each to the row entry whose abstract iteration order equals the real one."""
    index = {okey(o): j for j, o in enumerate(objs)}
    real = [None] * len(objs)
    jmap = list(range(len(objs)))
    skipped = 0
    for j, o in enumerate(objs):
        if o["k"] != "iter":
            real[j] = w.obj(o)
        ks = okey(o)
        if '"set"' in ks or "frozenset" in ks:
            po = w.project_order(o, None)
            jm = index.get(okey(po))
            if jm is None:
                if strict:
                    return {"fatal": f"projection of object {j} not in the universe: {okey(po)[:200]}"}
                jm = -1
                skipped += 1
            jmap[j] = jm
    return {"real": real, "jmap": jmap, "skipped": skipped}


def _issue(out, prop, kind, row, j, objs, detail, extra=None):
    key = (prop, kind, row["hid"], row["conf"])
    c = out["counts"].get(key, 0)
    out["counts"][key] = c + 1
    if c >= 2:
        return
    out["issues"].append({"prop": prop, "kind": kind, "hint": short_hint(row["h"]), "habs": row["h"],
                          "conf": row["conf"], "obj": short_obj(objs[j]) if j is not None else None,
                          "oabs": objs[j] if j is not None else None, "detail": detail, **(extra or {})})


def _fresh(w, objs, real, j):
    return real[j] if real[j] is not None else w.obj(objs[j])


def _replay_row(w, row, objs, real, jmap, confs, lcm, opts, out):
    from beartype.door import TypeHint, die_if_unbearable, is_bearable
    from beartype import beartype as deco
    from beartype.roar import (BeartypeCallHintParamViolation, BeartypeCallHintReturnViolation,
                               BeartypeDoorHintViolation)
    h, ci = row["h"], row["conf"]
    cabs = confs[ci - 1]
    conf = real_conf(w, cabs)
    code, chk, idx = row["code"], row["chk"], row["idx"]
    if -1 in jmap:                # objects whose real iteration order has no row entry: neutral codes
        code, chk, idx = code + [8], chk + [0], idx + [0]
        chk = list(chk)
    n = len(objs)
    draws = range(lcm)
    nsp = opts.get("spellings", 2)
    seed = opts.get("seed", 0)
    spellings = [0] + [1 + ((row["hid"] + seed + k) % 5) for k in range(nsp - 1)]
    props = opts["props"]
    for spi, sp in enumerate(spellings):
        try:
            hint = w.hint(h, sp)
        except TypeError as ex:
            continue        # spelling not expressible in this Python (e.g. X | TypeVar): skip the spelling
        try:
            is_bearable(0, hint, conf=conf)
        except Exception as ex:   # noqa
            _issue(out, "C11", "hint_rejected", row, None, objs,
                   f"supported hint {hint!r} (spelling {sp}) raises {type(ex).__name__}: {str(ex)[:200]}")
            continue
        try:
            th = TypeHint(hint)
        except Exception as ex:      # noqa  (hints the DOOR API documents as unsupported, e.g. PEP 695 aliases)
            from beartype.roar import BeartypeDoorException
            if not isinstance(ex, BeartypeDoorException):
                raise
            th = None
        verd = [None] * n               # bitmask of accepting residues, from is_bearable
        for j in range(n):
            x = _fresh(w, objs, real, j)
            m = 0
            for r in draws:
                DRAW.value = r
                if is_bearable(x, hint, conf=conf):
                    m |= 1 << r
            verd[j] = m
        out["n_calls"] += n * lcm
        out["n_pairs"] += n
        full = (1 << lcm) - 1
        # ---- property verdicts from the declarative operators ---------------------------------
        rejects, accepts = [], []
        for j in range(n):
            jm = jmap[j]
            cd, m = code[jm], verd[j]
            if m:
                accepts.append(j)
            if m != full:
                rejects.append(j)
            if (cd & 1) and m != full and "C01" in props:
                _issue(out, "C01", "false_alarm", row, j, objs,
                       f"is_bearable rejects a conforming object for draw residues "
                       f"{[r for r in draws if not m >> r & 1]} (spelling {hint!r})", {"sp": sp})
            if "C02" in props:
                if (cd & 4) and m:
                    _issue(out, "C02", "must_reject_accepted", row, j, objs,
                           f"object whose violation no sampling can hide is accepted for draw residues "
                           f"{[r for r in draws if m >> r & 1]} (spelling {hint!r})", {"sp": sp})
                if m and not (cd & 8):
                    _issue(out, "C02", "accepted_not_weak", row, j, objs,
                           f"accepted object has no item consistent with the hint at some level (spelling {hint!r})",
                           {"sp": sp})
                ii = idx[jm]
                if ii & 128:
                    bad = [i for i in range(6) if ii >> i & 1]
                    if cabs["rnd"]:
                        if bad and m == full:
                            _issue(out, "C02", "index_unreachable", row, j, objs,
                                   f"items {bad} violate the item hint but no draw rejects the sequence "
                                   f"(spelling {hint!r})", {"sp": sp})
                    else:
                        if m not in (0, full):
                            _issue(out, "C02", "nonrandom_draw_dependent", row, j, objs,
                                   f"is_random=False but the verdict depends on the draw (spelling {hint!r})",
                                   {"sp": sp})
                        if (ii & 1) and m:
                            _issue(out, "C02", "nonrandom_not_first", row, j, objs,
                                   f"is_random=False: item 0 violates but the sequence is accepted "
                                   f"(spelling {hint!r})", {"sp": sp})
            if jm != -1 and m != chk[jm]:
                out["drift"] += 1
                if len(out["drift_ex"]) < 5:
                    out["drift_ex"].append(f"{short_hint(h)} conf{ci} {short_obj(objs[j])}: real accept-mask "
                                           f"{m:b} spec Chk {chk[jm]:b}")
            if m and (cd & 1) and objs[j]["k"] in ("cont", "map") and objs[j]["items"]:
                out["nontrivial"].add(f"{row['hid']}:{objs[j]['cls']}:{len(objs[j]['items'])}")
        if spi == 0 and len(out["samples"]) < 2 and accepts:
            j = accepts[len(accepts) // 2]
            out["samples"].append({"hint": short_hint(h), "real_hint": repr(hint)[:120], "conf": cabs,
                                   "object": short_obj(objs[j]), "accept_mask": verd[j], "spec_code": code[jmap[j]],
                                   "spec_chk_mask": chk[jmap[j]]})
        # ---- C12: is_valid, generated code and boolean meaning coincide -----------------------------
        if "C12" in props and spi == 0:
            _vale_checks(w, row, hint, objs, real, jmap, verd, full, code, out)
        # ---- C18: the configuration rewrite equals rewriting the hint by hand ------------------------
        if "C18" in props and ci in (3, 4, 5) and spi == 0:
            from beartype import BeartypeConf
            try:
                hint_pub = w.hint(row["pub"], 0)
                conf0 = BeartypeConf()
                for j in range(n):
                    x = _fresh(w, objs, real, j)
                    m2 = 0
                    for r in draws:
                        DRAW.value = r
                        if is_bearable(x, hint_pub, conf=conf0):
                            m2 |= 1 << r
                    out["n_calls"] += lcm
                    if m2 != verd[j]:
                        _issue(out, "C18", "rewrite_differs", row, j, objs,
                               f"verdict under the configuration (accept-mask {verd[j]:b}) differs from the verdict of "
                               f"the hand-rewritten hint {hint_pub!r} under the default configuration ({m2:b})")
                    if (code[jmap[j]] & 1) and verd[j] != full:
                        _issue(out, "C18", "rewritten_meaning_rejected", row, j, objs,
                               "object conforming to the rewritten hint is rejected under the configuration")
                    if (code[jmap[j]] & 4) and verd[j]:
                        _issue(out, "C18", "rewritten_meaning_accepted", row, j, objs,
                               "object that the rewritten hint must reject is accepted under the configuration")
            except TypeError:
                pass
        # ---- stretching: the same verdict classes for long containers -------------------------------
        if opts.get("stretch") and spi == 0 and h["k"] in ("seq", "quasi") and ci in (1, 2):
            _stretch(w, row, hint, conf, cabs, objs, real, jmap, idx, code, props, out, opts)
        # ---- the other entry points --------------------------------------------------------------
        if opts.get("entry_points"):
            try:
                @deco(conf=conf)
                def f_param(a: hint):
                    return a

                @deco(conf=conf)
                def f_ret(a) -> hint:
                    return a

                # the same hint at every kind of parameter next to parameters the hint says nothing about: the
                # subject is passed positionally, variadically, by keyword-only name and as an extra keyword
                @deco(conf=conf)
                def f_multi(p0: object, a: hint, *va: hint, k: hint, o: object = None, **kw: hint):
                    return a
            except Exception as ex:  # noqa
                _issue(out, "C11", "decor_rejected", row, None, objs,
                       f"@beartype rejects supported hint {hint!r}: {type(ex).__name__}: {str(ex)[:200]}")
                continue
            cap = opts.get("reject_cap", 12)
            rej_sample = rejects[:: max(1, len(rejects) // cap)][:cap] if (rejects and cap) else []
            todo = [(j, True) for j in accepts] + [(j, False) for j in rej_sample]
            for j, _ in todo:
                x = _fresh(w, objs, real, j)
                for r in draws:
                    want = bool(verd[j] >> r & 1)
                    big = (row["hid"] + j + r) % 3
                    for name in ("die", "th_is", "th_die", "param", "ret", "multi"):
                        if th is None and name in ("th_is", "th_die"):
                            continue
                        if name == "multi" and objs[j]["k"] == "iter" and objs[j]["cls"] != "gen":
                            continue
                        set_draw(r, lcm, big)
                        DRAW.calls = 0
                        x2 = _fresh(w, objs, real, j) if objs[j]["k"] == "iter" else x
                        got, exc, res = True, None, None
                        try:
                            if name == "die":
                                die_if_unbearable(x2, hint, conf=conf)
                            elif name == "th_is":
                                got = th.is_bearable(x2, conf=conf)
                            elif name == "th_die":
                                th.die_if_unbearable(x2, conf=conf)
                            elif name == "param":
                                res = f_param(x2)
                            elif name == "multi":
                                res = f_multi(0, x2, x2, k=x2, o=0, z=x2)
                            else:
                                res = f_ret(x2)
                        except Exception as ex:   # noqa
                            got, exc = False, ex
                        out["n_calls"] += 1
                        if DRAW.calls > out["draw_calls_max"]:
                            out["draw_calls_max"] = DRAW.calls
                        if DRAW.calls > 1 and "C02" in props and name != "multi":
                            _issue(out, "C02", "many_draws", row, j, objs, f"{name}: {DRAW.calls} sampler draws in one check")
                        if got != want:
                            if want and (code[jmap[j]] & 1) and "C01" in props:
                                _issue(out, "C01", "false_alarm_" + name, row, j, objs,
                                       f"{name} rejects a conforming object (draw residue {r}, is_bearable accepts): "
                                       f"{type(exc).__name__ if exc else got}: {_ANSI.sub('', str(exc))[:160]}",
                                       {"sp": sp})
                            if "C03" in props:
                                _issue(out, "C03", "entry_points_disagree", row, j, objs,
                                       f"is_bearable says {want} but {name} says {got} for the same draw residue {r} "
                                       f"({type(exc).__name__ if exc else ''}: {_ANSI.sub('', str(exc))[:160]})",
                                       {"sp": sp, "entry": name})
                            continue
                        if "C03" not in props:
                            continue
                        if got and name in ("param", "ret", "multi") and res is not x2:
                            _issue(out, "C03", "value_changed", row, j, objs, f"{name}: returned object is not the argument")
                        if not got and name != "th_is":
                            wantcls = {"die": BeartypeDoorHintViolation, "th_die": BeartypeDoorHintViolation,
                                       "param": BeartypeCallHintParamViolation,
                                       "multi": BeartypeCallHintParamViolation,
                                       "ret": BeartypeCallHintReturnViolation}[name]
                            if type(exc) is not wantcls:
                                _issue(out, "C03", "wrong_violation_class", row, j, objs,
                                       f"{name}: rejection surfaces as {type(exc).__name__} "
                                       f"({_ANSI.sub('', str(exc))[:200]}), expected {wantcls.__name__}",
                                       {"sp": sp, "entry": name, "exc": type(exc).__name__})
                            else:
                                cul = getattr(exc, "culprits", ())
                                # the object itself, or (objects that cannot be weakly referenced) its repr()
                                # as beartype's represent_object() renders it (quoted, truncated)
                                okc = bool(cul) and (cul[0] is x2 or
                                                     (isinstance(cul[0], str) and repr(x2)[:30] in cul[0]))
                                if not okc:
                                    _issue(out, "C03", "culprit", row, j, objs,
                                           f"{name}: culprits {cul!r:.120} do not begin with the rejected object")
                                if "cz" in row and name == "die" and jmap[j] != -1:
                                    mdl = row["cz"][jmap[j]][r]
                                    out["cause_n"] = out.get("cause_n", 0) + 1
                                    if not mdl.startswith("found:"):
                                        # the model of the explanation path says this rejection is NOT explained
                                        # while the implementation explains it: the model is not the code's
                                        out["cause_drift"] = out.get("cause_drift", 0) + 1
                                        if len(out["drift_ex"]) < 5:
                                            out["drift_ex"].append(f"{short_hint(h)} {short_obj(objs[j])} draw {r}: model "
                                                                   f"{mdl}, real: {_ANSI.sub('', str(exc))[:160]}")
                                    elif cause_agrees(mdl, str(exc)):
                                        out["cause_ok"] = out.get("cause_ok", 0) + 1
                                    else:
                                        out["cause_drift"] = out.get("cause_drift", 0) + 1
                                        if len(out["drift_ex"]) < 5:
                                            out["drift_ex"].append(f"{short_hint(h)} {short_obj(objs[j])} draw {r}: model "
                                                                   f"path {mdl}, real: {_ANSI.sub('', str(exc))[:200]}")
            out["n_pairs"] += len(todo)
            if opts.get("viol_confs") and spi == 0 and (row["hid"] + seed) % opts["viol_confs"] == 0:
                _viol_confs(w, row, hint, cabs, objs, real, jmap, verd, todo, lcm, props, out, opts["signal_table"], seed)


_SEQ_CTORS = None


def _stretch(w, row, hint, conf, cabs, objs, real, jmap, idx, code, props, out, opts):
    """Long sequences built from spec-classified items: all good / all bad / one bad index."""
    import collections
    from beartype.door import is_bearable
    ctors = {"list": list, "tuple": tuple, "deque": collections.deque, "USeq": w.USeq}
    done = 0
    for j, o in enumerate(objs):
        if done >= opts.get("stretch_per_row", 3):
            break
        ii = idx[jmap[j]]
        if not (ii & 128) or o["k"] != "cont" or o["cls"] not in ctors or len(o["items"]) < 2:
            continue
        bad = [i for i in range(len(o["items"])) if ii >> i & 1]
        if not (ii & 64) or not bad or 0 in bad:
            continue
        items = list(real[j])
        good, badv = items[0], items[bad[0]]
        ctor = ctors[o["cls"]]
        done += 1
        for n in opts.get("stretch_sizes", (10, 1000)):
            # all good / all bad
            xs_good, xs_bad = ctor([good] * n), ctor([badv] * n)
            for r in (0, 1, n - 1, n, 2 * n + 3, (1 << 32) - 1):
                DRAW.value = r
                out["n_calls"] += 2
                if not is_bearable(xs_good, hint, conf=conf) and "C01" in props:
                    _issue(out, "C01", "false_alarm_stretched", row, j, objs,
                           f"sequence of {n} copies of a conforming item rejected for draw {r}")
                if is_bearable(xs_bad, hint, conf=conf) and "C02" in props:
                    _issue(out, "C02", "must_reject_accepted_stretched", row, j, objs,
                           f"sequence of {n} copies of a violating item accepted for draw {r}")
            if "C02" not in props:
                continue
            for p in (0, 1, n // 2, n - 1):
                lst = [good] * n
                lst[p] = badv
                xs = ctor(lst)
                rej = []
                for r in range(n):
                    DRAW.value = r
                    if not is_bearable(xs, hint, conf=conf):
                        rej.append(r)
                out["n_calls"] += n
                out["nontrivial"].add(f"stretch:{row['hid']}:{o['cls']}:{n}:{p}")
                if cabs["rnd"]:
                    if not rej:
                        _issue(out, "C02", "index_unreachable_stretched", row, j, objs,
                               f"only item {p} of {n} violates but none of the {n} draw residues rejects")
                    elif rej != [p]:
                        out["drift"] += 1
                else:
                    if p == 0 and len(rej) != n:
                        _issue(out, "C02", "nonrandom_not_first_stretched", row, j, objs,
                               f"is_random=False: item 0 of {n} violates but residues {sorted(set(range(n)) - set(rej))[:5]} accept")
                    elif 0 < len(rej) < n:
                        _issue(out, "C02", "nonrandom_draw_dependent_stretched", row, j, objs,
                               f"is_random=False: verdict depends on the draw (item {p} of {n} violates)")


def _viol_confs(w, row, hint, cabs, objs, real, jmap, verd, todo, lcm, props, out, opts_sig=None, seed=0):
    """violation_type family: only the class of the signal changes, never the verdict (C03 / C18)."""
    import warnings as W
    from beartype import BeartypeConf, BeartypeViolationVerbosity as VV, beartype as deco
    from beartype.door import TypeHint, die_if_unbearable, is_bearable
    from beartype.roar import (BeartypeCallHintParamViolation, BeartypeCallHintReturnViolation,
                               BeartypeDoorHintViolation)
    n = w.n
    ExcT = type(f"ExcT_{n}", (Exception,), {})
    ExcD = type(f"ExcD_{n}", (Exception,), {})
    ExcP = type(f"ExcP_{n}", (Exception,), {})
    ExcR = type(f"ExcR_{n}", (Exception,), {})
    WarnT = type(f"WarnT_{n}", (UserWarning,), {})
    dflt = {"die": BeartypeDoorHintViolation, "th_die": BeartypeDoorHintViolation,
            "param": BeartypeCallHintParamViolation, "ret": BeartypeCallHintReturnViolation}
    # expected signal per (violation_type, per-kind option, kind): computed by TLC from Signal.tla
    sig = opts_sig
    ExcK = {k: type(f"ExcK_{k}_{n}", (Exception,), {}) for k in ("door", "param", "return")}
    WarnK = {k: type(f"WarnK_{k}_{n}", (UserWarning,), {}) for k in ("door", "param", "return")}
    optname = {"door": "violation_door_type", "param": "violation_param_type", "return": "violation_return_type"}
    kind_of = {"die": "door", "th_die": "door", "param": "param", "ret": "return"}
    rnd = __import__("random").Random(row["hid"] * 7919 + seed)
    combos = [(vt, {k: rnd.choice(["unset", "excK", "warnK"]) for k in optname}) for vt in ("unset", "excT", "warnT")]
    combos += [("excT", {k: "unset" for k in optname}), ("warnT", {k: "unset" for k in optname})]
    variants = []
    for vt, vks in combos:
        extra = {}
        if vt != "unset":
            extra["violation_type"] = ExcT if vt == "excT" else WarnT
        for k, v in vks.items():
            if v != "unset":
                extra[optname[k]] = ExcK[k] if v == "excK" else WarnK[k]
        want = {}
        for name, k in kind_of.items():
            sg = sig[(vt, vks[k], k)]
            c = sg["cls"]
            rcls = {"excT": ExcT, "warnT": WarnT, "excK": ExcK[k], "warnK": WarnK[k]}.get(c) or dflt[name]
            want[name] = (rcls, sg["act"] == "warn")
        variants.append((f"violation_type={vt}, per-kind={vks}", extra, want))
    variants.append(("verbosity MINIMAL, no colour", {"violation_verbosity": VV.MINIMAL, "is_color": False},
                     {k: (v, False) for k, v in dflt.items()}))
    variants.append(("verbosity MAXIMAL, colour", {"violation_verbosity": VV.MAXIMAL, "is_color": True},
                     {k: (v, False) for k, v in dflt.items()}))
    for label, extra, wantcls2 in variants:
        conf = real_conf(w, cabs, extra)
        th = TypeHint(hint)

        @deco(conf=conf)
        def f_param(a: hint):
            return a

        @deco(conf=conf)
        def f_ret(a) -> hint:
            return a
        for j, _ in todo:
            x = _fresh(w, objs, real, j)
            for r in range(lcm):
                want = bool(verd[j] >> r & 1)
                DRAW.value = r
                x2 = _fresh(w, objs, real, j) if objs[j]["k"] == "iter" else x
                got0 = is_bearable(x2, hint, conf=conf)
                out["n_calls"] += 1
                if got0 != want:
                    for pr in ("C03", "C18"):
                        if pr in props:
                            _issue(out, pr, "verdict_changes_with_violation_options", row, j, objs,
                                   f"{label}: is_bearable says {got0}, default configuration says {want} (draw {r})")
                    continue
                if "C03" not in props:
                    continue
                for name in ("die", "th_die", "param", "ret"):
                    DRAW.value = r
                    x2 = _fresh(w, objs, real, j) if objs[j]["k"] == "iter" else x
                    exc, res = None, None
                    with W.catch_warnings(record=True) as ws:
                        W.simplefilter("always")
                        try:
                            if name == "die":
                                res = die_if_unbearable(x2, hint, conf=conf)
                            elif name == "th_die":
                                res = th.die_if_unbearable(x2, conf=conf)
                            elif name == "param":
                                res = f_param(x2)
                            elif name == "multi":
                                res = f_multi(0, x2, x2, k=x2, o=0, z=x2)
                            else:
                                res = f_ret(x2)
                        except Exception as ex:   # noqa
                            exc = ex
                    out["n_calls"] += 1
                    if want:
                        if exc is not None or ws:
                            _issue(out, "C03", "signal_on_accept", row, j, objs,
                                   f"{label}/{name}: accepted object but {type(exc).__name__ if exc else ''} "
                                   f"{[x_.category.__name__ for x_ in ws]} surfaced")
                        continue
                    wc, is_warn = wantcls2[name]
                    if is_warn:
                        cats = [x_.category for x_ in ws]
                        if exc is not None or cats != [wc]:
                            _issue(out, "C03", "warning_conf", row, j, objs,
                                   f"{label}/{name}: expected exactly one {wc.__name__} warning and the call to proceed; got "
                                   f"exception {type(exc).__name__ if exc else None}, warnings {[c.__name__ for c in cats]}")
                        elif name in ("param", "ret") and res is not x2:
                            _issue(out, "C03", "warning_conf_value", row, j, objs,
                                   f"{label}/{name}: the call proceeded but returned {res!r:.60} instead of its argument")
                        elif _ANSI.sub("", str(ws[0].message)).find(repr(hint)) < 0:
                            _issue(out, "C03", "message_hint", row, j, objs,
                                   f"{label}/{name}: warning message does not name the hint {hint!r}")
                    else:
                        if type(exc) is not wc:
                            _issue(out, "C03", "wrong_violation_class", row, j, objs,
                                   f"{label}/{name}: rejection surfaces as {type(exc).__name__ if exc else None}, "
                                   f"configured {wc.__name__}", {"entry": name, "exc": type(exc).__name__})
                        else:
                            msg = _ANSI.sub("", str(exc))
                            if repr(hint) not in msg:
                                _issue(out, "C03", "message_hint", row, j, objs,
                                       f"{label}/{name}: message does not name the hint {hint!r}: {msg[:160]}")
                            if extra.get("is_color") is False and "\x1b[" in str(exc):
                                _issue(out, "C03", "colour", row, j, objs, f"{label}/{name}: is_color=False but ANSI in message")


_DIAG = re.compile(r"^\s*~?\s*(True|False) ==\s+(.*?)\s*$")


def _vale_checks(w, row, hint, objs, real, jmap, verd, full, code, out):
    from beartype.door import die_if_unbearable
    h = row["h"]
    n = len(objs)
    if h["k"] == "ann":
        vals = row.get("val")
        leaves = []
        reals = [w.validator(v, leaves) for v in h["m"]]
        exact = h["a"][0]["k"] in ("any", "cls")
        for j in range(n):
            x = real[j]
            jm = jmap[j]
            for i, rv in enumerate(reals):
                want = bool(vals[jm] >> i & 1)
                try:
                    got = rv.is_valid(x)
                except Exception as ex:   # noqa
                    got = f"{type(ex).__name__}: {ex}"[:100]
                out["n_calls"] += 1
                if got is not want:
                    _issue(out, "C12", "is_valid", row, j, objs,
                           f"validator {i} .is_valid() says {got}, boolean meaning (ValSem) says {want}")
            if exact and (verd[j] == full) != bool(code[jm] & 1):
                _issue(out, "C12", "code_vs_meaning", row, j, objs,
                       f"checking accepts={verd[j] == full} but T and all validators hold={bool(code[jm] & 1)}")
        # the verdict reported in the violation message
        shown = 0
        for j in range(n):
            if verd[j] or shown >= 6:
                continue
            x = real[j]
            if not all(bool(vals[jmap[j]] >> i & 1) is False for i in range(1)) and len(reals) == 1:
                continue
            try:
                die_if_unbearable(x, hint)
                continue
            except Exception as ex:   # noqa
                msg = _ANSI.sub("", str(ex))
            out["n_calls"] += 1
            if "violates validator" not in msg:
                continue
            shown += 1
            lines = msg.split("violates validator", 1)[1].splitlines()
            marks = [(m.group(1) == "True", m.group(2)) for m in map(_DIAG.match, lines) if m]
            if not marks:
                continue
            if marks[0][0] is not False:
                _issue(out, "C12", "diagnosis_root", row, j, objs,
                       "violation message reports the violated validator as True")
            byrepr = dict(leaves)
            for val, text in marks:
                t = text.rstrip(" &|.)").strip()
                rv = byrepr.get(t)
                if rv is None:
                    continue
                # a leaf nested in IsAttr is evaluated on the attribute, not on x: only top-level leaves here
                try:
                    want = rv.is_valid(x)
                except Exception:   # noqa
                    continue
                if val is not want:
                    _issue(out, "C12", "diagnosis_leaf", row, j, objs,
                           f"violation message reports {t} as {val} but is_valid says {want}")


def replay(rep, rows_dir, opts, procs=16):
    files = glob.glob(os.path.join(rows_dir, "row_*.json"))
    hids = sorted({int(os.path.basename(f).split("_")[1]) for f in files})
    frac = opts.get("hint_fraction", 1.0)
    if frac < 1.0:
        import random
        rnd = random.Random(opts.get("seed", 0))
        hids = sorted(rnd.sample(hids, max(1, int(len(hids) * frac))))
    chunks = [hids[i::procs * 4] for i in range(procs * 4)]
    chunks = [c for c in chunks if c]
    with mp.get_context("fork").Pool(procs) as pool:
        results = pool.map(_worker, [(rows_dir, c, opts) for c in chunks], chunksize=1)
    tot = {"issues": [], "n_calls": 0, "n_pairs": 0, "nontrivial": set(), "drift": 0, "drift_ex": [], "samples": [],
           "draw_calls_max": 0, "hints": len(hids), "rows": len(files)}
    for r in results:
        if "fatal" in r:
            rep.machinery(r["fatal"])
        tot["issues"] += r["issues"]
        tot["n_calls"] += r["n_calls"]
        tot["n_pairs"] += r["n_pairs"]
        tot["nontrivial"].update(r["nontrivial"])
        tot["drift"] += r["drift"]
        tot["drift_ex"] += r["drift_ex"]
        tot["samples"] += r["samples"]
        tot["draw_calls_max"] = max(tot["draw_calls_max"], r["draw_calls_max"])
        for k in ("cause_n", "cause_ok", "cause_drift"):
            tot[k] = tot.get(k, 0) + r.get(k, 0)
    return tot
