"""Binding of Semantics.tla to the real beartype: concretiser, projection, replay engine.

IMPORTANT: importing this module replaces ``random.getrandbits`` *before* beartype is
imported (beartype does ``from random import getrandbits``), so that the one draw of a
check is chosen by the harness (DESIGN.md §3.4).
"""
from __future__ import annotations

import collections
import collections.abc as cabc
import itertools
import json
import random as _random
import sys
import typing

# ----------------------------------------------------------------------------- the draw
class _Draw:
    value = 0
    calls = 0


def _getrandbits(k):            # noqa
    _Draw.calls += 1
    return _Draw.value & ((1 << k) - 1)


if "beartype" in sys.modules and getattr(_random.getrandbits, "__name__", "") != "_getrandbits":
    raise ImportError("verifkit.bind.sem must be imported before beartype (sampler control)")
_random.getrandbits = _getrandbits

import beartype                                               # noqa: E402
from beartype import BeartypeConf, beartype as bt_decorator   # noqa: E402
from beartype.door import TypeHint, die_if_unbearable, is_bearable   # noqa: E402
from beartype.roar import (BeartypeCallHintParamViolation, BeartypeCallHintReturnViolation,   # noqa: E402
                           BeartypeDoorHintViolation)

DRAW = _Draw
_uid = itertools.count()


def set_draw(r: int, lcm: int, big: int = 0):
    """Residue r, optionally lifted to a large representative (same residue mod lcm)."""
    if big == 0:
        v = r
    elif big == 1:
        v = r + lcm * 1234567
    else:
        top = (1 << 32) - 1
        v = top - ((top - r) % lcm)
    _Draw.value = v


# ----------------------------------------------------------------------------- world
class World:
    """Real classes standing for the abstract classes of the universe (unique names)."""

    def __init__(self):
        n = next(_uid)
        self.n = n
        self.A = type(f"A_{n}", (), {})          # no __slots__: the classes themselves must not have x / y
        self.B = type(f"B_{n}", (self.A,), {})
        self.oa = self.A()
        self.ob = self.B()
        self.oa.x = 1                 # Semantics.tla: oa.x = 1, oa.y = "a", ob.x = "a", ob.y = oa
        self.oa.y = "a"
        self.ob.x = "a"
        self.ob.y = self.oa

        class USeq(cabc.Sequence):
            __slots__ = ("_it",)

            def __init__(self, it):
                self._it = tuple(it)

            def __getitem__(self, i):
                return self._it[i]

            def __len__(self):
                return len(self._it)

        class UColl(cabc.Collection):
            __slots__ = ("_it",)

            def __init__(self, it):
                self._it = tuple(it)

            def __iter__(self):
                return iter(self._it)

            def __len__(self):
                return len(self._it)

            def __contains__(self, x):
                return x in self._it

        class UMap(cabc.Mapping):
            __slots__ = ("_d",)

            def __init__(self, pairs):
                self._d = dict(pairs)

            def __getitem__(self, k):
                return self._d[k]

            def __iter__(self):
                return iter(self._d)

            def __len__(self):
                return len(self._d)

        class UIter:
            __slots__ = ("_it",)

            def __init__(self, it):
                self._it = tuple(it)

            def __iter__(self):
                return iter(self._it)

        _T = typing.TypeVar(f"TG_{n}")

        class GL(typing.List[_T]):             # user generic with an unerased pseudo-superclass list[T]
            pass

        class G(typing.Generic[_T]):           # plain user generic
            pass

        class GN(GL[str], typing.Generic[_T]):  # re-binds the SAME TypeVar: GN[int] still holds strs
            pass

        @typing.runtime_checkable
        class HasM(typing.Protocol):
            def m(self): ...

        class PM:                              # structurally implements HasM
            def m(self):
                return 1

        self.GN = GN
        GN.__name__ = GN.__qualname__ = f"GN_{n}"
        for c in (GL, G, HasM, PM):
            c.__name__ = c.__qualname__ = f"{c.__name__}_{n}"
        self.GL, self.G, self.HasM, self.PM = GL, G, HasM, PM
        self.pm, self.og = PM(), G()
        for c in (USeq, UColl, UMap, UIter):
            c.__name__ = c.__qualname__ = f"{c.__name__}_{n}"
        self.USeq, self.UColl, self.UMap, self.UIter = USeq, UColl, UMap, UIter
        self.classes = {"int": int, "bool": bool, "str": str, "float": float, "complex": complex,
                        "NoneType": type(None), "A": self.A, "B": self.B, "list": list, "dict": dict,
                        "object": object, "tuple": tuple, "HasM": self.HasM, "PM": self.PM, "G": self.G,
                        "GL": self.GL, "GN": self.GN}
        self._tv = 0

    # ------------------------------------------------------------------ objects
    def atom(self, o):
        c, v = o["cls"], o["v"]
        if c == "int":
            return int(v)
        if c == "bool":
            return bool(v)
        if c == "float":
            return {1: 1.0, 25: 2.5}[v]
        if c == "complex":
            return complex(0, v)
        if c == "str":
            return {101: "a", 102: "b"}[v]
        if c == "NoneType":
            return None
        if c == "A":
            return self.oa
        if c == "B":
            return self.ob
        if c == "PM":
            return self.pm
        if c == "G":
            return self.og
        raise KeyError(c)

    def obj(self, o):
        k = o["k"]
        if k == "atom":
            return self.atom(o)
        if k == "type":
            return self.classes[o["cls"]]
        c = o["cls"]
        if k == "map":
            pairs = [(self.obj(p["key"]), self.obj(p["val"])) for p in o["items"]]
            if c == "dict":
                return dict(pairs)
            if c == "defaultdict":
                d = collections.defaultdict(_never)
                d.update(pairs)
                return d
            if c == "OrderedDict":
                return collections.OrderedDict(pairs)
            if c == "Counter":
                d = collections.Counter()
                for a, b in pairs:
                    dict.__setitem__(d, a, b)
                return d
            if c == "UMap":
                return self.UMap(pairs)
            raise KeyError(c)
        items = [self.obj(i) for i in o["items"]]
        if c == "list":
            return items
        if c == "tuple":
            return tuple(items)
        if c == "deque":
            return collections.deque(items)
        if c == "GL":
            return self.GL(items)
        if c == "GN":
            return self.GN(items)
        if c == "USeq":
            return self.USeq(items)
        if c == "UColl":
            return self.UColl(items)
        if c == "set":
            return set(items)
        if c == "frozenset":
            return frozenset(items)
        if c == "dict_keys":
            return dict.fromkeys(items).keys()
        if c == "dict_values":
            return dict(enumerate(items)).values()
        if c == "dict_items":
            return dict(items).items()
        if c == "UIter":
            return self.UIter(items)
        if c == "gen":
            return (i for i in items)
        if c == "USizedIter":
            return _SizedIter(items)
        raise KeyError(c)

    def project_order(self, o, real):
        """Abstract object with set-like items re-ordered as the real object iterates."""
        k = o["k"]
        if k in ("atom", "type", "iter"):
            return o
        if k == "map":
            return {**o, "items": [{"key": self.project_order(p["key"], None), "val": self.project_order(p["val"], None)}
                                   for p in o["items"]]}
        c = o["cls"]
        if c in ("set", "frozenset"):
            realobj = self.obj(o) if real is None else real
            order = list(realobj)
            built = [self.obj(i) for i in o["items"]]
            new = []
            for r in order:
                idx = next(i for i, b in enumerate(built) if b is r or (type(b) is type(r) and b == r))
                new.append(self.project_order(o["items"][idx], None))
            return {**o, "items": new}
        return {**o, "items": [self.project_order(i, None) for i in o["items"]]}

    # -------------------------------------------------------------------- hints
    def hint(self, h, sp=0):
        """Abstract hint -> real hint; ``sp`` selects among equivalent spellings."""
        k, s, a = h["k"], h["s"], h["a"]
        T = typing
        if k == "any":
            return [T.Any, object, self._typevar()][sp % 3] if sp else T.Any
        if k == "cls":
            c = self.classes[s]
            if s == "NoneType":
                return None
            if sp % 4 == 1 and s in ("int", "str", "A"):
                return T.NewType(f"NT_{s}_{self.n}", c)
            if sp % 4 == 2 and s in ("int", "str", "A"):
                return self._typevar(bound=c)
            return c
        if k == "lit":
            return T.Literal[tuple(self.atom(m) for m in h["m"])]
        if k == "type":
            ch = a[0]
            if ch["k"] == "any":
                return [type[T.Any], T.Type[T.Any], type][sp % 3]
            inner = self.hint(ch, 0)
            return T.Type[inner] if sp % 2 else type[inner]
        if k == "union":
            ms = [self.hint(c, sp) for c in a]
            if sp % 3 == 1 and all(c["k"] == "cls" and c["s"] != "NoneType" for c in a) and len(a) >= 2:
                return self._typevar(constraints=[self.hint(c, 0) for c in a])
            if sp % 3 == 2:
                try:
                    out = ms[0]
                    for m in ms[1:]:
                        out = out | m
                    return out
                except TypeError:
                    pass
            return T.Union[tuple(ms)]
        if k == "tupf":
            ms = tuple(self.hint(c, sp) for c in a)
            if not ms:
                return T.Tuple[()] if sp % 2 else tuple[()]
            return T.Tuple[ms] if sp % 2 else tuple[ms]
        if k in ("seq", "reit", "quasi"):
            c = self.hint(a[0], sp)
            if s == "tuple":
                return T.Tuple[c, ...] if sp % 2 else tuple[c, ...]
            new, old = _ORIGINS[s]
            return old[c] if sp % 2 else new[c]
        if k == "shallow":
            if s == "Iterator":
                return T.Iterator[int] if sp % 2 else cabc.Iterator[int]
            return T.Generator[int, None, None] if sp % 2 else cabc.Generator[int, None, None]
        if k == "map":
            kk = self.hint(a[0], sp)
            if s == "Counter":
                return T.Counter[kk] if sp % 2 else collections.Counter[kk]
            vv = self.hint(a[1], sp)
            new, old = _ORIGINS[s]
            return old[kk, vv] if sp % 2 else new[kk, vv]
        if k == "items":
            kk, vv = self.hint(a[0], sp), self.hint(a[1], sp)
            return T.ItemsView[kk, vv] if sp % 2 else cabc.ItemsView[kk, vv]
        if k == "gen":
            return {"GL": self.GL, "GN": self.GN}.get(s, self.G)[self.hint(a[0], sp)]
        if k == "rec":
            # PEP 695 recursive alias  type R = list[R | <child>]  (lazily evaluated in its own namespace)
            self._tv += 1
            name = f"R{self.n}_{self._tv}"
            ns = {"C": self.hint(a[0], 0)}
            exec(f"type {name} = list[{name} | C]", ns)
            return ns[name]
        if k == "ann":
            base = self.hint(a[0], 0)
            vals = tuple(self.validator(v) for v in h["m"])
            return T.Annotated[(base,) + vals]
        raise KeyError(k)

    # --------------------------------------------------------------- validators
    def validator(self, v, leaves=None):
        """Abstract validator -> beartype.vale object (rebuilt from scratch on every call).
        ``leaves`` collects (repr(real leaf), real leaf) for the factory-level sub-validators."""
        from beartype.vale import Is, IsAttr, IsEqual, IsInstance, IsSubclass
        k = v["k"]
        if k == "is":
            out = Is[_PREDS[v["n"]]]
        elif k == "isattr":
            out = IsAttr[v["n"], self.validator(v["a"][0], None)]
        elif k == "iseq":
            out = IsEqual[self.atom(v["o"][0])]
        elif k == "isinst":
            out = IsInstance[self.classes[v["n"]]]
        elif k == "issub":
            out = IsSubclass[self.classes[v["n"]]]
        elif k == "and":
            return self.validator(v["a"][0], leaves) & self.validator(v["a"][1], leaves)
        elif k == "or":
            return self.validator(v["a"][0], leaves) | self.validator(v["a"][1], leaves)
        elif k == "not":
            return ~self.validator(v["a"][0], leaves)
        else:
            raise KeyError(k)
        if leaves is not None:
            leaves.append((repr(out), out))
        return out

    def _typevar(self, bound=None, constraints=None):
        self._tv += 1
        name = f"T{self.n}_{self._tv}"
        if constraints:
            return typing.TypeVar(name, *constraints)
        if bound is not None:
            return typing.TypeVar(name, bound=bound)
        return typing.TypeVar(name)


# Is[...] predicates: total, side-effect free, named functions, one per source line
def _p_truthy(x):
    return bool(x)


def _p_isstr(x):
    return isinstance(x, str)


def _p_sized1(x):
    return isinstance(x, (list, tuple, dict, set, frozenset)) and len(x) == 1


_PREDS = {"truthy": _p_truthy, "isstr": _p_isstr, "sized1": _p_sized1}


class _SizedIter:
    """one-shot iterator that also defines __len__ (e.g. a batch loader): Sized, not a Collection"""

    def __init__(self, items):
        self._it = list(items)
        self.pos = 0

    def __iter__(self):
        return self

    def __next__(self):
        if self.pos >= len(self._it):
            raise StopIteration
        self.pos += 1
        return self._it[self.pos - 1]

    def __len__(self):
        return len(self._it) - self.pos


def _never():
    raise AssertionError("defaultdict factory called by a type-check")


_ORIGINS = {
    "list": (list, typing.List), "Sequence": (cabc.Sequence, typing.Sequence),
    "MutableSequence": (cabc.MutableSequence, typing.MutableSequence),
    "set": (set, typing.Set), "frozenset": (frozenset, typing.FrozenSet),
    "AbstractSet": (cabc.Set, typing.AbstractSet), "MutableSet": (cabc.MutableSet, typing.MutableSet),
    "Collection": (cabc.Collection, typing.Collection), "deque": (collections.deque, typing.Deque),
    "KeysView": (cabc.KeysView, typing.KeysView), "ValuesView": (cabc.ValuesView, typing.ValuesView),
    "Iterable": (cabc.Iterable, typing.Iterable), "Container": (cabc.Container, typing.Container),
    "Reversible": (cabc.Reversible, typing.Reversible),
    "dict": (dict, typing.Dict), "Mapping": (cabc.Mapping, typing.Mapping),
    "MutableMapping": (cabc.MutableMapping, typing.MutableMapping),
    "defaultdict": (collections.defaultdict, typing.DefaultDict),
    "OrderedDict": (collections.OrderedDict, typing.OrderedDict),
}


def okey(o) -> str:
    return json.dumps(o, sort_keys=True, separators=(",", ":"))


def short_hint(h) -> str:
    k, s, a = h["k"], h["s"], h["a"]
    if k == "any":
        return "Any"
    if k == "cls":
        return s
    if k == "lit":
        return "Literal[" + ",".join(short_obj(m) for m in h["m"]) + "]"
    if k == "union":
        return "(" + "|".join(short_hint(c) for c in a) + ")"
    if k == "tupf":
        return "tuple[" + (",".join(short_hint(c) for c in a) or "()") + "]"
    if k == "type":
        return "type[" + short_hint(a[0]) + "]"
    if k == "ann":
        return "Annotated[" + short_hint(a[0]) + "," + ",".join(short_val(v) for v in h["m"]) + "]"
    if k == "shallow":
        return s + "[..]"
    if k == "gen":
        return s + "[" + short_hint(a[0]) + "]"
    if k == "rec":
        return "RecList[" + short_hint(a[0]) + "]"
    if s == "tuple":
        return "tuple[" + short_hint(a[0]) + ",...]"
    return s + "[" + ",".join(short_hint(c) for c in a) + "]"


def short_val(v) -> str:
    k = v["k"]
    if k == "is":
        return "Is[" + v["n"] + "]"
    if k == "isattr":
        return "IsAttr[" + v["n"] + "," + short_val(v["a"][0]) + "]"
    if k == "iseq":
        return "IsEqual[" + short_obj(v["o"][0]) + "]"
    if k == "isinst":
        return "IsInstance[" + v["n"] + "]"
    if k == "issub":
        return "IsSubclass[" + v["n"] + "]"
    if k == "not":
        return "~(" + short_val(v["a"][0]) + ")"
    return "(" + short_val(v["a"][0]) + (" & " if k == "and" else " | ") + short_val(v["a"][1]) + ")"


def short_obj(o) -> str:
    k = o["k"]
    if k == "atom":
        return {"int": str(o["v"]), "bool": str(bool(o["v"])), "float": {1: "1.0", 25: "2.5"}.get(o["v"], "?"),
                "complex": "77j", "str": {101: "'a'", 102: "'b'"}.get(o["v"], "?"), "NoneType": "None",
                "A": "A()", "B": "B()", "PM": "PM()", "G": "G()"}[o["cls"]]
    if k == "type":
        return "<class " + o["cls"] + ">"
    if k == "map":
        return o["cls"] + "{" + ",".join(short_obj(p["key"]) + ":" + short_obj(p["val"]) for p in o["items"]) + "}"
    return o["cls"] + "(" + ",".join(short_obj(i) for i in o["items"]) + ")"


# ----------------------------------------------------------------------------- confs
def real_conf(world, c, extra=None):
    kw = {}
    if not c["rnd"]:
        kw["is_random"] = False
    if c["tower"]:
        kw["is_pep484_tower"] = True
    if c["ov"]:
        from beartype import FrozenDict
        kw["hint_overrides"] = FrozenDict({world.A: world.B})
    if c.get("ov3"):
        from beartype import FrozenDict
        kw["hint_overrides"] = FrozenDict({world.A: typing.Union[world.A, int, str]})
    if extra:
        kw.update(extra)
    return BeartypeConf(**kw)
