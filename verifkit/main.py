"""Entry point of ``./check``: dispatch to verifkit/drivers/<id>.py."""
from __future__ import annotations

import argparse
import importlib
import os
import sys
import traceback

from verifkit.report import MachineryFailure, Reporter
from verifkit.tlc import TLCMachineryError


def main(argv=None) -> int:
    ap = argparse.ArgumentParser()
    ap.add_argument("pid")
    ap.add_argument("--tier", default=os.environ.get("VERIF_TIER", "quick"), choices=["quick", "thorough"])
    ap.add_argument("--seed", type=int, default=int(os.environ.get("VERIF_SEED", "0") or 0))
    ap.add_argument("--replay", default=None)
    a = ap.parse_args(argv)
    pid = a.pid.upper()
    try:
        mod = importlib.import_module(f"verifkit.drivers.{pid.lower()}")
    except ModuleNotFoundError as ex:
        if ex.name and ex.name.endswith(pid.lower()):
            print(f"no driver for {pid}", file=sys.stderr)
            return 2
        raise
    level = getattr(mod, "LEVEL", "model_checking")
    rep = Reporter(pid, a.tier, a.seed, level)
    try:
        if a.replay:
            # a replay re-runs one recorded case and prints what happens; it never rewrites the evidence
            mod.replay(rep, a.replay)
            return 1 if rep.violations else 0
        mod.run(rep, a.tier, a.seed)
        return rep.finish()
    except (MachineryFailure, TLCMachineryError) as ex:
        print(f"MACHINERY-FAILURE property={pid}: {ex}", file=sys.stderr, flush=True)
        return 2
    except Exception:
        traceback.print_exc()
        print(f"MACHINERY-FAILURE property={pid}: unexpected exception in driver", file=sys.stderr, flush=True)
        return 2


if __name__ == "__main__":
    sys.exit(main())
