"""C06 — hook scoping follows the nearest registered package after any hook history.

R1  TLC checks spec/ClawRegistry.tla (intended design, Legacy = {}) exhaustively for several
    constant sets; every Legacy switch (three behaviours of beartype 0.23.0 and three wrong
    designs) is run as a spec mutant against the clause it breaks and must be rejected.
R2  The state graphs of the small constant sets are dumped and EVERY edge is replayed on the
    real beartype.claw: a layered search finds, for every specification state, a call
    sequence that verifiably drives the real registry into it; from there each outgoing
    call is made and the exception class, {name -> get_package_conf_or_none(name)} over all
    names, the presence of the path hook in sys.path_hooks and (for attribution only) the
    internal tries are compared with the target state that TLC computed.
    TLC counterexamples of the 0.23.0 switches are replayed first (minimal reproductions).
R3  Seeded random long histories (12 registrable names, nested / interleaved blocks, global
    registrations, skip lists, invalid arguments) are recorded as ndjson and validated by
    spec/trace/ClawRegistryTrace.tla with the ideal invariants evaluated at each step.
E2E generated packages on disk are imported under the real path hook after TLC-chosen
    histories (beartype_this_package called from a package __init__): a module is really
    type-checked, with the configuration TLC computed, exactly when the specification says.

All calls into beartype.claw happen in forked children; the driver process itself never
installs a hook.
"""
from __future__ import annotations

import concurrent.futures
import importlib
import json
import os
import random
import re
import sys
import time

from verifkit import tlc
from verifkit.util import fork_map, scratch, write_file

LEVEL = "model_checking"
REPO = os.environ.get("VERIF_REPO", "/repo")

NONE = ("none", False, ())
BAD = ("bad", False, ())
PUBLIC_EXC = "BeartypeClawHookException"
LEGACY_0230 = ["exit_raw_compare", "enter_fail_leak", "conflict_partial"]
LEGACY_DESIGN = ["walk_shallow", "blacklist_ignored", "exit_drops_hook"]
API = {"pkgs1": "beartype_package", "pkgs": "beartype_packages", "this": "beartype_this_package",
       "all": "beartype_all", "enter": "beartyping.__enter__", "exit": "beartyping.__exit__",
       "badname": "beartype_package(s)<invalid name>"}


# ====================================================================== abstract values
def conf_key(rec):
    """parsed TLA+ conf record -> hashable (id, hk, sorted skip paths)."""
    return (rec["id"], bool(rec["hk"]), tuple(sorted(tuple(p) for p in rec["skip"])))


def hookable(c):
    return (c[0], True, c[2])


def dotted(p):
    return ".".join(p)


def fmt_conf(c):
    if c == NONE:
        return "None"
    if c == BAD:
        return "<not a BeartypeConf>"
    s = c[0] + ("+hookable" if c[1] else "")
    if c[2]:
        s += "+skip(" + ",".join(dotted(p) for p in c[2]) + ")"
    return s


def fmt_call(call):
    op, ps, c = call[0], call[1], call[2]
    if op == "pkgs":
        if len(ps) == 1:
            return f"beartype_package('{dotted(ps[0])}', conf={fmt_conf(c)})"
        return f"beartype_packages({tuple(dotted(p) for p in ps)!r}, conf={fmt_conf(c)})"
    if op == "this":
        return f"beartype_this_package(conf={fmt_conf(c)})  # from package '{dotted(ps[0])}'"
    if op == "all":
        return f"beartype_all(conf={fmt_conf(c)})"
    if op == "enter":
        return f"beartyping(conf={fmt_conf(c)}).__enter__()"
    if op == "exit":
        return "beartyping().__exit__()  # innermost block"
    if op == "badname":
        return f"beartype_package(<invalid name>, conf={fmt_conf(c)})"
    return repr(call)


def fmt_hist(calls):
    return " ; ".join(fmt_call(c) for c in calls)


def api_name(call):
    if call[0] == "pkgs":
        return API["pkgs1"] if len(call[1]) == 1 else API["pkgs"]
    return API[call[0]]


# ====================================================================== concretiser (child side)
class Cat:
    """abstract names / configurations <-> real ones."""

    OPTS = {"C0": {}, "C1": {"violation_param_type": "ErrA"}, "C2": {"violation_param_type": "ErrB"},
            "C3": {"is_pep484_tower": True}}

    def __init__(self, seed=0, prefix="c06p"):
        from beartype import BeartypeConf
        from beartype.roar import BeartypeClawDecorWarning
        from beartype._data.shame.module.datashamemod import BLACKLIST_PACKAGE_NAMES
        rnd = random.Random(seed)
        self.BeartypeConf = BeartypeConf
        self.warn = BeartypeClawDecorWarning
        self.ErrA = type("C06ErrA", (Exception,), {})
        self.ErrB = type("C06ErrB", (Exception,), {})
        builtin = sorted(set(BLACKLIST_PACKAGE_NAMES) | {"beartype"})
        self.builtin = builtin
        self.base = {"a": prefix + "a", "b": prefix + "b", "c": prefix + "c", "x": rnd.choice(builtin)}
        self.fresh = prefix + "fresh.sub"     # a name that no call ever mentions
        self.rbase = {v: k for k, v in self.base.items()}
        self._real = {}
        self._abs = {}
        self.bad_values = ["not a configuration", None, BeartypeConf, {"is_debug": False}, 0]
        self.bad_names = ["", "a..b", ".a", "a.", "1a", "a b", 7, None, (), [], ("ok", 3), ("ok", "a-b")]

    def name(self, p):
        return ".".join(self.base[b] for b in p)

    def aname(self, real):
        try:
            return tuple(self.rbase[b] for b in real.split("."))
        except KeyError:
            return ("?" + real,)

    def conf(self, c):
        """abstract (id, hk, skip) -> the real BeartypeConf."""
        r = self._real.get(c)
        if r is None:
            kw = {}
            for k, v in self.OPTS[c[0]].items():
                kw[k] = getattr(self, v) if isinstance(v, str) else v
            if c[2]:
                kw["claw_skip_package_names"] = tuple(self.name(p) for p in c[2])
            if c[1]:
                kw["warning_cls_on_decorator_exception"] = self.warn
            r = self.BeartypeConf(**kw)
            self._real[c] = r
            self._abs[id(r)] = c
            if not c[1]:
                self.conf(hookable(c))      # what lookups are expected to return for it
        return r

    def aconf(self, real):
        """real object returned by get_package_conf_or_none -> abstract conf."""
        if real is None:
            return NONE
        c = self._abs.get(id(real))
        if c is not None and self._real[c] is real:
            return c
        for c, r in self._real.items():
            if r == real:
                return c
        return ("unknown:" + repr(real)[:120], False, ())


class Real:
    """the real beartype.claw, driven call by call."""

    def __init__(self, cat):
        import beartype.claw as claw
        from beartype.claw._clawstate import claw_state
        from beartype.claw._package import clawpkgtrie
        from beartype.roar import BeartypeClawHookException
        self.cat, self.claw, self.state, self.trie = cat, claw, claw_state, clawpkgtrie
        self.lookup = clawpkgtrie.get_package_conf_or_none
        self.HookExc = BeartypeClawHookException
        self.cms = []
        self.internal_ok = True
        if claw_state.beartype_path_hook is not None:
            claw_state.reinit()
        self.base_hooks = list(sys.path_hooks)
        self.this_code = compile("beartype_this_package(conf=CONF)", "<c06 generated package __init__>", "exec")
        self.this_code_default = compile("beartype_this_package()", "<c06 generated package __init__>", "exec")

    # -- reset ---------------------------------------------------------------------------
    def reset(self):
        while self.cms:
            cm = self.cms.pop()
            try:
                cm.__exit__(None, None, None)
            except BaseException:       # noqa
                pass
        self.state.reinit()
        # reinit() removes the one hook claw_state knows about; a tree that installs the hook more
        # than once (reported through the hook count of the offending call) must not leak the
        # others into the next history
        base = self.base_hooks
        if len(sys.path_hooks) != len(base):
            sys.path_hooks[:] = [h for h in sys.path_hooks if any(h is b for b in base)]
            sys.path_importer_cache.clear()

    def pristine(self):
        s = self.snapshot()
        return (self.hook_count() == 0 and (s is None or (not s[0] and s[1] == NONE and not s[2] and not s[3])))

    # -- one call --------------------------------------------------------------------------
    def call(self, call, variant=0):
        """perform the abstract call; return 'none' or the name of the exception class
        (prefixed with '!' when it is not a BeartypeClawHookException)."""
        op, ps, c = call[0], call[1], call[2]
        cat, claw = self.cat, self.claw
        v = variant
        if c == BAD:
            conf = cat.bad_values[v % len(cat.bad_values)]
        elif c == NONE:
            conf = None
        else:
            conf = cat.conf(c)
        plain_default = (c == ("C0", False, ()))
        omit = plain_default and (v % 3 == 1)        # default argument instead of an explicit conf
        kw = {} if omit else {"conf": conf}
        try:
            if op == "pkgs":
                names = [cat.name(p) for p in ps]
                if len(names) == 1 and v % 2 == 0:
                    claw.beartype_package(names[0], **kw)
                else:
                    # re-iterable containers only: a one-shot iterator is consumed by the argument
                    # validation of 0.23.0 and registers nothing (reported separately, not judged here)
                    form = (v // 2) % 3
                    arg = (tuple(names), list(names), dict.fromkeys(names))[form]
                    claw.beartype_packages(arg, **kw)
            elif op == "this":
                g = {"__package__": cat.name(ps[0]), "__name__": cat.name(ps[0]),
                     "beartype_this_package": claw.beartype_this_package, "CONF": conf}
                exec(self.this_code_default if omit else self.this_code, g)
            elif op == "badname":
                bad = cat.bad_names[v % len(cat.bad_names)]
                if isinstance(bad, str) or bad is None or isinstance(bad, int):
                    if v % 2 == 0:
                        claw.beartype_package(bad, **kw)
                    else:
                        claw.beartype_packages((cat.name(("a",)), bad), **kw)
                else:
                    claw.beartype_packages(bad, **kw)
            elif op == "all":
                claw.beartype_all(**kw)
            elif op == "enter":
                cm = claw.beartyping(**kw)
                cm.__enter__()
                self.cms.append(cm)
            elif op == "exit":
                cm = self.cms.pop()
                cm.__exit__(None, None, None)
            else:
                raise ValueError(op)
        except self.HookExc:
            return PUBLIC_EXC            # C06: "raises BeartypeClawHookException" (subclasses included)
        except Exception as ex:       # noqa
            return "!" + type(ex).__name__ + ":" + str(ex)[:80]
        return "none"

    # -- observation -----------------------------------------------------------------------
    def hook_count(self):
        base = self.base_hooks
        return sum(1 for h in sys.path_hooks if not any(h is b for b in base))

    def observe(self, names):
        """public observables: [abstract conf per name], number of beartype path hooks, abstract
        conf of a fresh name (= beartype_all's configuration)."""
        cat, lk = self.cat, self.lookup
        return [cat.aconf(lk(cat.name(p))) for p in names], self.hook_count(), cat.aconf(lk(cat.fresh))

    def snapshot(self):
        """internal registry (used for attribution and for 'leaves the registry as it was'):
        (whitelist nodes {abstract path: abstract conf}, root conf, blacklist leaves, hook flag)."""
        if not self.internal_ok:
            return None
        try:
            st, cat = self.state, self.cat
            leaf = self.trie.PackagesTrieBlacklisted
            wl = {}
            stack = [((), st.packages_trie_whitelist)]
            while stack:
                path, trie = stack.pop()
                for k, sub in trie.items():
                    p = path + (k,)
                    wl[cat.aname(".".join(p))] = cat.aconf(sub.conf_if_hooked)
                    stack.append((p, sub))
            bl = set()
            stack = [((), st.packages_trie_blacklist)]
            while stack:
                path, trie = stack.pop()
                for k, sub in trie.items():
                    p = path + (k,)
                    if sub is leaf:
                        if not (len(p) == 1 and k in cat.builtin):
                            bl.add(cat.aname(".".join(p)))
                    else:
                        stack.append((p, sub))
            return (wl, cat.aconf(st.packages_trie_whitelist.conf_if_hooked), frozenset(bl),
                    st.beartype_path_hook is not None)
        except AttributeError:
            self.internal_ok = False
            return None


def snap_diff(a, b):
    """names of the registry parts in which two internal snapshots differ."""
    if a is None or b is None:
        return []
    out = []
    if a[0] != b[0]:
        out.append("whitelist")
    if a[1] != b[1]:
        out.append("root")
    if a[2] != b[2]:
        out.append("blacklist")
    if a[3] != b[3]:
        out.append("hook")
    return out


# ====================================================================== TLC side
def _tla_path(p):
    return "<<" + ", ".join('"%s"' % b for b in p) + ">>"


def _tla_paths(ps):
    return "{" + ", ".join(_tla_path(p) for p in ps) + "}"


def _tla_conf(c):
    return '[id |-> "%s", hk |-> %s, skip |-> %s]' % (c[0], "TRUE" if c[1] else "FALSE", _tla_paths(c[2]))


def _q(xs):
    return "{" + ", ".join('"%s"' % x for x in xs) + "}"


ALL_CHECKS = ["INVARIANT TypeOK", "INVARIANT LookupOK", "INVARIANT ProjOK", "INVARIANT RootOK", "INVARIANT HookOK",
              "INVARIANT NodesOK",
              "PROPERTY OutcomeOK", "PROPERTY FailedCallAtomic", "PROPERTY ReRegisterNoop", "PROPERTY ExitRestores"]


def gen_mc(d, name, k, legacy=(), checks=None):
    """write MC module + cfg for constant set k into directory d."""
    mod = (f"---- MODULE {name} ----\nEXTENDS ClawRegistry\nMCRegPaths == {_tla_paths(k['reg'])}\n"
           f"MCConfs == {{{', '.join(_tla_conf(c) for c in k['confs'])}}}\n====\n")
    spec = write_file(d, name + ".tla", mod)
    cfg = ("SPECIFICATION Spec\nCONSTANTS\n"
           f"  Basenames = {_q(k['base'])}\n  MaxDepth = {k['depth']}\n  RegPaths <- MCRegPaths\n"
           f"  Builtin = {_q(k['builtin'])}\n  UserConfs <- MCConfs\n  MaxCtx = {k['ctx']}\n"
           f"  MaxPkgs = {k['pkgs']}\n  Legacy = {_q(legacy)}\n"
           + "\n".join(ALL_CHECKS if checks is None else checks) + "\nVIEW View\nCHECK_DEADLOCK FALSE\n")
    return spec, write_file(d, name + ".cfg", cfg)


def P(*names):
    return [tuple(n.split(".")) for n in names]


C0, C1, C2 = ("C0", False, ()), ("C1", False, ()), ("C2", False, ())
C0h = ("C0", True, ())
K = {   # constant sets
    # two configurations, nested blocks, multi-package calls
    "A": dict(base=["a", "b"], depth=2, reg=P("a", "a.b", "b"), builtin=[], confs=[C0, C1], ctx=2, pkgs=2),
    # built-in-excluded root, pre-hookable configuration, a skip list, multi-package calls
    "B": dict(base=["a", "b", "x"], depth=2, reg=P("a", "a.b", "x", "x.a"), builtin=["x"],
              confs=[C0, C0h, ("C1", False, tuple(P("b")))], ctx=1, pkgs=2),
    # skip lists above / at / below registered names, depth 3
    "S": dict(base=["a", "b"], depth=3, reg=P("a", "a.b", "b"), builtin=[],
              confs=[C0, ("C0", False, tuple(P("a.b"))), ("C1", False, tuple(P("a", "b.a")))], ctx=1, pkgs=1),
    # deeper trie, three configurations incl. one skip list, nested blocks
    "C": dict(base=["a", "b"], depth=3, reg=P("a", "a.b", "a.b.a", "b"), builtin=[],
              confs=[C0, C1, ("C0", False, tuple(P("a.b")))], ctx=2, pkgs=1),
    # six paths, three configurations, nesting 2 (design §4 C06)
    "D": dict(base=["a", "b", "c"], depth=3, reg=P("a", "a.b", "a.b.c", "a.c", "b", "c"), builtin=[],
              confs=[C0, C1, C2], ctx=2, pkgs=1),
    # mutants are run on this one
    "M": dict(base=["a", "b"], depth=2, reg=P("a", "a.b", "b"), builtin=["x"],
              confs=[C0, C1, ("C0", False, tuple(P("a.b")))], ctx=1, pkgs=2),
}
MUTANT_CLAUSE = {   # legacy switch -> the clause(s) that must reject it
    "exit_raw_compare": ["PROPERTY ExitRestores"],
    "enter_fail_leak": ["PROPERTY FailedCallAtomic"],
    "conflict_partial": ["PROPERTY FailedCallAtomic"],
    "walk_shallow": ["INVARIANT LookupOK"],
    "blacklist_ignored": ["INVARIANT LookupOK"],
    "exit_drops_hook": ["INVARIANT HookOK"],
}

_COV = re.compile(r"^<([A-Za-z_][A-Za-z0-9_]*) line \d+, col \d+ to line \d+, col \d+ of module ClawRegistry"
                  r"(?: \([\d ]+\))?>: (\d+):(\d+)", re.M)


def coverage_of(res):
    """TLC prints '<Pkgs line .. of module ClawRegistry (211 3 214 18)>: d:t' for actions that
    contain a LET; the kit's parser skips those lines."""
    return {m.group(1): (int(m.group(2)), int(m.group(3))) for m in _COV.finditer(res.output)}


_STATE_HEAD = re.compile(r"^State (\d+): <(.*?)(?: line \d+, col \d+ to line \d+, col \d+ of module \w+)?>\s*$", re.M)


def error_trace_of(res):
    """[(action label, state)] of a TLC counterexample (labels may contain '>>')."""
    out, heads = [], list(_STATE_HEAD.finditer(res.output))
    for i, m in enumerate(heads):
        end = heads[i + 1].start() if i + 1 < len(heads) else len(res.output)
        body = res.output[m.end():end]
        body = body.split("\n\n")[0]
        try:
            st = tlc.parse_state(body)
        except Exception:       # noqa
            st = {}
        out.append((m.group(2).strip(), st))
    return out


def parse_label(label):
    """'Pkgs(<<<<"a">>>>,[id |-> ..],"ok")' -> (call, out) with call = (op, ps, conf)."""
    name, args = tlc.parse_action(label)
    if name == "Pkgs":
        return ("pkgs", tuple(tuple(p) for p in args[0]), conf_key(args[1])), args[2]
    if name == "This":
        return ("this", (tuple(args[0]),), conf_key(args[1])), args[2]
    if name == "BadName":
        return ("badname", (), conf_key(args[0])), args[1]
    if name == "All":
        return ("all", (), conf_key(args[0])), args[1]
    if name == "Enter":
        return ("enter", (), conf_key(args[0])), args[1]
    if name == "Exit":
        return ("exit", (), NONE), args[0]
    raise ValueError(label)


# ====================================================================== R2: graph replay
class G:
    """a dumped state graph prepared for replay (built in the parent, inherited by forks)."""

    def __init__(self, name, graph):
        self.name = name
        self.ids = list(graph.nodes)
        idx = {n: i for i, n in enumerate(self.ids)}
        self.init = [idx[i] for i in graph.init]
        nodes = [graph.nodes[n] for n in self.ids]
        self.names = sorted((tuple(p) for p in nodes[0]["proj"]), key=lambda p: (len(p), p))
        self.proj = [[conf_key(st["proj"][p]) for p in self.names] for st in nodes]
        self.hook = [bool(st["hook"]) for st in nodes]
        self.ctx = [tuple((conf_key(f["saved"]), conf_key(f["c"])) for f in st["ctx"]) for st in nodes]
        self.internal = [({tuple(p): conf_key(st["wl"][p]) for p in st["nodes"]}, conf_key(st["root"]),
                          frozenset(tuple(p) for p in st["bt"]), bool(st["hook"])) for st in nodes]
        labels = {}
        self.edges = []          # (src, call, out, dst)
        for s, a, t in graph.edges:
            if a not in labels:
                labels[a] = parse_label(a)
            call, out = labels[a]
            self.edges.append((idx[s], call, out, idx[t]))
        self.out = [[] for _ in nodes]
        for i, e in enumerate(self.edges):
            self.out[e[0]].append(i)


_SEED = 0
NSHARDS = 16


def _expect_exc(out):
    return "none" if out == "ok" else PUBLIC_EXC


def _check_edge(real, g, ei, prefix, variant):
    """reset; replay prefix; make the call of edge ei; compare.  Returns (ok, mismatch or None)."""
    s, call, out, t = g.edges[ei]
    real.reset()
    for c in prefix:
        real.call(c)
    before = real.snapshot()
    got_exc = real.call(call, variant)
    proj, hooks, fresh = real.observe(g.names)
    after = real.snapshot()
    mism = {}
    if got_exc != _expect_exc(out):
        mism["exc"] = [got_exc, _expect_exc(out)]
    if fresh != g.internal[t][1]:
        mism["root"] = [fmt_conf(fresh), fmt_conf(g.internal[t][1])]
    if proj != g.proj[t]:
        mism["lookup"] = [(dotted(n), fmt_conf(a), fmt_conf(b)) for n, a, b in zip(g.names, proj, g.proj[t]) if a != b][:6]
    if (hooks >= 1) != g.hook[t] or hooks > 1:
        mism["hook"] = [hooks, g.hook[t]]
    hidden = []
    if after is not None and after != g.internal[t]:
        hidden = snap_diff(after, g.internal[t])
    if not mism and not hidden:
        return True, None
    rec = {"edge": ei, "mism": mism, "hidden": hidden, "changed": snap_diff(before, after),
           "root_after": fmt_conf(after[1]) if after else None, "root_want": fmt_conf(g.internal[t][1])}
    return False, rec


def _e2e_paths(g, seed, ncases):
    """histories for the E2E runs: paths of successful registration calls, with the expected
    lookups (as TLC computed them) of every state along the path."""
    rnd = random.Random(seed + 17)
    okops = ("pkgs", "this", "all", "enter")
    cases, tries = [], 0
    while len(cases) < ncases and tries < ncases * 50:
        tries += 1
        s, path = g.init[0], []
        for _ in range(rnd.choice([1, 2, 2, 3, 3, 4])):
            cands = [ei for ei in g.out[s] if g.edges[ei][2] == "ok" and g.edges[ei][1][0] in okops
                     and g.edges[ei][3] != s]
            this = [ei for ei in cands if g.edges[ei][1][0] == "this"]
            if not cands:
                break
            ei = rnd.choice(this) if this and rnd.random() < 0.5 else rnd.choice(cands)
            path.append(ei)
            s = g.edges[ei][3]
        if path:
            states = [g.edges[path[0]][0]] + [g.edges[ei][3] for ei in path]
            cases.append({"hist": [g.edges[ei][1] for ei in path],
                          "ids": [{dotted(n): c[0] for n, c in zip(g.names, g.proj[st])} for st in states]})
    return cases


def _prepare(item):
    """child: parse the dumped graph, find for every specification state a call sequence that
    verifiably drives the real registry into it, store everything for the phase-2 children."""
    import pickle
    dot, label, seed, pk, n_e2e = item
    g = G(label, tlc.parse_dot(dot))
    os.remove(dot)
    cat = Cat(seed)
    real = Real(cat)
    real.reset()
    if not real.pristine():
        return {"fatal": "claw_state.reinit() does not reset the registry"}
    verified = {i: [] for i in g.init}
    queue = list(g.init)
    probes = 0
    while queue:
        s = queue.pop(0)
        for ei in g.out[s]:
            t = g.edges[ei][3]
            if t in verified:
                continue
            probes += 1
            ok, _ = _check_edge(real, g, ei, verified[s], 0)
            if ok:
                verified[t] = verified[s] + [g.edges[ei][1]]
                queue.append(t)
    real.reset()
    # one file per phase-2 shard: the node tables and only the edges leaving the states of that shard
    all_edges, all_out = g.edges, g.out
    for k in range(NSHARDS):
        mine = [i for i in sorted(verified) if i % NSHARDS == k]
        g.edges, g.out, remap = [], {}, {}
        for i in mine:
            g.out[i] = []
            for ei in all_out[i]:
                g.out[i].append(len(g.edges))
                remap[len(g.edges)] = ei
                g.edges.append(all_edges[ei])
        with open(f"{pk}.{k}", "wb") as fh:
            pickle.dump((g, {i: verified[i] for i in mine}, remap), fh, protocol=pickle.HIGHEST_PROTOCOL)
    g.edges, g.out = all_edges, all_out
    seen = sorted({(e[1][0], e[2]) for e in g.edges})
    noop = any(e[0] == e[3] and e[2] == "ok" and e[1][0] in ("pkgs", "this", "all") for e in g.edges)
    deep = max(verified.values(), key=len)
    return {"label": label, "nodes": len(g.ids), "edges": len(g.edges), "verified": len(verified), "probes": probes,
            "skipped_edges": sum(len(g.out[i]) for i in range(len(g.ids)) if i not in verified),
            "deep_states": sum(1 for v in verified.values() if len(v) >= 2),
            "seen": seen, "noop": noop, "deepest": fmt_hist(deep), "e2e": _e2e_paths(g, seed, n_e2e) if n_e2e else []}


def _phase2(item):
    """child: test every outgoing edge of the states of one shard."""
    import pickle
    pk, k, seed = item
    with open(f"{pk}.{k}", "rb") as fh:
        g, verified, remap = pickle.load(fh)
    cat = Cat(seed)
    real = Real(cat)
    bad, n = [], 0
    for s in sorted(verified):
        prefix = verified[s]
        real.reset()
        if not real.pristine():
            return {"fatal": "claw_state.reinit() does not reset the registry"}
        for c in prefix:
            real.call(c)
        if real.observe(g.names) != (g.proj[s], int(g.hook[s]), g.internal[s][1]):
            return {"fatal": f"verified prefix no longer reaches its state: {fmt_hist(prefix)}"}
        for ei in g.out[s]:
            variant = random.Random(seed * 1000003 + remap[ei]).randrange(1 << 16)
            ok, rec = _check_edge(real, g, ei, prefix, variant)
            n += 1
            if not ok:
                _, call, out, _t2 = g.edges[ei]
                rec["edge"] = remap[ei]
                rec.update(variant=variant, call=call, out=out, hist=prefix + [call])
                if call[0] == "exit" and g.ctx[s]:
                    rec["block_prehk"] = g.ctx[s][-1][1][1]
                bad.append(rec)
    real.reset()
    return {"n": n, "bad": bad, "internal": real.internal_ok}


def classify(call, out, rec):
    """canonical keys of the violations shown by one mismatching edge -> [(key, summary)]."""
    api = api_name(call)
    mism, changed = rec["mism"], rec["changed"]
    keys = []
    if call[0] == "exit":
        if "root" in mism or rec["root_after"] not in (None, rec["root_want"]):
            sym = "root-not-restored"
        elif "hook" in mism:
            sym = "hook-kept" if mism["hook"][0] >= 1 else "hook-dropped"
        elif "lookup" in mism:
            sym = "lookup-differs"
        else:
            sym = None
        if "exc" in mism:
            keys.append(({"clause": "outcome", "api": api, "want": mism["exc"][1], "got": mism["exc"][0].split(":")[0]},
                         f"{api}: outcome {mism['exc'][0]} where C06 demands {mism['exc'][1]}"))
        if sym:
            keys.append(({"clause": "exit-restores", "api": api, "symptom": sym,
                          "block_conf_prehookable": rec.get("block_prehk")},
                         f"leaving a beartyping() block does not restore the preceding state ({sym})"))
        return keys
    if out in ("conflict", "invalid") and "exc" not in mism:
        parts = changed or (["lookup"] if "lookup" in mism or "root" in mism else []) + (["hook"] if "hook" in mism else [])
        for part in parts:
            keys.append(({"clause": "failed-call-atomic", "api": api, "cause": out, "changed": part},
                         f"{api} raises ({out}) but changes the {part} of the registry"))
        return keys
    if "exc" in mism:
        keys.append(({"clause": "outcome", "api": api, "want": mism["exc"][1], "got": mism["exc"][0].split(":")[0]},
                     f"{api}: outcome {mism['exc'][0]} where C06 demands {mism['exc'][1]}"))
    if "root" in mism and "exc" not in mism:
        keys.append(({"clause": "lookup", "api": api, "name": "<unregistered name>", "got": mism["root"][0],
                      "want": mism["root"][1]},
                     f"after {api}: get_package_conf_or_none(<unregistered name>) is {mism['root'][0]}, C06 demands "
                     f"{mism['root'][1]}"))
    elif "lookup" in mism and "exc" not in mism:
        n, a, b = mism["lookup"][0]
        keys.append(({"clause": "lookup", "api": api, "name": n, "got": a, "want": b},
                     f"after {api}: get_package_conf_or_none('{n}') is {a}, C06 demands {b}"))
    if "hook" in mism and "exc" not in mism:
        keys.append(({"clause": "hook", "api": api, "got": mism["hook"][0], "want": mism["hook"][1]},
                     f"after {api}: {mism['hook'][0]} beartype path hook(s) in sys.path_hooks, C06 demands "
                     f"{'one' if mism['hook'][1] else 'none'}"))
    return keys


def replay_graph(rep, prep, pk, label, seed):
    """phase 2 of the replay of one graph + verdicts."""
    results = fork_map(_phase2, [(pk, k, seed) for k in range(NSHARDS)], procs=NSHARDS, chunksize=1)
    tested, bad_all = 0, []
    for r in results:
        if "fatal" in r:
            rep.machinery(f"R2 replay of graph {label}: {r['fatal']}")
        tested += r["n"]
        bad_all.extend(r["bad"])
        if not r["internal"] and not any("not inspectable" in a for a in rep.assumptions):
            rep.assumptions.append("internal tries of claw_state not inspectable: attribution by public observables only")
    for rec in bad_all:
        call, out, hist = rec["call"], rec["out"], rec["hist"]
        if not rec["mism"] and not (out in ("conflict", "invalid") and rec["changed"]):
            # the public observables agree, only the internal tries differ from the model
            rep.spec_drift(f"graph {label}: internal registry differs from ClawRegistry.tla in {rec['hidden']} after "
                           f"{fmt_hist(hist)} (public observables agree)")
            continue
        keys = classify(call, out, rec) or [({"clause": "other", "api": api_name(call), "differs": sorted(rec["mism"])},
                                             f"{api_name(call)}: real observables differ from ClawRegistry.tla")]
        for key, summary in keys:
            rep.violation(key, f"{summary}.  History: {fmt_hist(hist)}.  Real vs ClawRegistry.tla: "
                          f"{json.dumps(rec['mism'])}; registry parts changed by the call: {rec['changed']}",
                          {"kind": "history", "history": [list(c) for c in hist], "seed": seed, "graph": label,
                           "variant": rec["variant"], "expected_outcome": out, "mismatch": rec["mism"]})
    unver = prep["nodes"] - prep["verified"]
    rep.count(tested)
    rep.add("graph_edges_replayed", tested)
    rep.add("graph_edges_total", prep["edges"])
    rep.add("graph_states_reached_on_real_code", prep["verified"])
    rep.add("graph_states_total", prep["nodes"])
    rep.add("traces_validated_against_impl", prep["verified"])
    for i in range(prep["deep_states"]):
        rep.nontrivial(f"{label}:{i}")
    if unver:
        rep.add("graph_edges_not_replayed_source_unreachable", prep["skipped_edges"])
        if not bad_all:
            rep.machinery(f"graph {label}: {unver} specification states not reachable on the real code although no "
                          f"edge mismatched")
        rep.note(f"graph {label}: {unver} of {prep['nodes']} specification states could not be reached on the real "
                 f"code because every path to them crosses a violating call; {prep['skipped_edges']} edges from them "
                 f"not replayed")
    elif tested != prep["edges"]:
        rep.machinery(f"graph {label}: {tested} of {prep['edges']} edges replayed")
    rep.sample({"graph": label, "state_reached_by": prep["deepest"]})
    return len(bad_all)


# ---------------------------------------------------------------------- counterexamples first
def _run_history(item):
    """child: run one history, return the observation after every call."""
    names, hist, seed = item
    cat = Cat(seed)
    real = Real(cat)
    real.reset()
    out = []
    stack = []
    for call in hist:
        call = (call[0], tuple(tuple(p) for p in call[1]), tuple(call[2][:2]) + (tuple(tuple(p) for p in call[2][2]),))
        before = real.snapshot()
        exc = real.call(call, 0)
        proj, hooks, fresh = real.observe(names)
        after = real.snapshot()
        out.append({"exc": exc, "proj": proj, "hooks": hooks, "changed": snap_diff(before, after), "root": fresh})
    real.reset()
    return out


def replay_counterexample(rep, switch, res, k):
    """replay the call sequence of a TLC counterexample (of a 0.23.0 switch) on the real code
    and say whether the real code follows the legacy model."""
    tr = error_trace_of(res)
    hist, states = [], []
    for label, st in tr[1:]:
        call, out = parse_label(label)
        hist.append(call)
        states.append((out, st))
    if not hist:
        return
    names = sorted((tuple(p) for p in tr[0][1]["proj"]), key=lambda p: (len(p), p))
    obs = fork_map(_run_history, [(names, hist, _SEED)], procs=1)[0]
    follows = all(o["exc"] == _expect_exc(out) and o["proj"] == [conf_key(st["proj"][p]) for p in names]
                  and (o["hooks"] >= 1) == bool(st["hook"]) and o["root"] == conf_key(st["root"])
                  for o, (out, st) in zip(obs, states))
    rep.count(len(hist))
    rep.nontrivial(f"cex:{switch}")
    rep.sample({"tlc_counterexample_of": switch, "history": fmt_hist(hist),
                "real_code_behaves_like_the_legacy_model": follows})
    rep.note(f"TLC counterexample of Legacy={{{switch}}}: {fmt_hist(hist)} -- real code "
             f"{'FOLLOWS the legacy model (0.23.0 behaviour present)' if follows else 'does not follow the legacy model'}")
    return follows


# ====================================================================== R3: random histories
N12 = P("a", "a.b", "a.b.c", "a.c", "b", "b.a", "b.a.c", "c", "c.b", "x", "x.a", "a.x")


def all_names(base, depth):
    out, layer = [], [()]
    for _ in range(depth):
        layer = [p + (b,) for p in layer for b in base]
        out += layer
    return out


# names looked up after every recorded call: the registrable names, every name of depth <= 2 and
# every child of a registrable name (= the Names of the trace specification)
TRACE_NAMES = sorted(set(N12) | set(all_names(["a", "b", "c", "x"], 2))
                     | {p + (b,) for p in N12 if len(p) < 3 for b in "abcx"}, key=lambda p: (len(p), p))


def random_history(rnd, length):
    """a history that is not derived from the model."""
    ids = rnd.sample(["C0", "C1", "C2", "C3"], rnd.choice([2, 2, 3]))
    pool = []
    for _ in range(rnd.choice([2, 3, 4])):
        skip = ()
        if rnd.random() < 0.35:
            skip = tuple(sorted(rnd.sample(N12, rnd.choice([1, 1, 2]))))
        pool.append((rnd.choice(ids), rnd.random() < 0.25, skip))
    hist, depth = [], 0
    for _ in range(length):
        c = BAD if rnd.random() < 0.06 else rnd.choice(pool)
        r = rnd.random()
        if r < 0.38:
            hist.append(("pkgs", tuple(rnd.choice(N12) for _ in range(rnd.choice([1, 1, 1, 2, 3]))), c))
        elif r < 0.48:
            hist.append(("this", (rnd.choice(N12),), c))
        elif r < 0.58:
            hist.append(("all", (), c))
        elif r < 0.63:
            hist.append(("badname", (), c if c != BAD else pool[0]))
        elif r < 0.82 and depth < 4:
            hist.append(("enter", (), c))
            depth += c != BAD
        elif depth > 0:
            hist.append(("exit", (), NONE))
            depth -= 1
        else:
            hist.append(("pkgs", (rnd.choice(N12),), c))
    while depth:
        hist.append(("exit", (), NONE))
        depth -= 1
    return hist


def _record_histories(item):
    """child: run histories, return per history the list of events (real observations)."""
    seed, hists = item
    cat = Cat(seed)
    real = Real(cat)
    out = []
    for hist in hists:
        real.reset()
        evs, roots = [], []
        for i, call in enumerate(hist):
            before = real.snapshot()
            exc = real.call(call, random.Random(seed * 7919 + i).randrange(1 << 16))
            proj, hooks, fresh = real.observe(TRACE_NAMES)
            after = real.snapshot()
            ev = {"call": call, "exc": exc, "proj": proj, "hooks": hooks, "root": fresh,
                  "changed": snap_diff(before, after)}
            if call[0] == "enter" and exc == "none":
                roots.append((before[1] if before else None, call[2]))
            if call[0] == "exit" and roots:
                saved, c = roots.pop()
                ev["root_restored"] = (after[1] == saved) if after else None
                ev["block_prehk"] = c[1]
            evs.append(ev)
        out.append(evs)
    real.reset()
    return out


EV = {"pkgs": "Pkgs", "this": "This", "all": "All", "enter": "Enter", "exit": "Exit", "badname": "BadName"}


def write_trace(path, recorded):
    """recorded: list of (tid, events).  Returns {line number: (tid, index in history)}."""
    confs, cidx = [NONE], {NONE: 1}

    def ci(c):
        if c not in cidx:
            confs.append(c)
            cidx[c] = len(confs)
        return cidx[c]

    lines, where = [], {}
    for tid, evs in recorded:
        lines.append({"ev": "Reset", "tid": tid})
        for j, ev in enumerate(evs):
            op, ps, c = ev["call"]
            e = {"ev": EV[op], "ps": [list(p) for p in ps], "c": ci(c),
                 "out": ev["exc"] if ev["exc"] in ("none", PUBLIC_EXC) else "other",
                 "hook": ev["hooks"] >= 1, "root": ci(ev["root"]), "proj": [ci(x) for x in ev["proj"]]}
            lines.append(e)
            where[len(lines) + 1] = (tid, j)         # +1: the header is line 1
    lines.append({"ev": "Reset", "tid": 0})             # the log ends with a Reset
    nr = None
    for i in range(len(lines) - 1, -1, -1):             # position (1-based, header = 1) of the closing Reset
        if lines[i]["ev"] == "Reset":
            nr = i + 2
        else:
            lines[i]["nr"] = nr
    header = {"ev": "Header", "names": [list(p) for p in TRACE_NAMES],
              "confs": [{"id": c[0], "hk": c[1], "skip": [list(p) for p in c[2]]} for c in confs]}
    with open(path, "w") as fh:
        fh.write(json.dumps(header) + "\n")
        for e in lines:
            fh.write(json.dumps(e) + "\n")
    return where


def classify_event(hist, j, ev):
    """canonical key for a recorded event that ClawRegistryTrace.tla cannot explain."""
    call = hist[j]
    api = api_name(call)
    raised = ev["exc"] != "none"
    if ev["exc"] not in ("none", PUBLIC_EXC):
        return [({"clause": "outcome", "api": api, "want": "none or " + PUBLIC_EXC, "got": ev["exc"].split(":")[0]},
                 f"{api} leaks {ev['exc']}")]
    if ev["hooks"] > 1:
        return [({"clause": "hook", "api": api, "got": ev["hooks"], "want": True},
                 f"{ev['hooks']} beartype path hooks in sys.path_hooks after {api}")]
    if raised and ev["changed"]:
        cause = "invalid" if (call[2] == BAD or call[0] == "badname") else "conflict"
        return [({"clause": "failed-call-atomic", "api": api, "cause": cause, "changed": part},
                 f"{api} raises ({cause}) but changes the {part} of the registry") for part in ev["changed"]]
    if call[0] == "exit":
        sym = "root-not-restored" if ev.get("root_restored") is False else "state-differs"
        return [({"clause": "exit-restores", "api": api, "symptom": sym, "block_conf_prehookable": ev.get("block_prehk")},
                 f"leaving a beartyping() block does not restore the preceding state ({sym})")]
    return [({"clause": "trace", "api": api, "outcome": ev["exc"]},
             f"{api} -> {ev['exc']}: outcome / lookups / hook not explained by ClawRegistry.tla")]


def record_traces(d, seed, count, length, batch=400):
    """run the random histories on the real code (forked children), write one ndjson file per
    batch; returns the TLC jobs and what is needed to judge their results."""
    rnd = random.Random(seed)
    hists = [random_history(rnd, rnd.randrange(length // 2, length + 1)) for _ in range(count)]
    nproc = 8
    shards = [hists[i::nproc] for i in range(nproc)]
    rec_shards = fork_map(_record_histories, [(seed, sh) for sh in shards if sh], procs=nproc, chunksize=1)
    recorded = [None] * count
    for k, evs_list in enumerate(rec_shards):
        for m, evs in enumerate(evs_list):
            recorded[k + m * nproc] = evs
    batches = []
    for b0 in range(0, count, batch):
        part = [(tid + 1, recorded[tid]) for tid in range(b0, min(count, b0 + batch))]
        # trace mutant: a copy of the first history of the batch with the hook flag of its first
        # event flipped must be rejected at that event
        mut = [dict(e) for e in part[0][1]]
        mut[0] = dict(mut[0], hooks=0 if mut[0]["hooks"] else 1)
        mut_tid = count + 1 + b0
        path = os.path.join(d, f"claw_trace_{b0}.ndjson")
        where = write_trace(path, part + [(mut_tid, mut)])
        batches.append({"b0": b0, "part": part, "mut_tid": mut_tid, "where": where, "path": path})
    return {"hists": hists, "batches": batches, "count": count, "seed": seed}


def trace_jobs(rec):
    return [("trace/ClawRegistryTrace.tla", "trace/ClawRegistryTrace.cfg",
             dict(workers=1, env={"TRACE_FILE": b["path"]}, heap="4g")) for b in rec["batches"]]


def rejected_of(res, where):
    """{tid: index of the first unexplained event} from the rows ClawRegistryTrace.tla prints:
    {"done": tid, "ok": bool} at every Reset, {"at": position} wherever a history may be abandoned."""
    done_ok, furthest = set(), {}
    for row in res.printed:
        if not isinstance(row, dict):
            continue
        if "done" in row and row.get("ok"):
            done_ok.add(row["done"])
        elif "at" in row and row["at"] in where:
            tid, j = where[row["at"]]
            furthest[tid] = max(furthest.get(tid, -1), j)
    return {tid: j for tid, j in furthest.items() if tid not in done_ok}


def judge_traces(rep, rec, results):
    hists, count, seed = rec["hists"], rec["count"], rec["seed"]
    accepted = nev = 0
    ops_seen = set()
    for b, res in zip(rec["batches"], results):
        rep.tlc(res, f"ClawRegistryTrace batch {b['b0']}")
        if res.violated and res.violated != "postcondition":
            rep.machinery(f"ClawRegistryTrace: {res.violated} violated on an accepted prefix: the specification of the "
                          f"intended design contradicts itself\n{res.output[-1500:]}")
        if res.violated == "postcondition":
            rep.machinery("ClawRegistryTrace did not consume the whole log:\n" + res.output[-1500:])
        rejected = rejected_of(res, b["where"])
        if rejected.get(b["mut_tid"]) != 0:
            rep.machinery("trace mutant (hook flag of one event flipped) was not rejected at that event: "
                          "ClawRegistryTrace.tla does not bind")
        rep.add("trace_mutants_rejected")
        for tid, evs in b["part"]:
            nev += len(evs)
            for e in evs:
                ops_seen.add((e["call"][0], e["exc"] == "none"))
            hist = hists[tid - 1]
            upto = rejected.get(tid, len(evs) - 1)
            breaches = [i for i in range(upto + 1) if evs[i]["exc"] != "none" and evs[i]["changed"]]
            for i in breaches:
                # "raises ... and leaves the registry as it was": judged on the real registry itself
                for key, summary in classify_event(hist, i, evs[i]):
                    rep.violation(key, f"{summary}.  Recorded history (seed {seed}, #{tid}), event {i + 1}: ... "
                                  f"{fmt_hist(hist[max(0, i - 3):i + 1])}",
                                  {"kind": "history", "history": [list(c) for c in hist[:i + 1]], "seed": seed,
                                   "origin": "random history, registry compared before/after the raising call", "event": i})
            if tid in rejected:
                j = rejected[tid]
                keys = classify_event(hist, j, evs[j])
                indefinite = keys[0][0]["clause"] == "trace" or keys[0][0].get("symptom") == "state-differs"
                if indefinite and any(i < j for i in breaches):
                    # the lookups diverge only now, but because of the registry change of an earlier raising call
                    rep.add("trace_rejections_explained_by_earlier_atomicity_breach")
                    keys = []
                for key, summary in keys:
                    rep.violation(key, f"{summary}.  Recorded history (seed {seed}, #{tid}) is not a behaviour of "
                                  f"ClawRegistry.tla from event {j + 1}: ... {fmt_hist(hist[max(0, j - 3):j + 1])}",
                                  {"kind": "history", "history": [list(c) for c in hist[:j + 1]], "seed": seed,
                                   "origin": "random history, ClawRegistryTrace.tla", "event": j})
                rep.count(j)
            else:
                accepted += 1
                rep.count(len(evs))
                rep.nontrivial(f"trace:{tid}")
    need = {(o, ok) for o in ("pkgs", "this", "all", "enter") for ok in (True, False)} | {("exit", True), ("badname", False)}
    if need - ops_seen:
        rep.machinery(f"random histories never exercised {sorted(need - ops_seen)}")
    rep.add("trace_events", nev)
    rep.add("random_histories", count)
    rep.add("random_histories_accepted", accepted)
    rep.add("traces_validated_against_impl", accepted)
    rep.sample({"random_history": fmt_hist(hists[0][:8]) + " ; ..."})


# ====================================================================== E2E: real imports under the hook
PKG_INIT = '''import {ctl} as _ctl
if _ctl.want_this == __name__:
    from beartype.claw import beartype_this_package
    try:
        beartype_this_package(conf=_ctl.conf)
        _ctl.result = "none"
    except Exception as _ex:
        _ctl.result = type(_ex).__name__
def f(x: int) -> int:
    return 0
'''


def _e2e_case(item):
    """child: generate packages, run the history (This = importing a package whose __init__
    calls beartype_this_package), import every module, call f('not an int')."""
    import types
    import warnings
    warnings.simplefilter("ignore")
    k, root, names, hist, seed = item
    prefix = f"c06e{k}x"
    cat = Cat(seed, prefix=prefix)
    real = Real(cat)
    from beartype.roar import BeartypeCallHintParamViolation
    ctl = types.ModuleType(prefix + "ctl")
    ctl.want_this, ctl.conf, ctl.result = None, None, None
    sys.modules[prefix + "ctl"] = ctl
    d = os.path.join(root, f"case{k}")
    for p in names:
        if p[0] == "x":
            continue
        pd = os.path.join(d, *[cat.base[b] for b in p])
        os.makedirs(pd, exist_ok=True)
        with open(os.path.join(pd, "__init__.py"), "w") as fh:
            fh.write(PKG_INIT.format(ctl=prefix + "ctl"))
    sys.path.insert(0, d)
    importlib.invalidate_caches()
    imported_at = {}          # name -> step index at whose *pre*-state it was imported

    def imp(p, step):
        for n in range(1, len(p) + 1):
            q = p[:n]
            if q not in imported_at:
                imported_at[q] = step
        return importlib.import_module(cat.name(p))

    outs = []
    real.reset()
    for i, call in enumerate(hist):
        call = (call[0], tuple(tuple(p) for p in call[1]), tuple(call[2][:2]) + (tuple(tuple(p) for p in call[2][2]),))
        if call[0] == "this" and call[1][0] not in imported_at and call[1][0][0] != "x":
            ctl.want_this, ctl.conf, ctl.result = cat.name(call[1][0]), cat.conf(call[2]), None
            try:
                imp(call[1][0], i)
                outs.append(ctl.result)
            except Exception as ex:       # noqa
                outs.append("!" + type(ex).__name__ + ":" + str(ex)[:100])
            ctl.want_this = None
        else:
            outs.append(real.call(call, 0))
    verdict = {}
    for p in names:
        if p[0] == "x":
            continue
        try:
            mod = imp(p, len(hist))
        except Exception as ex:       # noqa
            verdict[dotted(p)] = ("!import " + type(ex).__name__ + ":" + str(ex)[:100], imported_at.get(p))
            continue
        try:
            mod.f("not an int")
            v = "unchecked"
        except BeartypeCallHintParamViolation:
            v = "C0/C3"
        except cat.ErrA:
            v = "C1"
        except cat.ErrB:
            v = "C2"
        except Exception as ex:       # noqa
            v = "!" + type(ex).__name__
        verdict[dotted(p)] = (v, imported_at[p])
    real.reset()
    sys.path.remove(d)
    return {"outs": outs, "verdict": verdict}


def e2e(rep, d, cases, label, seed):
    """cases from _e2e_paths; expectations = the lookups of the specification state in which
    each module was imported."""
    names = sorted({tuple(n.split(".")) for n in cases[0]["ids"][0]}, key=lambda p: (len(p), p)) if cases else []
    items = [(f"{label}{k}", d, names, [list(c) for c in case["hist"]], seed) for k, case in enumerate(cases)]
    results = fork_map(_e2e_case, items, procs=16, chunksize=1)
    nthis = 0
    idof = {"C0": "C0/C3", "C3": "C0/C3", "C1": "C1", "C2": "C2", "none": "unchecked"}
    for case, r in zip(cases, results):
        hist = case["hist"]
        for i, o in enumerate(r["outs"]):
            rep.count()
            if o != "none":
                rep.violation({"clause": "e2e-outcome", "api": api_name(hist[i]), "got": str(o).split(":")[0]},
                              f"E2E: {fmt_call(hist[i])} made from a generated package on disk ended with {o}; "
                              f"history {fmt_hist(hist[:i + 1])}",
                              {"kind": "e2e", "history": [list(c) for c in hist[:i + 1]], "seed": seed})
            nthis += hist[i][0] == "this"
        for n, (v, step) in r["verdict"].items():
            rep.count()
            want = idof[case["ids"][step][n]]
            if v != want:
                rep.violation({"clause": "e2e-typechecked", "want": want, "got": v.split(":")[0]},
                              f"E2E: module '{n}' imported after {fmt_hist(hist[:step])} is really type-checked as "
                              f"'{v}' but ClawRegistry.tla says '{want}'",
                              {"kind": "e2e", "history": [list(c) for c in hist], "module": n, "seed": seed})
            elif want != "unchecked":
                rep.nontrivial(f"e2e:{label}:{n}:{want}:{len(hist)}")
    rep.add("e2e_cases", len(cases))
    rep.add("e2e_this_package_from_real_package_init", nthis)
    if cases and nthis == 0:
        rep.machinery("E2E: beartype_this_package was never called from a generated package __init__")


# ====================================================================== run
def _tlc_job(args):
    """run one TLC job; a big model-only job that does not finish within its timeout (machine
    under load) falls back to random simulation of the same model (DESIGN 2.2)."""
    spec, cfg, kw = args
    kw = dict(kw)
    fallback = kw.pop("fallback_simulate", None)
    try:
        return tlc.run_tlc(spec, cfg, **kw)
    except tlc.TLCMachineryError as ex:
        if fallback is None or "timed out" not in str(ex):
            raise
        res = tlc.run_tlc(spec, cfg, workers=kw.get("workers", 8), heap=kw.get("heap", "4g"),
                          simulate=f"num={fallback}", depth=20, seed=_SEED, timeout=900)
        m = re.search(r"number of states generated: (\d+)", res.output)
        if m and not res.generated:
            res.generated = int(m.group(1))
        res.cmd += "   # exhaustive run timed out, simulation instead"
        res.simulated = True
        return res


def _t(rep, t0, what):
    rep.cov.setdefault("phase_wall_s", {})[what] = round(time.time() - t0, 1)


def run(rep, tier, seed):
    global _SEED
    _SEED = seed
    t0 = time.time()
    rep.assumptions += [
        "abstract basenames a,b,c map to fresh package names, x to a member of BLACKLIST_PACKAGE_NAMES|{beartype}; "
        "abstract configurations to BeartypeConf objects by the catalogue in drivers/c06.py",
        "configurations are compared after make_conf_hookable (hk component), expected hookable configurations are "
        "built explicitly with warning_cls_on_decorator_exception=BeartypeClawDecorWarning",
        "claw_skip_package_names is read as a monotone process-global skip list: leaving a beartyping() block whose "
        "configuration carries a skip list is not required to un-skip those names",
        "beartyping() blocks are exited in LIFO order; single thread; python not run with -O",
        "'leaves the registry as it was' is judged on lookups, hook presence and the internal tries of claw_state",
        "package lists are passed as re-iterable containers (tuple, list, dict keys)",
    ]
    import beartype.claw  # noqa: F401  children fork with beartype loaded; the parent never calls into it
    from beartype.claw._clawstate import claw_state
    if claw_state.beartype_path_hook is not None:
        rep.machinery("a beartype path hook is installed in the driver process")
    quick = tier == "quick"
    replay_sets = ["A", "B", "S"] if quick else ["A", "B", "S", "C"]
    model_only = ["C"] if quick else ["D"]
    e2e_n = {"A": 48} if quick else {"A": 240, "S": 120}
    with scratch("c06-") as d:
        # ---------------- R3 part 1: record the random histories (real code, forked children)
        rec = record_traces(d, seed, 240 if quick else 3000, 44 if quick else 64)
        _t(rep, t0, "r3_recorded")
        # ---------------- R1 (+ the trace validation runs): all TLC jobs concurrently
        jobs, meta = [], []
        for kname in replay_sets:
            spec, cfg = gen_mc(d, f"MC_{kname}", K[kname])
            jobs.append((spec, cfg, dict(workers=4, coverage=True, dump_dot=os.path.join(d, f"g_{kname}"), heap="3g")))
            meta.append(("replay", kname))
        for kname in model_only:
            spec, cfg = gen_mc(d, f"MC_{kname}", K[kname])
            jobs.append((spec, cfg, dict(workers=4 if quick else 12, coverage=True, heap="3g" if quick else "8g",
                                         timeout=400 if quick else 700, fallback_simulate=1500)))
            meta.append(("model", kname))
        for j in trace_jobs(rec):
            jobs.append(j)
            meta.append(("trace", len(meta)))
        for sw in LEGACY_0230 + LEGACY_DESIGN:
            spec, cfg = gen_mc(d, f"MC_mut_{sw}", K["M"], legacy=[sw], checks=MUTANT_CLAUSE[sw])
            jobs.append((spec, cfg, dict(workers=1, heap="1g")))
            meta.append(("mutant", sw))
        spec, cfg = gen_mc(d, "MC_mut_0230", K["M"], legacy=LEGACY_0230)
        jobs.append((spec, cfg, dict(workers=1, heap="1g")))
        meta.append(("mutant", "0.23.0"))
        with concurrent.futures.ThreadPoolExecutor(max_workers=6) as ex:
            results = list(ex.map(_tlc_job, jobs))
        _t(rep, t0, "tlc")
        for (kind, name), res in zip(meta, results):
            if kind == "trace":
                continue
            rep.tlc(res, f"ClawRegistry {kind} {name}")
            if kind in ("replay", "model"):
                if res.violated:
                    rep.machinery(f"ClawRegistry.tla (intended design) violates {res.violated} for constants {name}: "
                                  f"the specification contradicts itself\n{res.output[-2000:]}")
                if getattr(res, "simulated", False):
                    rep.note(f"exhaustive TLC run of constants {name} did not finish in time (machine load); replaced by "
                             f"random simulation of the same model ({res.generated} states generated)")
                    continue
                cov = coverage_of(res)
                zero = [a for a in ("Pkgs", "This", "BadName", "All", "Enter", "Exit") if cov.get(a, (0, 0))[1] == 0]
                if zero:
                    rep.machinery(f"vacuous TLC run ({name}): actions never taken: {zero}")
            else:
                if not res.violated:
                    rep.machinery(f"spec mutant Legacy={{{name}}} is not rejected by {MUTANT_CLAUSE.get(name, 'any clause')}: "
                                  f"the model is vacuous")
                rep.add("spec_mutants_killed")
        # ---------------- R2: counterexamples of the 0.23.0 switches first
        for (kind, name), res in zip(meta, results):
            if kind == "mutant" and name in LEGACY_0230:
                replay_counterexample(rep, name, res, K["M"])
        # ---------------- R2: every edge.  Phase 1 (one child per graph): parse, reach every state
        preps = fork_map(_prepare, [(os.path.join(d, f"g_{n}.dot"), n, seed, os.path.join(d, f"g_{n}.pk"), e2e_n.get(n, 0))
                                    for n in replay_sets], procs=len(replay_sets), chunksize=1)
        _t(rep, t0, "r2_phase1")
        for prep in preps:
            if "fatal" in prep:
                rep.machinery(f"R2: {prep['fatal']}")
            seen = {tuple(x) for x in prep["seen"]}
            want = {("pkgs", "ok"), ("pkgs", "conflict"), ("pkgs", "invalid"), ("this", "conflict"), ("all", "conflict"),
                    ("enter", "ok"), ("enter", "invalid"), ("exit", "ok"), ("badname", "invalid")}
            if want - seen or not prep["noop"]:
                rep.machinery(f"graph {prep['label']}: clauses never exercised: {sorted(want - seen)} "
                              f"re-registration={prep['noop']}")
        for prep in preps:
            replay_graph(rep, prep, os.path.join(d, f"g_{prep['label']}.pk"), prep["label"], seed)
        _t(rep, t0, "r2")
        # ---------------- E2E
        for prep in preps:
            if prep["e2e"]:
                e2e(rep, d, prep["e2e"], prep["label"], seed)
        _t(rep, t0, "e2e")
        # ---------------- R3 part 2
        judge_traces(rep, rec, [r for (kind, _), r in zip(meta, results) if kind == "trace"])
    rep.cov["exhaustive"] = False
    rep.cov["constants"] = {k: {kk: (vv if not isinstance(vv, list) else len(vv)) for kk, vv in K[k].items()}
                            for k in replay_sets + model_only}


# ====================================================================== replay of one reported case
def replay(rep, path):
    body = json.load(open(path))
    case = body["case"]
    import beartype.claw  # noqa: F401
    hist = [(c[0], tuple(tuple(p) for p in c[1]), (c[2][0], bool(c[2][1]), tuple(tuple(p) for p in c[2][2])))
            for c in case["history"]]
    seed = int(case.get("seed", 0))
    global _SEED
    _SEED = seed
    evs = fork_map(_record_histories, [(seed, [hist])], procs=1)[0][0]
    with scratch("c06r-") as d:
        p = os.path.join(d, "t.ndjson")
        where = write_trace(p, [(1, evs)])
        res = tlc.run_tlc("trace/ClawRegistryTrace.tla", "trace/ClawRegistryTrace.cfg", workers=1, env={"TRACE_FILE": p})
        rep.tlc(res, "replay")
    rej = sorted(rejected_of(res, where).values())
    for j, (c, e) in enumerate(zip(hist, evs)):
        shown = {dotted(n): fmt_conf(x) for n, x in zip(TRACE_NAMES, e["proj"]) if x != NONE and len(n) <= 2}
        print(f"  {j + 1:2d}. {fmt_call(c)} -> {e['exc']}; hooks={e['hooks']}; beartype_all conf={fmt_conf(e['root'])}; "
              f"changed={e['changed']}; lookups={shown}")
        rep.count()
    if rej:
        j = rej[0]
        print(f"  => event {j + 1} is not explained by ClawRegistry.tla (intended design)")
        for key, summary in classify_event(hist, j, evs[j]):
            rep.violation(key, summary + ".  " + fmt_hist(hist[:j + 1]), case)
    else:
        print("  => the history is a behaviour of ClawRegistry.tla: the reported violation no longer reproduces")
    rep.nontrivial("replay")
    rep.nontrivial("replay2")
    rep.sample({"replayed": fmt_hist(hist)})
    rep.add("traces_validated_against_impl", 0 if rej else 1)
