"""C15 -- the public API is safe to use from many threads under every interleaving.

R1  TLC checks spec/Threads.tla: 2 threads x 2 operations x all operation kinds, 3 threads for
    pool and configuration operations, -simulate beyond; P1 exclusive scratch state, P2
    singletons, P3 linearisability (+ memo values, process-global state), P4 deadlock freedom,
    no lost registration, lock order.  Six wrong designs (NoPoolLock, NoConfLock,
    LockNotReentrant, FillBeforeProbe, NoClawLock, ReleaseEarly) must each be rejected.
B2  TLC-generated schedules (-simulate behaviours of the faithful model and the counter-examples
    of the mutant / legacy configurations) are replayed on the real code at the model's
    granularity by the deterministic scheduler of verifkit/sched.py ("run thread t to its next
    visible event"); the real event kinds and the real results must be the model's.
B3  below the model's granularity: bounded-preemption DFS at every line boundary of beartype code
    and PCT / random schedules over 2-3 threads running the same operation mixes; every
    execution is judged against the sequential outcomes TLC computes for its mix
    (Threads!SeqOutcomesOf) and its log is validated by spec/trace/ThreadsTrace.tla; the
    sequential outcomes are also measured on the real code, one fresh fork per order.
"""
from __future__ import annotations

import gc
import itertools
import json
import os
import random
import sys
import time
import warnings

from verifkit import sched, tlc
from verifkit.util import ForkPool, scratch, write_file

LEVEL = "model_checking"
# several JVMs run side by side with the forked schedule batches: keep their helper threads few
JENV = {"JAVA_TOOL_OPTIONS": "-XX:ParallelGCThreads=2 -XX:CICompilerCount=2"}

OPS = ["Conf_ka", "Conf_ka2", "Conf_kb", "TH_A", "TH_NA", "TH_NB", "Bear_LA", "Bear_LB", "Dec_LA_D", "Dec_LB_D",
       "Dec_LA_C1", "Hook_pa_C1", "Hook_pa_C2", "Hook_pb_C1", "Look_pa", "Look_pb"]
OPDEF = {"Conf_ka": ("Conf", "ka", ""), "Conf_ka2": ("Conf", "ka2", ""), "Conf_kb": ("Conf", "kb", ""),
         "TH_A": ("TH", "A", ""), "TH_NA": ("TH", "NA", ""), "TH_NB": ("TH", "NB", ""),
         "Bear_LA": ("Bear", "LA", ""), "Bear_LB": ("Bear", "LB", ""),
         "Dec_LA_D": ("Dec", "LA", "D"), "Dec_LB_D": ("Dec", "LB", "D"), "Dec_LA_C1": ("Dec", "LA", "C1"),
         "Hook_pa_C1": ("Hook", "pa", "C1"), "Hook_pa_C2": ("Hook", "pa", "C2"), "Hook_pb_C1": ("Hook", "pb", "C1"),
         "Look_pa": ("Look", "pa", ""), "Look_pb": ("Look", "pb", "")}
SAN = {"ka": "sa", "ka2": "sa", "kb": "sb"}
RESKIND = {"Conf": "conf", "TH": "th", "Bear": "code", "Dec": "code", "Hook": "hook", "Look": "look"}

# model label -> the visible real event a thread parked before it is about to perform
# (None: the step is silent at the granularity of the instrumentation)
LABEL_EVENT = {
    "C_acq": ("acq", "conf"), "C_probe": ("access", ("conf", "probe")), "C_probe2": ("access", ("conf", "probe")),
    "C_fillold": ("access", ("conf", "fill")), "C_fill1": ("access", ("conf", "fill")),
    "C_fill2": ("access", ("conf", "fill")), "C_rel": ("rel", "conf"),
    "T_acq": ("acq", "th"), "T_probe": ("access", ("th", "probe")), "T_fill": ("access", ("th", "fill")),
    "T_rel": ("rel", "th"),
    "PA_acq": ("acq", "pool"), "PA_test": ("access", ("ipool", "test")), "PA_pop": ("access", ("ipool", "pop")),
    "PA_rel": ("rel", "pool"), "PR_acq": ("acq", "pool"), "PR_push": ("access", ("ipool", "push")),
    "PR_rel": ("rel", "pool"),
    "G_probe": ("access", ("expr", "probe")), "G_fill0": ("access", ("expr", "fill")),
    "G_fill": ("access", ("expr", "fill")),
    "B_tprobe": ("access", ("tester", "probe")), "B_tfill": ("access", ("tester", "fill")),
    "B_wenter": ("access", ("warn", "enter")), "B_wexit": ("access", ("warn", "exit")),
    "D_dprobe": ("access", ("decor", "probe")), "D_dfill": ("access", ("decor", "fill")),
    "D_wenter": ("access", ("warn", "enter")), "D_wexit": ("access", ("warn", "exit")),
    "H_acq": ("acq", "claw"), "H_rel": ("rel", "claw"), "L_acq": ("acq", "claw"), "L_rel": ("rel", "claw"),
}
SILENT = {"inv", "res", "init", "C_init", "C_sret", "C_ret", "T_sret", "T_ret", "PA_make", "G_bfs1", "G_bfs2", "G_ret",
          "B_ret", "D_init", "D_gen", "D_post", "D_ret", "H_gettop", "H_newtop", "H_getleaf", "H_newleaf", "H_check",
          "H_write", "H_ret", "L_read", "L_ret"}
MODEL_TABLES = {"conf", "th", "ipool", "expr", "tester", "decor", "warn"}


# =============================================================================== the laboratory
class Lab:
    """Process-wide instrumentation of beartype (created once, after sched.install())."""

    def __init__(self):
        import collections
        import beartype
        from beartype import BeartypeConf, beartype as bt
        from beartype.door import TypeHint, is_bearable
        from beartype.claw import beartype_package
        from beartype.roar import BeartypeClawHookException, BeartypeCallHintParamViolation, BeartypeDoorHintViolation
        self.BeartypeConf, self.bt, self.TypeHint, self.is_bearable = BeartypeConf, bt, TypeHint, is_bearable
        self.beartype_package = beartype_package
        self.HookExc, self.ParamViolation, self.DoorViolation = (BeartypeClawHookException,
                                                                  BeartypeCallHintParamViolation,
                                                                  BeartypeDoorHintViolation)
        self.notes = []
        self.lockname = {}        # lid -> model lock name
        self.tables = set()
        # ---- which real lock is which model lock (by the object that owns it)
        def bind_lock(name, getter):
            try:
                lk = getter()
                if isinstance(lk, sched.CoopLock):
                    self.lockname[lk.lid] = name
                    return
                self.notes.append(f"lock {name}: not a cooperative lock ({type(lk).__name__})")
            except Exception as ex:          # noqa
                self.notes.append(f"lock {name}: {type(ex).__name__}: {ex}")

        import importlib
        imp = importlib.import_module
        bind_lock("conf", lambda: imp("beartype._conf.confmain")._beartype_conf_lock)
        bind_lock("pool", lambda: imp("beartype._util.cache.pool.utilcachepoolinstance")._instance_pool._thread_lock)
        bind_lock("th", lambda: imp("beartype.door._cls.doormeta")._HINT_TO_WRAPPER._lock)
        bind_lock("claw", lambda: imp("beartype.claw._clawstate").claw_lock)
        # ---- probed containers (tolerant: a missing name only coarsens the granularity of B2)
        def rec_global(modname, attr, tag):
            try:
                mod = imp(modname)
                d = sched.rec_dict_class(tag)(getattr(mod, attr))
                setattr(mod, attr, d)
                if hasattr(mod, attr + "_get"):
                    setattr(mod, attr + "_get", d.get)
                self.tables.add(tag)
            except Exception as ex:          # noqa
                self.notes.append(f"table {tag}: {type(ex).__name__}: {ex}")

        rec_global("beartype._conf.confmain", "_beartype_conf_args_to_conf", "conf")
        rec_global("beartype._decor.decorcache", "_bear_conf_to_decor", "decor")
        rec_global("beartype._check.code.codemain", "_HINT_CONF_TO_CHECK_EXPR", "expr")
        rec_global("beartype.door._func.doorfunc", "_HINT_CONF_EXCEPTION_PREFIX_TO_FUNC_TESTER", "tester")
        try:
            c = imp("beartype.door._cls.doormeta")._HINT_TO_WRAPPER
            d = sched.rec_dict_class("th")(c._key_to_value)
            c._key_to_value, c._key_to_value_get, c._key_to_value_set = d, d.get, d.__setitem__
            self.tables.add("th")
        except Exception as ex:              # noqa
            self.notes.append(f"table th: {type(ex).__name__}: {ex}")
        for tag, modname, attr in (("ipool", "beartype._util.cache.pool.utilcachepoolinstance", "_instance_pool"),
                                   ("fpool", "beartype._util.cache.pool.utilcachepoollistfixed", "_fixed_list_pool")):
            try:
                pool = getattr(imp(modname), attr)
                cls = type("RecList_" + tag, (sched.RecList,), {"_rec_name": tag})
                nd = collections.defaultdict(cls)
                for k, v in pool._key_to_pool.items():
                    nd[k] = cls(v)
                pool._key_to_pool = nd
                self.tables.add(tag)
            except Exception as ex:          # noqa
                self.notes.append(f"table {tag}: {type(ex).__name__}: {ex}")
        # ---- warnings.catch_warnings: enter / exit are visible events (stdlib, patched in this process only)
        cw = warnings.catch_warnings
        if not getattr(cw, "_c15_patched", False):
            enter0, exit0 = cw.__enter__, cw.__exit__

            def __enter__(self_):
                run, ts = sched._visible("warn", "enter", None)
                r = enter0(self_)
                if run is not None:
                    run.log(ts, "WEnter")
                return r

            def __exit__(self_, *a):
                run, ts = sched._visible("warn", "exit", None)
                r = exit0(self_, *a)
                if run is not None:
                    run.log(ts, "WExit")
                return r

            cw.__enter__, cw.__exit__, cw._c15_patched = __enter__, __exit__, True
        self.tables.add("warn")
        # ---- pool hooks for the trace function (acquire returns the item, release receives it)
        def pool_acq_ret(run, ts, frame, arg):
            if arg is not None:
                run.log(ts, "PAcq", pool=sched.oid(frame.f_locals.get("self")), item=sched.oid(arg))

        def pool_rel_call(run, ts, frame, arg):
            loc = frame.f_locals
            run.log(ts, "PRel", pool=sched.oid(loc.get("self")), item=sched.oid(loc.get("item")))

        self.hooks = {("utilcachepool.py", "acquire"): (None, pool_acq_ret),
                      ("utilcachepool.py", "release"): (pool_rel_call, None)}
        from beartype.claw._package.clawpkgtrie import get_package_conf_or_none
        self.lookup = get_package_conf_or_none
        self.uid = 0
        self.wsnap = None

    # -- process-global state that every operation must leave as it found it
    def warn_snapshot(self):
        return (warnings.filters, warnings.showwarning, getattr(warnings, "_showwarnmsg_impl", None))

    def warn_restore(self, snap):
        warnings.filters, warnings.showwarning = snap[0], snap[1]
        if snap[2] is not None:
            warnings._showwarnmsg_impl = snap[2]
        if hasattr(warnings, "_filters_mutated"):
            warnings._filters_mutated()


LAB: Lab = None      # type: ignore


def lab() -> Lab:
    global LAB
    if LAB is None:
        if "beartype" not in sys.modules:
            info = sched.install()
            if info["failed"]:
                pass
        elif not sched.LOCKS:
            raise RuntimeError("beartype was imported before sched.install(): locks are not cooperative")
        LAB = Lab()
    return LAB


class World:
    """Fresh hints, configurations and package names for ONE execution (process-unique names)."""

    def __init__(self, lb: Lab, warm_hook: bool = True):
        from typing import Annotated
        lb.uid += 1
        u = self.u = f"{os.getpid()}x{lb.uid}"
        self.lb = lb
        self.A = type(f"A{u}", (), {})
        self.B = type(f"B{u}", (), {})
        self.hint = {"A": self.A, "B": self.B, "LA": list[self.A], "LB": list[self.B],
                     "NA": Annotated[self.A, "m"], "NB": Annotated[self.B, "m"]}
        self.good = {"LA": [self.A()], "LB": [self.B()]}
        E1 = type(f"E1{u}", (Exception,), {})
        E2 = type(f"E2{u}", (Exception,), {})
        self.kw = {"ka": [("is_pep484_tower", True), ("claw_skip_package_names", (f"zz{u}",))],
                   "ka2": [("claw_skip_package_names", (f"zz{u}",)), ("is_pep484_tower", True),
                           ("violation_door_type", lb.DoorViolation)],
                   "kb": [("claw_skip_package_names", (f"zy{u}",))]}
        self.conf = {"D": None, "C1": lb.BeartypeConf(violation_param_type=E1),
                     "C2": lb.BeartypeConf(violation_param_type=E2)}
        self.pkg = {"pa": f"p{u}.a", "pb": f"p{u}.b"}
        self.hooked = {}
        if warm_hook:      # make_conf_hookable(C1/C2) is memoised by the BeartypeConf table: warm it
            for c in ("C1", "C2"):
                lb.beartype_package(f"w{u}{c}", conf=self.conf[c])
                self.hooked[c] = lb.lookup(f"w{u}{c}")
        self.post = []

    # -- one public-API operation; returns [kind, id, string]
    def perform(self, name: str, th: int):
        lb = self.lb
        k, a, b = OPDEF[name]
        try:
            if k == "Conf":
                kw = self.kw[a]
                if th % 2 == 0:
                    kw = list(reversed(kw))          # equal keyword arguments in a different order
                c = lb.BeartypeConf(**dict(kw))
                return ["conf", sched.oid(c), self._conf_ok(c)]
            if k == "TH":
                w = lb.TypeHint(self.hint[a])
                return ["th", sched.oid(w), ""]
            if k == "Bear":
                v = lb.is_bearable(self.good[a], self.hint[a])
                out = ["code", 0, "?"]
                self.post.append(lambda: self._finish_bear(out, a, v))
                return out
            if k == "Dec":
                hint = self.hint[a]

                def f(x):
                    return 7
                f.__annotations__ = {"x": hint}
                f.__qualname__ = f.__name__ = f"f{self.u}_{th}"
                g = lb.bt(f) if b == "D" else lb.bt(conf=self.conf[b])(f)
                out = ["code", 0, "?"]
                self.post.append(lambda: self._finish_dec(out, g, b))
                return out
            if k == "Hook":
                try:
                    lb.beartype_package(self.pkg[a], conf=self.conf[b])
                    return ["hook", 0, "ok"]
                except lb.HookExc:
                    return ["hook", 0, "exc"]
            if k == "Look":
                return ["look", 0, self._conf_name(lb.lookup(self.pkg[a] + ".m"))]
        except BaseException as ex:            # noqa: an exception no single thread could have obtained
            import traceback
            tb = [fr for fr in traceback.extract_tb(ex.__traceback__) if os.sep + "beartype" + os.sep in fr.filename]
            where = "; ".join(f"{os.path.basename(fr.filename)}:{fr.lineno}" for fr in tb[-3:])
            return ["exc", 0, f"{type(ex).__name__}: {str(ex)[:160]} @ {where}"]
        raise KeyError(name)

    def _conf_ok(self, c):
        try:
            repr(c), hash(c), c.is_debug, c.strategy, c.violation_door_type, c.claw_skip_package_names
            c._is_violation_door_warn, c._is_warning_cls_on_decorator_exception_set
            return "ok"
        except BaseException:                  # noqa
            return "uninit"

    def _conf_name(self, c):
        if c is None:
            return "none"
        for n, h in self.hooked.items():
            if c is h:
                return n
        return "?" + repr(c)[:60]

    def _finish_bear(self, out, a, v):
        lb = self.lb
        try:
            acc = {h: lb.is_bearable(self.good[h], self.hint[a]) for h in ("LA", "LB")}
        except BaseException as ex:            # noqa
            out[2] = f"?{type(ex).__name__}"
            return
        names = sorted(h for h in acc if acc[h])
        # the tester generated during the operation is memoised: it must behave as a check of hint a
        out[2] = names[0] if (v is True and len(names) == 1) else f"?first-call={v!r},accepts={names}"

    def _finish_dec(self, out, g, b):
        acc = []
        for h in ("LA", "LB"):
            try:
                if g(self.good[h]) == 7:
                    acc.append(h)
            except BaseException as ex:        # noqa
                if b == "D" and not isinstance(ex, self.lb.ParamViolation):
                    acc.append(f"?{type(ex).__name__}")
        out[2] = acc[0] if len(acc) == 1 else f"?{acc}"

    def final_registry(self):
        return {p: self._conf_name(self.lb.lookup(self.pkg[p] + ".m")) for p in ("pa", "pb")}


class SelfDeadlock(Exception):
    pass


def guarded(fn, what):
    """Run fn() in ONE scheduled thread: a self-deadlock on a cooperative lock (or an endless wait) is detected
    by the scheduler instead of hanging the harness.  Must not be called from inside a run."""
    box = {}

    def body(ts):
        box["v"] = fn()

    run = sched.Run([body], sched.NonPreemptive(), granularity="visible", log_locks=False).go()
    if not run.clean:
        raise SelfDeadlock(what, run.deadlock or run.aborted)
    if run.threads[0].exc is not None:
        raise run.threads[0].exc
    return box.get("v")


def _alarm(seconds=1800):
    """Backstop: a child that hangs nevertheless is killed (the parent then reports a machinery failure)."""
    import signal
    signal.alarm(seconds)


def canon_key(name):
    k, a, _ = OPDEF[name]
    return SAN.get(a, a) if k == "Conf" else a


def project(mix, results):
    """Result vector -> the shape of Threads!ProjRes (object ids named by the keys they were returned for)
    + the violated singleton clauses."""
    byid = {}
    bykey = {}
    for t, progr in enumerate(mix):
        for i, name in enumerate(progr):
            r = results[t][i]
            if r[0] in ("conf", "th"):
                byid.setdefault((r[0], r[1]), set()).add(canon_key(name))
                bykey.setdefault((r[0], canon_key(name)), set()).add(r[1])
    out = []
    for t, progr in enumerate(mix):
        row = []
        for i, name in enumerate(progr):
            r = results[t][i]
            if r[0] == "conf":
                ks = byid[(r[0], r[1])]
                row.append(["conf", (next(iter(ks)) if len(ks) == 1 else "shared-by-unequal-keys") if r[2] == "ok" else r[2]])
            elif r[0] == "th":
                ks = byid[(r[0], r[1])]
                row.append(["th", next(iter(ks)) if len(ks) == 1 else "shared-by-unequal-keys"])
            else:
                row.append([r[0], r[2]])
        out.append(row)
    dup = sorted(f"{k[0]}:{k[1]}" for k, ids in bykey.items() if len(ids) > 1)
    return out, dup


def execute(mix, policy, granularity="line", warm_hook=True, keep_events=True, max_steps=400_000):
    """Run the programs of ``mix`` (one per thread) under ``policy``; return the observation."""
    lb = lab()
    try:
        world = guarded(lambda: World(lb, warm_hook), "setup of the hints, configurations and package names")
    except SelfDeadlock as ex:
        dl = ex.args[1] if isinstance(ex.args[1], dict) else {"blocked": {1: None}, "owners": {}, "step": 0}
        return {"mix": [list(p) for p in mix], "steps": 0, "nswitch": 0, "deadlock": dict(dl, during=ex.args[0]), "aborted": None,
                "clean": False, "results": [], "warn_changed": [], "lock_order": [], "events": [], "switches": []}, None
    snap = lb.warn_snapshot()

    def mk(t, progr):
        def body(ts):
            for name in progr:
                run.log(ts, "Inv", op=name)
                r = world.perform(name, t)
                ts.results.append(r)
                run.log(ts, "Res", op=name, r=r)
        return body

    run = sched.Run([mk(t + 1, p) for t, p in enumerate(mix)], policy, granularity=granularity, hooks=lb.hooks,
                    max_steps=max_steps)
    gc_was = gc.isenabled()
    gc.disable()
    try:
        run.go()
    finally:
        if gc_was:
            gc.enable()
    obs = {"mix": [list(p) for p in mix], "steps": run.steps, "nswitch": len(run.switches), "deadlock": run.deadlock,
           "aborted": run.aborted, "clean": run.clean}
    after = lb.warn_snapshot()
    obs["warn_changed"] = [i for i in range(3) if snap[i] is not after[i]]
    if obs["warn_changed"]:
        lb.warn_restore(snap)
    if run.clean:
        try:
            guarded(lambda: [fn() for fn in world.post] and None, "use of the operations' results")
            obs["registry"] = guarded(world.final_registry, "final lookups")
        except SelfDeadlock as ex:
            obs["deadlock"] = dict(ex.args[1] if isinstance(ex.args[1], dict) else {"blocked": {1: None}, "owners": {}},
                                   during=ex.args[0])
            obs["clean"] = False
    if obs["clean"]:
        obs["results"] = [[list(r) for r in ts.results] for ts in run.threads]
        obs["thread_exc"] = [repr(ts.exc)[:200] if ts.exc is not None else None for ts in run.threads]
        obs["proj"], obs["dup"] = project(mix, obs["results"])
    else:
        obs["results"] = [[list(r) for r in ts.results] for ts in run.threads]
    obs["lock_order"] = sorted(run.order_edges)
    if keep_events:
        obs["events"] = run.events
    obs["switches"] = run.switches
    return obs, run


# =============================================================================== B2: model schedules
class Alphabet:
    """Only events of the model's alphabet are scheduling points (the other cooperative locks and
    probed containers of beartype are run through)."""

    def __init__(self, inner, lb: Lab):
        self.inner, self.lb = inner, lb

    def in_alpha(self, kind, info):
        if kind in ("acq", "rel"):
            return info in self.lb.lockname
        if kind == "access":
            return info[0] in MODEL_TABLES
        return False

    def choose(self, run, cur, enabled, kind, info):
        if cur is not None and cur in enabled and not self.in_alpha(kind, info):
            return cur
        return self.inner.choose(run, cur, enabled, kind, info)


def _match(lb: Lab):
    def match(label, pend):
        want = LABEL_EVENT.get(label)
        if want is None:
            return True
        kind, info = pend
        got = (kind, lb.lockname.get(info)) if kind in ("acq", "rel") else (kind, info)
        if got == want:
            return True
        if want[0] in ("acq", "rel") and got[0] not in ("acq", "rel"):
            return "model_extra"          # the model locks here, the code does not (e.g. a removed lock)
        if got[0] in ("acq", "rel") and want[0] not in ("acq", "rel"):
            return "real_extra"           # the code locks here, the model does not (e.g. a mutant configuration)
        return False
    return match


def beh_to_case(beh, warm_pool, origin):
    """A TLC behaviour [(action, state)] -> replayable case."""
    steps = []
    final = beh[-1][1]
    plen = max(len(p) for p in final["prog"]) if final["prog"] else 0
    for _, st in beh[1:]:
        la = st["last"]
        steps.append([la["t"], la["a"]])
        if st.get("fault", "none") != "none":
            final = st
            break
    mix = [list(p) for p in final["prog"]]
    done = (final.get("fault", "none") == "none" and all(len(s) == 0 for s in final["stk"])
            and all(len(r) == len(p) for r, p in zip(final["res"], mix)) and len({len(p) for p in mix}) == 1)
    while steps and steps[-1][1] == "init":
        steps.pop()
    res = [[[r["k"], r["n"], r["s"]] for r in rs] for rs in final["res"]]
    reg = None
    if done:
        reg = {p: (final["kids"][p] if final["top"] and final["kids"][p] not in ("", "none") else "none") for p in ("pa", "pb")}
    return {"origin": origin, "mix": mix, "steps": steps, "warm_pool": bool(warm_pool), "model_done": done,
            "model_res": res, "model_reg": reg, "model_fault": final.get("fault"), "model_wstate": final.get("wstate")}


def model_project(case):
    """Model results in the shape of project(): conf results carry (kind, id, 'ok'|'uninit'), th (kind, id, '')."""
    mix = case["mix"]
    res = [[[r[0], r[1], (r[2] if r[0] != "th" else "")] for r in rs] for rs in case["model_res"]]
    return project(mix, res)


def warm_up(lb: Lab):
    """A process that has decorated and checked before: every pool holds released items."""
    def go():
        w = World(lb, warm_hook=False)
        w.perform("Dec_LA_D", 1)
        w.perform("Bear_LB", 1)
        for fn in w.post:
            fn()
    guarded(go, "warm-up")


def replay_case(case):
    _alarm()
    """Child side: replay one model schedule at the model's granularity."""
    lb = lab()
    if case.get("warm_pool"):
        warm_up(lb)
    vis = [(t, a) for t, a in case["steps"] if a in LABEL_EVENT]
    pol = sched.ModelReplay(vis, match=_match(lb))
    obs, run = execute([tuple(p) for p in case["mix"]], Alphabet(pol, lb), granularity="visible", keep_events=True)
    obs["followed"], obs["skipped"], obs["mismatch"] = pol.followed, pol.skipped, [list(map(repr, m)) for m in pol.mismatch[:5]]
    obs["elided"], obs["extra"] = pol.elided, pol.extra
    obs["n_mismatch"] = len(pol.mismatch)
    obs["n_vis"] = len(vis)
    obs["unconsumed"] = len(vis) - pol.i
    ev = obs.pop("events")
    obs["visible_events"] = [_ev_name(lb, e) for e in ev if e["ev"] not in ("Inv", "Res", "PAcq", "PRel", "Block")]
    return obs


def _ev_name(lb, e):
    if e["ev"] in ("Acq", "Rel"):
        return f'{e["th"]}:{e["ev"]}({lb.lockname.get(e["lock"], "#%d" % e["lock"])})'
    if "tab" in e:
        return f'{e["th"]}:{e["ev"]}({e["tab"]})'
    return f'{e["th"]}:{e["ev"]}'


# =============================================================================== judging one execution
def kinds_of(mix):
    return sorted({OPDEF[n][0] for p in mix for n in p})


def judge(obs, expected):
    """Violations of one real execution.  ``expected`` = set of canonical JSON strings of the outcomes
    (projected result vector + final registry) TLC computed for the sequential orders of the mix."""
    out = []
    mix = obs["mix"]
    kinds = kinds_of(mix)
    if obs.get("deadlock"):
        dl = obs["deadlock"]
        lids = {x for x in dl.get("blocked", {}).values() if x} | {x for xs in dl.get("owners", {}).values() for x in xs}
        sites = sorted({"%s:%d" % sched.LOCKS[x - 1].site for x in lids if 0 < x <= len(sched.LOCKS)})
        out.append(({"class": "deadlock", "kinds": kinds, "locks": sites},
                    f"deadlock: threads blocked on locks {dl.get('blocked')} (owners {dl.get('owners')}, locks created at {sites})"
                    + (f" during {dl['during']}" if dl.get("during") else "")))
        return out
    if obs.get("aborted"):
        out.append(({"class": "harness_abort", "kinds": kinds}, obs["aborted"]))
        return out
    for t, rs in enumerate(obs["results"]):
        for i, r in enumerate(rs):
            if r[0] == "exc":
                site = r[2].split(" @ ")[-1].split("; ")[-1]
                out.append(({"class": "exception", "op_kind": OPDEF[mix[t][i]][0], "type": r[2].split(":")[0], "site": site},
                            f"operation {mix[t][i]} of thread {t + 1} raised {r[2]}"))
    if obs.get("thread_exc") and any(obs["thread_exc"]):
        out.append(({"class": "harness_thread_exception", "kinds": kinds}, str(obs["thread_exc"])))
    if obs.get("dup"):
        out.append(({"class": "singleton", "kinds": kinds, "keys": [d.split(":")[0] for d in obs["dup"]]},
                    f"equal arguments returned distinct objects: {obs['dup']} results={obs['results']}"))
    if not any(v[0]["class"] == "exception" for v in out):
        key = canon_outcome(obs["proj"], obs["registry"])
        if key not in expected:
            out.append(({"class": "not_linearisable", "kinds": kinds, "outcome": json.loads(key)},
                        f"result vector {obs['proj']} with final registry {obs['registry']} is not the outcome of any "
                        f"sequential order of {mix}"))
    if obs.get("warn_changed"):
        names = ["filters", "showwarning", "_showwarnmsg_impl"]
        out.append(({"class": "global_warnings_state", "ops_using_catch_warnings": warn_kinds(mix)},
                    f"after {mix} ran concurrently the warnings module was left with foreign "
                    f"{[names[i] for i in obs['warn_changed']]} (two catch_warnings() contexts exited in the wrong order); "
                    f"sequentially the state is always restored"))
    return out


def canon_outcome(proj, registry):
    return json.dumps({"v": [[list(r) for r in row] for row in proj], "rg": {k: registry[k] for k in sorted(registry)}},
                      sort_keys=True, separators=(",", ":"))


def flat_events(events, tid):
    """Events of one execution in the vocabulary of ThreadsTrace.tla."""
    out = [{"tid": tid, "th": 0, "ev": "Reset"}]
    for e in events:
        ev = e["ev"]
        if ev == "Acq":
            out.append({"tid": tid, "th": e["th"], "ev": "Acq", "lock": e["lock"], "re": e["re"]})
        elif ev == "Rel":
            out.append({"tid": tid, "th": e["th"], "ev": "Rel", "lock": e["lock"]})
        elif ev in ("PAcq", "PRel"):
            out.append({"tid": tid, "th": e["th"], "ev": ev, "item": e["item"]})
        elif ev == "Inv":
            out.append({"tid": tid, "th": e["th"], "ev": "Inv", "op": e["op"]})
        elif ev == "Res":
            r = e["r"]
            out.append({"tid": tid, "th": e["th"], "ev": "Res", "op": e["op"], "k": r[0], "n": r[1], "s": r[2][:60]})
    return out


# =============================================================================== B3: exploration (child side)
POOLFILES = {"utilcachepool.py", "utilcachepoolinstance.py", "utilcachepoollistfixed.py"}
HOT = {"utilcachepool.py", "utilcachepoolinstance.py", "utilcachepoollistfixed.py", "utilmapunbounded.py", "utilmaplru.py",
       "utilcachecall.py", "confmain.py", "doormeta.py", "decorcache.py", "clawpkgmain.py", "clawpkgtrie.py",
       "_clawstate.py", "checkmake.py", "_wrapargs.py", "_wrapreturn.py", "calldatadecorfunc.py", "doorfunc.py",
       "utilcacheobjattr.py", "acq", "rel", "access"}


def mkpolicy(spec, nthreads):
    k = spec["kind"]
    if k == "pre":
        return sched.NonPreemptive({(a, b): c for a, b, c in spec["pre"]}, first=spec.get("first", 1),
                                   record=bool(spec.get("record")))
    if k == "pct":
        return sched.PCT(random.Random(spec["seed"]), nthreads, spec["depth"], spec["est"])
    if k == "rand":
        return sched.RandomSwitch(random.Random(spec["seed"]), spec["p"])
    if k == "fixed":
        return sched.Fixed(spec["switches"])
    raise KeyError(k)


def plan_child(job):
    _alarm()
    """Base runs of one mix (one per first thread): the preemption points (and the verdict on the base runs)."""
    lb = lab()
    mix = [tuple(p) for p in job["mix"]]
    expected = set(job["expected"])
    warm_up(lb)
    pts = []
    for first in [0] + list(range(1, len(mix) + 1)):       # run 0 warms the memo paths shared between executions
        spec = {"kind": "pre", "first": max(first, 1), "pre": []}
        pol = sched.NonPreemptive(first=max(first, 1), record=True)
        obs, _ = execute(mix, pol, job.get("gran", "line"), keep_events=False)
        viol = [{"key": k, "what": w, "case": {"mix": job["mix"], "policy": spec, "gran": job.get("gran", "line"),
                                                "results": obs.get("results"), "registry": obs.get("registry")}}
                for k, w in judge(obs, expected)]
        if first or viol:
            pts.append({"first": max(first, 1), "points": pol.points, "steps": obs["steps"], "violations": viol,
                        "ok": obs["clean"] and not viol})
        if not obs["clean"]:
            break
    return pts


def explore_child(job):
    _alarm()
    """Run the cases of one chunk (same mix) in this process; judge each; return a compact summary."""
    lb = lab()
    mix = [tuple(p) for p in job["mix"]]
    expected = set(job["expected"])
    rng = random.Random(job["seed"])
    warm_up(lb)
    execute(mix, sched.NonPreemptive(), "line", keep_events=False)
    summary = {"n": 0, "steps": 0, "classes": {}, "violations": [], "logs": [], "tainted_at": None, "second": 0,
               "outcomes": {}, "max_switch": 0, "pre_taken": 0}
    queue = list(enumerate(job["cases"]))
    keep_every = max(1, job.get("log_every", 10))
    qi = 0
    while qi < len(queue):
        idx, spec = queue[qi]
        qi += 1
        expand = spec.get("expand", 0)
        if expand:
            spec = dict(spec, record=True)
        pol = mkpolicy(spec, len(mix))
        obs, run = execute(mix, pol, job.get("gran", "line"), keep_events=True)
        summary["n"] += 1
        summary["steps"] += obs["steps"]
        summary["max_switch"] = max(summary["max_switch"], obs["nswitch"])
        if spec["kind"] == "pre":
            summary["pre_taken"] += pol.taken
        viol = judge(obs, expected)
        ok = obs["clean"]
        okey = canon_outcome(obs["proj"], obs["registry"]) if ok and "proj" in obs else "unclean"
        summary["outcomes"][okey] = summary["outcomes"].get(okey, 0) + 1
        cls = (okey, min(obs["nswitch"], 6))
        summary["classes"][json.dumps(cls)] = 1
        if viol:
            for key, what in viol:
                summary["violations"].append({"key": key, "what": what, "case": {"mix": job["mix"], "policy": _plain(spec),
                                              "gran": job.get("gran", "line"), "chunk": job.get("chunk"),
                                              "index": idx, "switches": obs["switches"][:400],
                                              "results": obs.get("results"), "registry": obs.get("registry")}})
        if viol or summary["n"] % keep_every == 0:
            summary["logs"].append(flat_events(obs["events"], 0) if ok else [])
        if not ok:
            summary["tainted_at"] = qi        # parked threads hold cooperative locks: this process is finished
            break
        if expand and spec["kind"] == "pre" and pol.taken_at:
            later = [p for p in pol.points[pol.taken_at[-1] + 1:]]
            hot = [p for p in later if p[3] in HOT]
            pick = hot if len(hot) <= expand else rng.sample(hot, expand)
            rest = expand - len(pick)
            if rest > 0 and later:
                pick = pick + rng.sample(later, min(rest, len(later)))
            for (tid, k, others, _f) in pick:
                queue.append((idx, {"kind": "pre", "first": spec.get("first", 1),
                                    "pre": spec["pre"] + [[tid, k, rng.choice(list(others))]]}))
                summary["second"] += 1
    summary["remaining"] = [c for _, c in queue[qi:]] if summary["tainted_at"] is not None else []
    return summary


def _plain(spec):
    return {k: v for k, v in spec.items() if k not in ("record",)}


def single_child(job):
    _alarm()
    """One case in a pristine fork (confirmation of a violation / --replay)."""
    lb = lab()
    mix = [tuple(p) for p in job["mix"]]
    if job.get("warm", True):
        warm_up(lb)
        execute(mix, sched.NonPreemptive(), "line", keep_events=False)
    spec = dict(job["policy"], record=True) if job.get("expand") else job["policy"]
    pol = mkpolicy(spec, len(mix))
    obs, _ = execute(mix, pol, job.get("gran", "line"), keep_events=True)
    obs["flat"] = flat_events(obs.pop("events"), 0) if obs["clean"] else []
    obs.pop("switches", None)
    if job.get("expand") and obs["clean"] and pol.taken_at:
        # second preemptions: points of the thread that was switched to, before it finishes
        rng = random.Random(job.get("seed", 0))
        later = pol.points[pol.taken_at[-1] + 1:]
        pick = later if len(later) <= job["expand"] else rng.sample(later, job["expand"])
        obs["later"] = [[tid, k, rng.choice(list(others))] for (tid, k, others, _f) in pick]
    return obs


def seq_child(job):
    """The operations of a mix one after the other in the given order (no threads): the sequential reference."""
    _alarm()
    lb = lab()
    mix = [tuple(p) for p in job["mix"]]
    snap = lb.warn_snapshot()

    def go():
        world = World(lb)
        pos = [0] * len(mix)
        results = [[] for _ in mix]
        for t in job["order"]:
            name = mix[t][pos[t]]
            pos[t] += 1
            results[t].append(world.perform(name, t + 1))
        for fn in world.post:
            fn()
        return results, world.final_registry()

    try:
        results, registry = guarded(go, "sequential reference")
    except SelfDeadlock as ex:
        return {"outcome": "deadlock", "dup": [], "warn_changed": [], "deadlock": repr(ex.args[1])}
    proj, dup = project(mix, results)
    after = lb.warn_snapshot()
    return {"outcome": canon_outcome(proj, registry), "dup": dup,
            "warn_changed": [i for i in range(3) if snap[i] is not after[i]]}


# =============================================================================== parent side: TLC
INVS = ["P1_Exclusive", "P1_PoolIffFree", "P1_NoDuplicate", "P1_UseHeld", "P1_NoFault", "P2_Singleton", "P2_OneIdPerKey",
        "P3_Linearisable", "P3_MemoSound", "P3_GlobalRestored", "P4_NoLostReg", "P4_LockOrder", "LockSane"]
KINDS6 = ["Conf_ka", "TH_NA", "Bear_LA", "Dec_LA_D", "Hook_pa_C1", "Look_pa"]
KINDS10 = ["Conf_ka", "Conf_ka2", "TH_NA", "TH_A", "Bear_LA", "Dec_LA_D", "Dec_LA_C1", "Hook_pa_C1", "Hook_pa_C2", "Look_pa"]
POOLCONF = ["Conf_ka", "Conf_ka2", "Bear_LA", "Dec_LA_D", "Dec_LB_D"]     # [:3] in the quick tier
MUTANTS = [   # (mutant, invariant it must violate, constants)
    ("NoPoolLock", "P1_NoFault", dict(n=2, plen=1, ops=["Bear_LA", "Dec_LA_D"], warm=True)),
    ("NoConfLock", "P2_Singleton", dict(n=2, plen=1, ops=["Conf_ka", "Conf_ka2"])),
    ("NoConfLock", "P2_OneIdPerKey", dict(n=2, plen=1, ops=["Conf_ka", "Conf_ka2"])),
    ("LockNotReentrant", "deadlock", dict(n=2, plen=1, ops=["TH_NA", "TH_A"])),
    ("FillBeforeProbe", "P3_Linearisable", dict(n=2, plen=1, ops=["Bear_LA", "Dec_LA_D"])),
    ("FillBeforeProbe", "P3_MemoSound", dict(n=2, plen=1, ops=["Bear_LA", "Dec_LA_D"])),
    ("NoClawLock", "P4_NoLostReg", dict(n=2, plen=1, ops=["Hook_pa_C1", "Hook_pb_C1"])),
    ("NoClawLock", "P3_Linearisable", dict(n=2, plen=2, ops=["Hook_pa_C1", "Hook_pb_C1", "Look_pa"])),
    ("ReleaseEarly", "P1_UseHeld", dict(n=2, plen=1, ops=["Bear_LA", "Bear_LB"], warm=True)),
    ("ReleaseEarly", "P3_Linearisable", dict(n=2, plen=1, ops=["Bear_LA", "Bear_LB"], warm=True)),
]


def cfg_text(n, plen, ops, mutant="none", legacy=True, warm=False, invs=None, deadlock=True, view=True, lazy=True, fast=False):
    invs = INVS if invs is None else invs
    # FastSpec: the same next-state relation, dispatched on the label of the top frame (faster on the large runs)
    lines = ["SPECIFICATION " + ("FastSpec" if fast else "Spec"), "CONSTANTS", f"  NThreads = {n}", f"  ProgLen = {plen}",
             "  OpSel = {" + ", ".join('"%s"' % o for o in ops) + "}", f'  Mutant = "{mutant}"',
             "  Legacy = " + ('{"warn_ctx"}' if legacy else "{}"), f"  WarmPool = {'TRUE' if warm else 'FALSE'}",
             f"  LazyProg = {'TRUE' if lazy else 'FALSE'}"]
    if view:
        lines.append("VIEW View")
    lines += [f"INVARIANT {i}" for i in invs]
    lines.append(f"CHECK_DEADLOCK {'TRUE' if deadlock else 'FALSE'}")
    return "\n".join(lines) + "\n"


def own_coverage(out):
    import re
    cov = {}
    for m in re.finditer(r"^<(\w+) line \d+, col \d+ to line \d+, col \d+ of module Threads>(?: \([\d ]+\))?: (\d+):(\d+)",
                         out, re.M):
        d, t = int(m.group(2)), int(m.group(3))
        a = cov.get(m.group(1), (0, 0))
        cov[m.group(1)] = (a[0] + d, a[1] + t)
    return cov


def trace_schedule(res):
    """error trace -> behaviour in the format of tlc.simulate."""
    return [(a, s) for a, s in res.error_trace if "last" in s]


def oracle(d, mixes, rep):
    """Threads!SeqOutcomesOf for every mix, computed by TLC."""
    def tup(p):
        return "<<" + ", ".join('"%s"' % o for o in p) + ">>"
    body = ",\n  ".join("<<" + ", ".join(tup(p) for p in mix) + ">>" for mix in mixes)
    mod = ("---- MODULE MC_ThreadsOracle ----\nEXTENDS Threads, Json\nMixes == <<\n  " + body + "\n>>\n"
           "ASSUME \\A i \\in DOMAIN Mixes : PrintT(ToJson([i |-> i, out |-> SeqOutcomesOf(Mixes[i])]))\n====\n")
    spec = write_file(d, "MC_ThreadsOracle.tla", mod)
    cfg = write_file(d, "MC_ThreadsOracle.cfg", cfg_text(1, 1, ["Look_pa"], invs=[], view=False))
    res = tlc.run_tlc(spec, cfg, workers=1, env=JENV)
    rep.tlc(res, "oracle: sequential outcomes of every explored mix")
    out = {}
    for row in res.printed:
        if isinstance(row, dict) and "i" in row:
            exp = set()
            for o in row["out"]:
                proj = [[[r["k"], r["s"]] for r in rs] for rs in o["v"]]
                exp.add(canon_outcome(proj, o["rg"]))
            out[row["i"] - 1] = exp
    if len(out) != len(mixes):
        rep.machinery(f"oracle printed {len(out)} rows for {len(mixes)} mixes")
    return out


def orders_of(mix):
    """All interleavings of the programs (as thread index sequences)."""
    items = [t for t, p in enumerate(mix) for _ in p]
    return sorted(set(itertools.permutations(items)))


MIX2 = [
    (("Conf_ka",), ("Conf_ka",)), (("Conf_ka",), ("Conf_ka2",)), (("Conf_ka",), ("Conf_kb",)),
    (("TH_NA",), ("TH_NA",)), (("TH_NA",), ("TH_A",)), (("TH_NA",), ("TH_NB",)),
    (("Bear_LA",), ("Bear_LA",)), (("Bear_LA",), ("Bear_LB",)),
    (("Dec_LA_D",), ("Dec_LA_D",)), (("Dec_LA_D",), ("Dec_LB_D",)), (("Dec_LA_D",), ("Bear_LA",)),
    (("Dec_LA_C1",), ("Dec_LA_C1",)), (("Dec_LA_C1",), ("Dec_LA_D",)),
    (("Hook_pa_C1",), ("Hook_pa_C2",)), (("Hook_pa_C1",), ("Hook_pb_C1",)), (("Hook_pa_C1",), ("Look_pa",)),
    (("Hook_pa_C1",), ("Hook_pa_C1",)), (("Conf_ka",), ("Hook_pa_C1",)), (("TH_NA",), ("Bear_LA",)),
    (("Hook_pa_C1", "Look_pb"), ("Hook_pb_C1", "Look_pa")), (("Bear_LA", "Dec_LB_D"), ("Dec_LA_D", "Bear_LB")),
    (("Conf_ka", "TH_NA"), ("TH_A", "Conf_ka2")), (("Dec_LA_C1", "Conf_kb"), ("Conf_kb", "Dec_LA_C1")),
]
MIX3 = [
    (("Conf_ka",), ("Conf_ka2",), ("Conf_ka",)), (("Bear_LA",), ("Bear_LA",), ("Dec_LA_D",)),
    (("Dec_LA_D",), ("Dec_LB_D",), ("Bear_LB",)), (("Hook_pa_C1",), ("Hook_pa_C2",), ("Look_pa",)),
    (("TH_NA",), ("TH_NA",), ("TH_A",)),
]


# =============================================================================== run
BUDGET = {
    "quick": dict(pristine_cap=80, pristine_m=5, sim=80, sim3=30, single_cap=170, expand=14, expand_m=4, pct=24, rand=24, opcode=16, chunk=70,
                  log_every=8, extra2=0, extra3=0),
    "thorough": dict(pristine_cap=300, pristine_m=8, sim=400, sim3=150, single_cap=1000, expand=120, expand_m=5, pct=150, rand=150,
                     opcode=100, chunk=240, log_every=40, extra2=12, extra3=5),
}


def warn_kinds(mix):
    return sorted({OPDEF[n][0] for p in mix for n in p} & {"Bear", "Dec"})


def report_violation(rep, key, what, case):
    rep.violation(key, what, case)


def run(rep, tier, seed):
    t_start = time.time()
    B = BUDGET[tier]
    rng = random.Random(seed)
    rep.rule = ("TLC enumerates every interleaving of the micro-steps of Threads.tla for the listed constants; real "
                "executions are scheduled deterministically (model schedules; every line boundary with <= 2 preemptions; "
                "PCT/random).  An execution is non-trivial by (mix, outcome, number of context switches capped at 6).")
    lb = lab()            # before any fork: every child inherits the cooperative locks and the probes
    for n in lb.notes:
        rep.note("instrumentation: " + n)
    if set(lb.lockname.values()) != {"conf", "pool", "th", "claw"}:
        rep.machinery(f"cannot bind the model's locks to beartype's: {lb.lockname} {lb.notes}")
    missing = MODEL_TABLES - lb.tables
    if missing:
        rep.machinery(f"cannot probe the containers {sorted(missing)}: {lb.notes}")
    rep.assumptions += [
        "registry lookups go through beartype.claw._package.clawpkgtrie.get_package_conf_or_none (what the import hook calls)",
        "context switches are placed at line (sampled: opcode) boundaries of files under beartype/; C code is atomic",
        "lock/pool/table events are observed through cooperative threading.Lock/RLock factories, recording dict/list "
        "subclasses put in place of module globals, and call/return trace hooks on KeyPool.acquire/release",
    ]
    pool = ForkPool(16)
    try:
        with scratch("c15-") as d:
            _run(rep, tier, seed, B, rng, lb, pool, d)
    finally:
        pool.close()
    rep.note(f"wall {time.time() - t_start:.0f}s")


def _tlc_jobs(d, tier):
    jobs = []     # (label, cfg path, kwargs, expectation)

    def add(label, expect, workers=2, coverage=False, **kw):
        path = write_file(d, f"{label}.cfg", cfg_text(**kw))
        jobs.append((label, path, dict(workers=workers, coverage=coverage), expect))

    no_glob = [i for i in INVS if i != "P3_GlobalRestored"]
    # the faithful model of 0.23.0 (catch_warnings around code generation): everything but the global state
    add("faithful_2x2_kinds", None, workers=10, n=2, plen=2, ops=KINDS6 if tier == "quick" else KINDS10, invs=no_glob, fast=True)
    add("faithful_2x1_all_cold", None, coverage=True, n=2, plen=1, ops=OPS, invs=no_glob, lazy=False)
    add("faithful_2x1_all_warm", None, n=2, plen=1, ops=OPS, invs=no_glob, warm=True, lazy=False)
    add("faithful_3x1_poolconf", None, workers=4, n=3, plen=1, ops=POOLCONF[:3] if tier == "quick" else POOLCONF,
        invs=no_glob, warm=True, lazy=False, fast=True)
    if tier == "thorough":
        add("faithful_3x2_conf_th", None, workers=6, n=3, plen=2, ops=["Conf_ka", "Conf_ka2", "TH_NA"], invs=no_glob, fast=True)
        add("ideal_3x1_poolconf", None, workers=4, n=3, plen=1, ops=POOLCONF, legacy=False, warm=True, lazy=False, fast=True)
    # the ideal design (warnings handled without a process-global save/restore): every property
    add("ideal_2x1_all", None, n=2, plen=1, ops=OPS, legacy=False, lazy=False)
    # the faithful model against the ideal property
    add("faithful_global_state", "P3_GlobalRestored", n=2, plen=1, ops=["Bear_LA", "Dec_LA_D"], invs=["P3_GlobalRestored"],
        lazy=False)
    for i, (mut, inv, kw) in enumerate(MUTANTS):
        add(f"mutant_{mut}_{inv}", inv, mutant=mut, legacy=False, invs=([] if inv == "deadlock" else [inv]), lazy=False, **kw)
    return jobs


def _run(rep, tier, seed, B, rng, lb, pool, d):
    from concurrent.futures import ThreadPoolExecutor
    t0 = time.time()
    stage = {}

    def mark(name):
        stage[name] = round(time.time() - t0, 1)
    tlc.sany("Threads.tla")
    tlc.sany("trace/ThreadsTrace.tla")
    # ------------------------------------------------------------------ R1: TLC (in the background)
    jobs = _tlc_jobs(d, tier)
    ex = ThreadPoolExecutor(8)
    # simulations first (B2 waits for them); their invariants are model-checked by the exhaustive runs below
    simcfg2 = write_file(d, "sim2.cfg", cfg_text(2, 2, OPS, invs=["LockSane"]))
    simcfg2w = write_file(d, "sim2w.cfg", cfg_text(2, 2, OPS, warm=True, invs=["LockSane"]))
    simcfg3 = write_file(d, "sim3.cfg", cfg_text(3, 2, OPS, warm=True, invs=["LockSane"]))
    simcfg1 = write_file(d, "sim1.cfg", cfg_text(1, 1, OPS, invs=["LockSane"], lazy=False))
    seq_sim = ex.submit(tlc.simulate, "Threads.tla", simcfg1, 96, 60, seed + 3, 1800, JENV)
    sims = [("simulate 2x2 all kinds (cold pools)", False, ex.submit(tlc.simulate, "Threads.tla", simcfg2, B["sim"], 150, seed, 1800, JENV)),
            ("simulate 2x2 all kinds (warm pools)", True, ex.submit(tlc.simulate, "Threads.tla", simcfg2w, B["sim"], 150, seed + 1, 1800, JENV)),
            ("simulate 3x2 all kinds (warm pools)", True, ex.submit(tlc.simulate, "Threads.tla", simcfg3, B["sim3"], 220, seed + 2, 1800, JENV))]
    futs = [(label, expect, ex.submit(tlc.run_tlc, "Threads.tla", path, env=JENV, **kw)) for label, path, kw, expect in jobs]
    # ------------------------------------------------------------------ mixes and their sequential outcomes
    mixes = list(MIX2) + list(MIX3)
    for _ in range(B["extra2"]):
        mixes.append(tuple(tuple(rng.choice(OPS) for _ in range(2)) for _ in range(2)))
    for _ in range(B["extra3"]):
        mixes.append(tuple(tuple(rng.choice(OPS) for _ in range(rng.choice((1, 2)))) for _ in range(3)))
    expected = oracle(d, mixes, rep)
    mark("oracle")
    seqjobs = [{"mix": m, "order": list(o), "mi": mi} for mi, m in enumerate(mixes) for o in orders_of(m)]
    if len(seqjobs) > 1500:
        keep = [j for j in seqjobs if len(orders_of(mixes[j["mi"]])) <= 20]
        rest = [j for j in seqjobs if len(orders_of(mixes[j["mi"]])) > 20]
        seqjobs = keep + rng.sample(rest, min(len(rest), 1500 - len(keep)))
    seqres = pool.map(seq_child, seqjobs)
    real_seq = {}
    seq_broken = set()
    for j, r in zip(seqjobs, seqres):
        if r["outcome"] == "deadlock":        # not even one thread alone gets through
            seq_broken.add(j["mi"])
            rep.violation({"class": "deadlock", "kinds": kinds_of(mixes[j["mi"]]), "sequential": True},
                          f"the operations of {mixes[j['mi']]} run one after the other by a single thread deadlock: {r['deadlock']}",
                          {"mix": [list(p) for p in mixes[j["mi"]]], "policy": {"kind": "pre", "first": 1, "pre": []}, "gran": "line"})
            continue
        real_seq.setdefault(j["mi"], set()).add(r["outcome"])
        if r["dup"] or r["warn_changed"]:
            rep.machinery(f"sequential reference itself misbehaves: {j} -> {r}")
    for mi, outs in real_seq.items():
        if mi in seq_broken:
            continue
        full = len([j for j in seqjobs if j["mi"] == mi]) == len(orders_of(mixes[mi]))
        if not outs <= expected[mi] or (full and outs != expected[mi]):
            rep.machinery(f"the sequential semantics of Threads.tla (SeqApply) and the real code disagree on mix {mixes[mi]}: "
                          f"real {sorted(outs)} vs TLC {sorted(expected[mi])}: the oracle cannot be trusted")
    rep.count(len(seqjobs))
    mark("sequential reference")
    rep.note(f"sequential reference: {len(seqjobs)} orders of {len(mixes)} mixes in fresh forks agree with SeqOutcomesOf")
    # ------------------------------------------------------------------ B3 planning: base runs per mix
    plans = pool.map(plan_child, [{"mix": m, "expected": sorted(expected[mi])} for mi, m in enumerate(mixes)], chunksize=1)
    chunks = []
    pristine = []
    seen_keys = {}
    total_points = 0
    for mi, (m, pl) in enumerate(zip(mixes, plans)):
        cases = []
        singles = []
        broken = False
        for base in pl:
            for v in base["violations"]:          # even the non-preemptive run misbehaves (e.g. self-deadlock)
                seen_keys.setdefault(json.dumps(v["key"], sort_keys=True), v)
                broken = True
        if broken:
            continue
        for base in pl:
            for (tid, k, others, fn) in base["points"]:
                for tgt in others:
                    singles.append(({"kind": "pre", "first": base["first"], "pre": [[tid, k, tgt]]}, fn in HOT))
                    if fn in POOLFILES:            # the pools survive from one execution to the next: these switch
                        pristine.append({"mix": m, "mi": mi, "gran": "line",       # points also from a pristine fork
                                         "policy": {"kind": "pre", "first": base["first"], "pre": [[tid, k, tgt]]}})
        total_points += len(singles)
        if len(singles) > B["single_cap"]:
            hot = [s for s, h in singles if h]
            cold = [s for s, h in singles if not h]
            if len(hot) > B["single_cap"] * 2 // 3:
                hot = rng.sample(hot, B["single_cap"] * 2 // 3)
            cold = rng.sample(cold, min(len(cold), B["single_cap"] - len(hot)))
            sel = hot + cold
            exhaustive = False
        else:
            sel = [s for s, _ in singles]
            exhaustive = True
        for i in rng.sample(range(len(sel)), min(B["expand"], len(sel))):
            sel[i] = dict(sel[i], expand=B["expand_m"])
        cases += sel
        est = max(b["steps"] for b in pl)
        for i in range(B["pct"]):
            cases.append({"kind": "pct", "seed": seed * 100003 + mi * 1009 + i, "depth": 2 + i % 4, "est": est})
        for i in range(B["rand"]):
            cases.append({"kind": "rand", "seed": seed * 100003 + mi * 1013 + i, "p": (0.003, 0.01, 0.03, 0.1, 0.3)[i % 5]})
        rng.shuffle(cases)
        for ci in range(0, len(cases), B["chunk"]):
            chunks.append({"mix": m, "mi": mi, "cases": cases[ci:ci + B["chunk"]], "expected": sorted(expected[mi]),
                           "seed": seed * 7919 + mi * 131 + ci, "chunk": [mi, ci], "log_every": B["log_every"],
                           "exhaustive1": exhaustive})
        if all(OPDEF[n][0] in ("Conf", "TH", "Hook", "Look") for p in m for n in p):      # small operations: opcode level too
            oc = [{"kind": "rand", "seed": seed * 100003 + mi * 1019 + i, "p": (0.002, 0.01, 0.05)[i % 3]} for i in range(B["opcode"])]
            oc += [{"kind": "pct", "seed": seed * 100003 + mi * 1021 + i, "depth": 2 + i % 3, "est": est * 6} for i in range(B["opcode"])]
            chunks.append({"mix": m, "mi": mi, "cases": oc, "expected": sorted(expected[mi]), "seed": seed + mi,
                           "chunk": [mi, "opcode"], "log_every": B["log_every"], "gran": "opcode"})
    mark("plan")
    rep.note(f"B3 plan: {len(mixes)} mixes, {total_points} single-preemption points at line boundaries, "
             f"{sum(len(c['cases']) for c in chunks)} first-level schedules in {len(chunks)} chunks")
    # ------------------------------------------------------------------ B2: model schedules (wait for the simulations)
    # binding of the granularity: run alone, every operation must perform exactly the model's visible events
    res1, behs1 = seq_sim.result()
    rep.tlc(res1, "simulate 1 thread x 1 operation (event sequence of every operation)")
    one = {}
    for beh in behs1:
        c = beh_to_case(beh, False, "single operation")
        if c["model_done"]:
            one.setdefault(c["mix"][0][0], c)
    if set(one) != set(OPS):
        rep.machinery(f"the single-operation simulation did not reach every operation: missing {sorted(set(OPS) - set(one))}")
    n_conform = 0
    for c, o in zip(one.values(), pool.map(replay_case, list(one.values()))):
        rep.count(1)
        mproj, _ = model_project(c)
        name = c["mix"][0][0]
        if not o["clean"] or any(r[0] == "exc" for rs in o["results"] for r in rs):
            continue                      # judged below with the concurrent schedules (deadlock / exception when run alone)
        if o["n_mismatch"] or o["skipped"] or o["unconsumed"]:
            rep.spec_drift(f"operation {name} run alone does not perform the visible events of the model "
                           f"(model {[a for _, a in c['steps'] if a in LABEL_EVENT]}, real {o.get('visible_events')})")
            continue
        if o["elided"] or o["extra"]:
            rep.spec_drift(f"operation {name} run alone locks differently from the model: {o['elided']} lock operations of the "
                           f"model are not performed, {o['extra']} are performed that the model lacks")
        if canon_outcome(o["proj"], o["registry"]) != canon_outcome(mproj, c["model_reg"]):
            rep.machinery(f"operation {name} run alone: real outcome {o['proj']} differs from the model's {mproj}")
        n_conform += 1
    if n_conform < len(OPS) // 2:
        rep.machinery(f"only {n_conform} of {len(OPS)} operations, run alone, perform the visible events Threads.tla gives them: "
                      f"the model no longer decomposes the operations as the code does")
    rep.add("operations_conforming_when_run_alone", n_conform)
    mark("single-operation conformance")
    b2cases = []
    for label, warm, fut in sims:
        res, behs = fut.result()
        rep.tlc(res, label)
        if not res.ok:
            rep.machinery(f"TLC -simulate reported {res.violated} on the faithful model: {label}")
        for i, beh in enumerate(behs):
            c = beh_to_case(beh, warm, f"{label} #{i}")
            if c["model_done"]:
                b2cases.append(c)
    mark("simulations done")
    tlc_results = {}
    for label, expect, fut in futs:
        res = fut.result()
        tlc_results[label] = res
        rep.tlc(res, label)
        if expect is None:
            if not res.ok:
                tr = [(s["last"]["t"], s["last"]["a"]) for _, s in trace_schedule(res)]
                rep.violation({"class": "model", "run": label, "violated": res.violated},
                              f"TLC: {res.violated} is violated by the design model ({label}); schedule {tr[-40:]}",
                              {"tlc": label, "schedule": tr})
        else:
            if res.violated != expect:
                rep.machinery(f"spec mutant / legacy configuration {label} was NOT rejected as expected "
                              f"(expected {expect}, TLC reported {res.violated}): the properties are vacuous")
            beh = trace_schedule(res)
            if beh and "prog" in beh[0][1]:
                warm = "WarmPool = TRUE" in open(os.path.join(d, f"{label}.cfg")).read()
                c = beh_to_case(beh, warm, f"counter-example of {label}")
                c["expect_violation_in_model"] = expect
                b2cases.append(c)
    mark("tlc jobs done")
    cov = own_coverage(tlc_results["faithful_2x1_all_cold"].output)
    never = sorted(a for a, (dd, t) in cov.items() if t == 0 and a not in ("G_fill0", "Finished"))
    if not cov or never:
        rep.machinery(f"vacuous model run: actions never taken {never} (coverage entries: {len(cov)})")
    b2res = pool.map(replay_case, b2cases)
    _expected_for(d, rep, [tuple(tuple(p) for p in c["mix"]) for c in b2cases])        # one TLC run for all of them
    n_faithful = n_div = n_diff = 0
    for c, o in zip(b2cases, b2res):
        rep.count(1)
        mi_key = tuple(tuple(p) for p in c["mix"])
        faithful = (o["clean"] and o["n_mismatch"] == 0 and o["skipped"] == 0 and o["unconsumed"] == 0
                    and o["elided"] == 0 and o["extra"] == 0)
        is_ce = "expect_violation_in_model" in c
        exp_set = _expected_for(d, rep, [mi_key])[0]
        viols = judge(o, exp_set)
        if faithful and not is_ce:
            n_faithful += 1
            mproj, mdup = model_project(c)
            if o["clean"] and (canon_outcome(o["proj"], o["registry"]) != canon_outcome(mproj, c["model_reg"])):
                # the property only demands SOME sequential order (judge() below): a different one is drift
                n_diff += 1
                rep.spec_drift(f"replaying the model's schedule step by step, the real results {o['proj']} / {o['registry']} "
                               f"differ from the model's {mproj} / {c['model_reg']} for {c['mix']} ({c['origin']})")
            if bool(o["warn_changed"]) != (c["model_wstate"] != "orig"):
                rep.spec_drift(f"warnings state: model {c['model_wstate']} vs real changed={o['warn_changed']} on {c['origin']}")
            rep.nontrivial(("b2", json.dumps(c["mix"]), canon_outcome(o["proj"], o["registry"]), min(o["nswitch"], 6)))
        elif not is_ce:
            n_div += 1
        for key, what in viols:
            report_violation(rep, key, what + f" [model schedule: {c['origin']}]", _b2_case(c, o))
        if is_ce:
            rep.note(f"counter-example of {c['origin'].split('of ')[-1]} replayed on the real code: followed {o['followed']}/{o['n_vis']} "
                     f"steps, skipped {o['skipped']} (blocked), {o['extra']} real lock operations the variant lacks, real verdict: {[k['class'] for k, _ in viols] or 'no violation'}")
    mark("b2 replayed")
    rep.add("model_schedules_replayed", len(b2cases))
    rep.add("model_schedules_followed_exactly", n_faithful)
    rep.add("model_schedules_diverged", n_div)
    rep.add("model_schedules_followed_with_other_result", n_diff)
    if n_diff * 5 > max(n_faithful, 1):
        rep.machinery(f"{n_diff} of {n_faithful} exactly followed model schedules gave results other than the model's: "
                      f"Threads.tla no longer predicts the code")
    if n_faithful == 0:
        rep.machinery("no concurrent model schedule could be followed step by step on the real code")
    if n_div > n_faithful:
        rep.spec_drift(f"{n_div} of {n_faithful + n_div} model schedules were infeasible on the real code (a thread was blocked "
                       f"where the model lets it run): the code synchronises more than Threads.tla")
    if b2res:
        rep.sample({"b2": b2cases[0]["origin"], "mix": b2cases[0]["mix"], "steps": len(b2cases[0]["steps"]),
                    "real": b2res[0].get("proj")})
    # ------------------------------------------------------------------ B3: exploration
    logs = []
    nexec = 0
    pending = chunks
    rounds = 0
    agg = {"steps": 0, "second": 0, "pre_taken": 0, "max_switch": 0}
    if len(pristine) > B["pristine_cap"]:
        pristine = rng.sample(pristine, B["pristine_cap"])
    for i, job in enumerate(pristine):
        job["expand"], job["seed"] = B["pristine_m"], seed * 31 + i
    npr = 0
    for level in (1, 2):
        pres = pool.map(single_child, pristine)
        nxt = []
        for job, o in zip(pristine, pres):
            nexec += 1
            npr += 1
            agg["steps"] += o["steps"]
            for key, what in judge(o, expected[job["mi"]]):
                seen_keys.setdefault(json.dumps(key, sort_keys=True),
                                     {"key": key, "what": what,
                                      "case": {"mix": job["mix"], "policy": job["policy"], "gran": "line", "pristine": True,
                                               "results": o.get("results")}})
            if o.get("flat") and npr % B["log_every"] == 0:
                logs.append(o["flat"])
            for pre2 in o.get("later", []):
                agg["second"] += 1
                nxt.append({"mix": job["mix"], "mi": job["mi"], "gran": "line",
                            "policy": dict(job["policy"], pre=job["policy"]["pre"] + [pre2])})
        pristine = nxt
    rep.add("b3_pristine_fork_schedules", npr)
    while pending and rounds < 4:
        rounds += 1
        outs = pool.map(explore_child, pending, chunksize=1)
        nxt = []
        for ch, s in zip(pending, outs):
            nexec += s["n"]
            for k in ("steps", "second", "pre_taken"):
                agg[k] += s[k]
            agg["max_switch"] = max(agg["max_switch"], s["max_switch"])
            for cls in s["classes"]:
                rep.nontrivial(("b3", json.dumps(ch["mix"]), cls))
            for v in s["violations"]:
                ck = json.dumps(v["key"], sort_keys=True)
                seen_keys.setdefault(ck, v)
            logs += [lg for lg in s["logs"] if lg]
            if s["tainted_at"] is not None and s["remaining"]:
                nxt.append(dict(ch, cases=s["remaining"]))
        pending = nxt
    mark("b3 explored")
    rep.count(nexec)
    rep.add("b3_executions", nexec)
    rep.add("b3_scheduling_steps", agg["steps"])
    rep.add("b3_two_preemption_schedules", agg["second"])
    rep.note(f"B3: {nexec} executions, {agg['steps']} scheduling steps, {agg['pre_taken']} forced preemptions, "
             f"{agg['second']} two-preemption schedules, max context switches in one execution {agg['max_switch']}")
    if agg["pre_taken"] == 0:
        rep.machinery("no preemption was ever taken: the scheduler does not control the threads")
    # confirm every distinct violation standalone (pristine fork), then report it
    _expected_for(d, rep, [tuple(tuple(p) for p in v["case"]["mix"]) for v in seen_keys.values()])
    for ck, v in seen_keys.items():
        case = v["case"]
        conf = pool.map(single_child, [{"mix": case["mix"], "policy": case["policy"], "gran": case["gran"]}])[0]
        exp_set = _expected_for(d, rep, [tuple(tuple(p) for p in case["mix"])])[0]
        again = [k for k, _ in judge(conf, exp_set)]
        case["reproduced_standalone"] = v["key"] in again
        report_violation(rep, v["key"], v["what"] + f" [schedule: {json.dumps(case['policy'])[:200]}; "
                         f"standalone reproduction: {case['reproduced_standalone']}]", case)
    # ------------------------------------------------------------------ R3: trace validation of the recorded logs
    nval = validate_logs(rep, d, logs, ex)
    rep.add("traces_validated_against_impl", nval)
    mark("traces validated")
    rep.note("stage times (s since start): " + json.dumps(stage))
    if logs:
        rep.sample({"b3_log_head": logs[0][:6]})
    ex.shutdown()


_EXP_CACHE = {}


def _expected_for(d, rep, mixes):
    out = []
    todo = [m for m in mixes if m not in _EXP_CACHE]
    if todo:
        class _Quiet:
            def tlc(self, *a, **k):
                pass

            def machinery(self, msg):
                rep.machinery(msg)
        uniq = list(dict.fromkeys(todo))
        sub = os.path.join(d, f"or{len(_EXP_CACHE)}")
        os.makedirs(sub, exist_ok=True)
        got = oracle(sub, uniq, _Quiet())
        for i, m in enumerate(uniq):
            _EXP_CACHE[m] = got[i]
    for m in mixes:
        out.append(_EXP_CACHE[m])
    return out


def _b2_case(c, o):
    return {"mix": c["mix"], "model_steps": c["steps"], "steps": c["steps"], "warm_pool": c["warm_pool"], "origin": c["origin"],
            "model_res": c["model_res"], "model_reg": c["model_reg"], "real_results": o.get("results"),
            "real_registry": o.get("registry"), "real_events": o.get("visible_events", [])[:120],
            "warn_changed": o.get("warn_changed")}


def validate_logs(rep, d, logs, ex):
    """ThreadsTrace.tla over the recorded executions, batched per JVM."""
    if not logs:
        rep.machinery("no execution log was recorded")
    batches = []
    cur, n = [], 0
    for lg in logs:
        cur.append(lg)
        n += len(lg)
        if n >= 6000:
            batches.append(cur)
            cur, n = [], 0
    if cur:
        batches.append(cur)
    futs = []
    for bi, b in enumerate(batches):
        path = os.path.join(d, f"trace{bi}.ndjson")
        with open(path, "w") as fh:
            for ti, lg in enumerate(b):
                for e in lg:
                    e = dict(e, tid=ti)
                    fh.write(json.dumps(e) + "\n")
        futs.append((b, path, ex.submit(tlc.run_tlc, "trace/ThreadsTrace.tla", "trace/ThreadsTrace.cfg", workers=1,
                                        env=dict(JENV, TRACE_FILE=path), heap="2g")))
    # the trace specification must bind: one corrupted copy of an accepted execution has to be rejected
    probe = next((lg for lg in logs if any(e["ev"] == "Res" for e in lg)), None)
    selftest = None
    if probe is not None:
        bad = [dict(e) for e in probe]
        for e in bad:
            if e["ev"] == "Res":
                e["k"] = "tampered"
                break
        path = os.path.join(d, "trace_selftest.ndjson")
        with open(path, "w") as fh:
            for lg in (probe, bad):          # the accepted execution, then its copy with one response altered
                for e in lg:
                    fh.write(json.dumps(e) + "\n")
        selftest = ex.submit(tlc.run_tlc, "trace/ThreadsTrace.tla", "trace/ThreadsTrace.cfg", workers=1,
                             env=dict(JENV, TRACE_FILE=path), heap="2g")
    nval = 0
    for b, path, fut in futs:
        res = fut.result()
        rep.tlc(res, f"trace validation of {len(b)} executions")
        if res.ok:
            nval += len(b)
            continue
        # which execution / clause
        st = res.error_trace[-1][1] if res.error_trace else {}
        pos = st.get("l")
        for row in res.printed:
            if isinstance(row, dict) and "rejected_at" in row:
                pos = row["rejected_at"]
        flat = [e for lg in b for e in lg]
        evs = flat[max(0, (pos or 1) - 6):(pos or 1)]
        clause = st.get("bad") if res.violated == "TNoBad" else (res.violated or "unmatched event")
        mixops = [e.get("op") for e in flat[:(pos or 1)] if e["ev"] == "Inv"][-6:]
        rep.violation({"class": "trace_rejected", "clause": clause, "ops": sorted(set(o for o in mixops if o))[:4]},
                      f"ThreadsTrace.tla rejects a recorded execution at event {pos}: {clause}; last events {evs}",
                      {"events": flat[max(0, (pos or 1) - 60):(pos or 1) + 2], "clause": clause})
    if selftest is None:
        rep.machinery("no recorded execution contains a response: the trace validation is vacuous")
    sres = selftest.result()
    rep.tlc(sres, "trace validation self-test (tampered response must be rejected)")
    if sres.ok:
        rep.machinery("ThreadsTrace.tla accepted a tampered execution: the trace specification does not bind")
    return nval


def replay(rep, path):
    case = json.load(open(path)).get("case") or {}
    lb = lab()
    pool = ForkPool(1)
    try:
        with scratch("c15-replay-") as d:
            if "tlc" in case:
                print(f"model-level violation ({case['tlc']}): rerun ./check C15; schedule {case.get('schedule')}")
                return
            if "events" in case and "mix" not in case:
                print("recorded events (trace rejected):")
                for e in case["events"]:
                    print("  ", e)
                rep.violation({"class": "trace_rejected", "clause": case.get("clause")}, "recorded trace (not re-executed)", case)
                return
            mix = tuple(tuple(p) for p in case["mix"])
            exp = _expected_for(d, rep, [mix])[0]
            if case.get("model_steps") is not None:
                o = pool.map(replay_case, [{"mix": case["mix"], "steps": case["model_steps"], "warm_pool": case.get("warm_pool")}])[0]
            else:
                o = pool.map(single_child, [{"mix": case["mix"], "policy": case["policy"], "gran": case.get("gran", "line")}])[0]
            print("mix:", case["mix"])
            print("results:", o.get("results"), "registry:", o.get("registry"), "deadlock:", o.get("deadlock"),
                  "warnings state changed:", o.get("warn_changed"))
            print("sequential outcomes (TLC):", sorted(exp))
            for key, what in judge(o, exp):
                print("VIOLATES:", what)
                report_violation(rep, key, what, case)
            if not rep.violations:
                print("no violation on this tree")
    finally:
        pool.close()
