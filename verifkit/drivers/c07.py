"""C07 — string and postponed annotations are checked exactly like evaluated ones.

R1  TLC checks spec/FwdRef.tla with every deviation switch FALSE (the intended design: names
    resolve as Python's lexical scoping says) for every placement x hint shape; each of the
    five switches (four behaviours of beartype 0.23.0: GlobalFirst, FakeFallback, FrameByCode,
    SharedProxy; one wrong design: CacheFailure) is run alone as a spec mutant and must be
    rejected by the invariant it breaks.
R2  Every behaviour of the specification is one Python PROGRAM.  State graphs of small
    configurations are dumped with the 0.23.0 switches ON (so that every Call state carries
    what the code-shaped model does -- ``got`` -- next to what C07 allows -- ``want``, computed
    by the declarative operator Want), an edge cover is computed and every path is rendered
    as a module of a scratch package in up to four variants of the same definitions:
    evaluated annotations (where Python itself can evaluate them), one string literal
    ('list[N]'), strings nested in the hint (list['N']) and ``from __future__ import
    annotations``.  ``tlc -simulate`` supplies longer programs (up to 14 statements, second
    activations of the enclosing function, redefinitions).  The modules are imported in fresh
    subprocesses (64 batches, 16 at a time, distinct module names); each call of the
    decorated callable records accept / violation / forward-reference exception / other.
    Real outcomes must lie in ``want``; the evaluated variant must agree with ``want`` too
    (otherwise the oracle is not trusted: exit 2).  The TLC counterexamples of the switches
    are replayed as minimal reproductions.
    A deviation that the 0.23.0 switches predict (real == got) is keyed by
    (placement, resolution route blamed by the specification); anything else by the call.
    Every distinct violation is confirmed alone in a fresh interpreter before it is reported.
"""
from __future__ import annotations

import concurrent.futures
import json
import os
import random
import re
import subprocess
import sys
import time

from verifkit import tlc
from verifkit.util import scratch, write_file

LEVEL = "model_checking"
REPO = os.environ.get("VERIF_REPO", "/repo")
PROCS = 16

ALL_PLACEMENTS = ["modfunc", "method", "nmethod", "closure", "cmethod", "method_cd", "nmethod_cd"]
ALL_HINTS = ["N", "list", "opt", "dict", "tuple", "Self"]
SWITCHES = ["GlobalFirst", "FakeFallback", "FrameByCode", "SharedProxy", "CacheFailure", "MembershipOnly"]
BOTH = ["plain", "gen"]          # class N: pass   /   class N(list[int]): pass
V0230 = {"GlobalFirst": True, "FakeFallback": True, "FrameByCode": True, "SharedProxy": False, "CacheFailure": False}
INVARIANTS = ["UsableOnceDefined", "VerdictAsEvaluated", "UnresolvableRaises", "UnneededEither", "FormsAgree",
              "EvaluatedIsReference", "NoFailureCached"]
FORMS = ["ev", "str", "inner", "post"]


def _cfg(placements, hints, steps, defs, calls, switches=None, invariants=INVARIANTS, kinds=("plain",)):
    sw = {s: False for s in SWITCHES}
    sw.update(switches or {})
    lines = ["SPECIFICATION Spec", "CONSTANTS",
             "  Placements = {%s}" % ", ".join('"%s"' % x for x in placements),
             "  Hints = {%s}" % ", ".join('"%s"' % x for x in hints),
             "  Kinds = {%s}" % ", ".join('"%s"' % x for x in kinds),
             f"  MaxSteps = {steps}", f"  MaxDefs = {defs}", f"  MaxCalls = {calls}"]
    lines += [f"  {s} = {'TRUE' if v else 'FALSE'}" for s, v in sw.items()]
    lines += [f"INVARIANT {i}" for i in invariants]
    lines.append("CHECK_DEADLOCK FALSE")
    return "\n".join(lines) + "\n"


# ====================================================================== behaviours -> programs
class Prog:
    """One behaviour of FwdRef.tla: placement, hint, local names, the statements in order."""

    def __init__(self, p, h, lnames, cdef, steps, gk="plain"):
        self.p, self.h, self.lnames, self.cdef = p, h, sorted(lnames), bool(cdef)
        self.gk = gk                # "gen": the classes named N are user generics, class N(list[int])
        self.steps = steps          # list of `last` records (dicts), Init excluded

    def key(self):
        return json.dumps([self.p, self.h, self.gk, self.lnames, self.cdef,
                           [[s["act"], s["s"], s["n"], s["f"], _objkey(s["obj"])] for s in self.steps]])

    def calls(self):
        return [(i, s) for i, s in enumerate(self.steps) if s["act"] == "Call"]

    def natural(self):
        """every name that Python treats as a local of the enclosing function has a class statement in its
        body (otherwise the renderer would have to add dead code to make the name local)"""
        return all(any(s["act"] in ("Define", "Redefine") and s["s"] == "F1" and s["n"] == n for s in self.steps)
                   for n in self.lnames)

    def evok(self):
        """the evaluated variant is expressible: Python can evaluate every name when the def runs"""
        c = [s for s in self.steps if s["act"] == "Call"]
        return bool(c) and all(s["evok"] for s in c)

    def to_json(self):
        return {"p": self.p, "h": self.h, "gk": self.gk, "lnames": self.lnames, "cdef": self.cdef,
                "steps": [_plain(s) for s in self.steps]}

    @staticmethod
    def from_json(d):
        return Prog(d["p"], d["h"], d["lnames"], d["cdef"], d["steps"], d.get("gk", "plain"))


def _plain(x):
    if isinstance(x, dict):
        return {k: _plain(v) for k, v in x.items()}
    if isinstance(x, (set, frozenset)):
        return sorted(_plain(v) for v in x)
    if isinstance(x, (list, tuple)):
        return [_plain(v) for v in x]
    return x


def _objkey(o):
    return [o["shape"], o["a"]["t"], o["a"]["c"], o["a"].get("q", ""), o["b"]["t"], o["b"]["c"], o["b"].get("q", "")]


def _self_name(p):
    return "D" if p == "nmethod" else "C"


def hint_src(h, p, form):
    """source text of the annotation of the checked parameter, and whether typing.Optional is needed"""
    n = _self_name(p) if h == "Self" else "N"
    if form in ("ev", "post"):
        e = {"N": n, "Self": n, "list": "list[N]", "opt": "N | None", "dict": "dict[str, N]",
             "tuple": "tuple[N, K]"}[h]
        return e
    if form == "str":
        e = {"N": n, "Self": n, "list": "list[N]", "opt": "N | None", "dict": "dict[str, N]",
             "tuple": "tuple[N, K]"}[h]
        return repr(e)
    if form == "inner":
        return {"N": repr(n), "Self": repr(n), "list": "list['N']", "opt": "Optional['N']",
                "dict": "dict[str, 'N']", "tuple": "tuple['N', 'K']"}[h]
    raise KeyError(form)


def _objsrc(o):
    def atom(a):
        return {"inst": f"('inst', {a['c']}, {a.get('q', '')!r})", "unrel": "('unrel', 0)", "none": "('none', 0)"}[a["t"]]
    if o["shape"] == "tuple":
        return f"('tuple', {atom(o['a'])}, {atom(o['b'])})"
    return f"({o['shape']!r}, {atom(o['a'])})"


def render(prog, form, rtmod="c07rt"):
    """Python source of the module that executes the behaviour ``prog`` with the annotation
    written in ``form``.  Statement i of the behaviour is tagged i in the recorded output."""
    p, h = prog.p, prog.h
    cd = p.endswith("_cd")
    method = p in ("method", "nmethod", "method_cd", "nmethod_cd")
    ann = hint_src(h, p, form)
    out = []
    if form == "post":
        out.append("from __future__ import annotations")
    out += ["from typing import Optional", "from beartype import beartype", f"import {rtmod} as _rt",
            "_R = _rt.Run(__name__)", ""]
    deco = "" if cd else "@beartype"

    def cls_stmt(ind, n):
        # a NEW class object named n; the qualified name is made unique so that beartype's
        # repr-keyed hint caches (property C14) cannot confuse two definitions
        # (program kind "gen": N is a user generic whose pseudo-superclass constrains its contents)
        base = "(list[int])" if prog.gk == "gen" and n == "N" else ""
        return [f"{ind}class {n}{base}:", f"{ind}    __qualname__ = _R.qn({n!r})", f"{ind}_R.reg({n})"]

    def def_stmt(ind, fname, selfarg):
        lines = []
        if deco:
            lines.append(f"{ind}{deco}")
        args = "self, x" if selfarg else "x"
        lines.append(f"{ind}def {fname}({args}: {ann}): pass")
        return lines

    if p in ("closure", "cmethod"):
        body, tail = [], []
        pre, mid, post = [], [], []
        ind = "    " if p == "closure" else "        "
        for i, s in enumerate(prog.steps):
            a, pc = s["act"], s["s"]
            if a in ("Define", "Redefine"):
                if pc == "F1":
                    body += cls_stmt(ind, s["n"])
                else:
                    seg = pre if not any(x["act"] == "EnterF" for x in prog.steps[:i]) else \
                        (mid if not any(x["act"] == "EnterF2" for x in prog.steps[:i]) else post)
                    seg += cls_stmt("", s["n"])
            elif a == "Decorate":
                body += def_stmt(ind, "g", False) + [f"{ind}_R.fn[_act] = g"]
            elif a == "Call":
                call = f"_R.call({i}, _R.fn[{s['f']}], {_objsrc(s['obj'])})"
                if pc == "F1":
                    body.append(f"{ind}if _act == 1: {call}")
                elif pc == "F2":
                    tail.append(f"{ind}if _act == 2: {call}")
                else:
                    seg = mid if not any(x["act"] == "EnterF2" for x in prog.steps[:i]) else post
                    seg.append(call)
            elif a == "EnterF":
                pre.append("_enter(1)")
            elif a == "EnterF2":
                mid.append("_enter(2)")
        for n in prog.lnames:                 # a local of the enclosing function that is never bound
            if not any(s["act"] in ("Define", "Redefine") and s["s"] == "F1" and s["n"] == n for s in prog.steps):
                body += [f"{ind}if 0:", f"{ind}    class {n}: pass"]
        fbody = body + tail or [f"{ind}pass"]
        if p == "closure":
            out += ["def outer(_act):"] + fbody + ["", "def _enter(a): outer(a)", ""]
        else:
            out += ["class C:"]
            if prog.cdef:
                out += cls_stmt("    ", "N")
            out += ["    def meth(self, _act):"] + fbody + ["", "def _enter(a): C().meth(a)", ""]
        out += pre + mid + post
        return "\n".join(out) + "\n"

    # module function / methods: straight-line code, indentation follows the open class bodies
    depth = 0
    fref = "f"
    for i, s in enumerate(prog.steps):
        a, pc = s["act"], s["s"]
        ind = "    " * depth
        if a in ("Define", "Redefine"):
            out += cls_stmt(ind, s["n"])
        elif a == "EnterC":
            if cd:
                out.append("@beartype")
            out.append("class C:")
            depth = 1
        elif a == "EnterD":
            out.append("    class D:")
            depth = 2
        elif a == "LeaveD":
            out.append("    _R.reg(D)")
            depth = 1
        elif a == "LeaveC":
            out.append("_R.reg(C)")
            depth = 0
        elif a == "Decorate":
            out += def_stmt(ind, "m" if method else "f", method)
        elif a == "Call":
            if not method:
                ref = "f"
            elif pc == "M":
                ref = "C.m" if p in ("method", "method_cd") else "C.D.m"
            elif pc == "C":
                ref = "m" if p in ("method", "method_cd") else "D.m"
            else:
                ref = "m"
            out.append(f"{ind}_R.call({i}, {ref}, {_objsrc(s['obj'])}, {method})")
    return "\n".join(out) + "\n"


RT_SRC = r'''
"""run-time support of the generated C07 programs (one Run per generated module)"""
from beartype.roar import (BeartypeCallHintViolation, BeartypeCallHintForwardRefException,
                           BeartypeDecorHintForwardRefException)


class Unrelated:
    pass


class Run:
    def __init__(self, name):
        self.name = name
        self.classes = {}       # ClassId of the specification -> class object
        self.fn = {}
        self.out = []
        self.n = 0

    def qn(self, name):
        return "%s_v%d" % (name, self.n + 1)

    def reg(self, cls):
        self.n += 1
        self.classes[self.n] = cls

    def atom(self, a):
        if a[0] == "inst":
            if len(a) > 2 and a[2]:          # instance of a generic N(list[int]): conforming / violating contents
                return self.classes[a[1]]([1] if a[2] == "ok" else ["a"])
            return self.classes[a[1]]()
        if a[0] == "unrel":
            return Unrelated()
        return None

    def obj(self, o):
        if o[0] == "atom":
            return self.atom(o[1])
        if o[0] == "list":
            return [self.atom(o[1])]
        if o[0] == "dict":
            return {"k": self.atom(o[1])}
        return (self.atom(o[1]), self.atom(o[2]))

    def call(self, tag, f, o, method=False):
        x = self.obj(o)
        try:
            if method:
                f(None, x)
            else:
                f(x)
            r = "accept"
        except BeartypeCallHintViolation:
            r = "violation"
        except (BeartypeCallHintForwardRefException, BeartypeDecorHintForwardRefException):
            r = "fwdref"
        except BaseException as ex:          # noqa
            r = "exc:%s: %s" % (type(ex).__name__, str(ex)[:160])
        self.out.append([tag, r])
'''

RUNNER_SRC = r'''
import importlib, json, sys, traceback
pkgdir, names = sys.argv[1], sys.argv[2:]
sys.path.insert(0, pkgdir)
import beartype  # noqa
if names and names[0].startswith("@"):
    names = open(names[0][1:]).read().split()
for nm in names:
    try:
        m = importlib.import_module(nm)
        print(json.dumps({"mod": nm, "out": m._R.out}), flush=True)
    except BaseException as ex:      # noqa
        print(json.dumps({"mod": nm, "err": "%s: %s" % (type(ex).__name__, str(ex)[:300])}), flush=True)
'''


def _variants(prog):
    fs = ["str", "post"]
    if prog.h not in ("N", "Self"):
        fs.append("inner")
    if prog.evok():
        fs.insert(0, "ev")
    return fs


def run_programs(progs, d, tagbase="b", alone=False):
    """Render every program in every expressible variant, execute in parallel subprocesses.
    Returns [{form: {step index: outcome} | {"err": ..}}] aligned with ``progs``."""
    pkg = os.path.join(d, f"pkg_{tagbase}")
    os.makedirs(pkg, exist_ok=True)
    write_file(pkg, "c07rt.py", RT_SRC)
    runner = write_file(pkg, "_runner.py", RUNNER_SRC)
    mods = []          # (module name, prog index, form)
    for i, pr in enumerate(progs):
        for fm in _variants(pr):
            nm = f"m{tagbase}_{i}_{fm}"
            write_file(pkg, nm + ".py", render(pr, fm))
            mods.append((nm, i, fm))
    nb = len(mods) if alone else max(1, min(len(mods), PROCS * 4))
    chunks = [mods[k::nb] for k in range(nb)]
    env = dict(os.environ)
    env["PYTHONPATH"] = REPO + os.pathsep + env.get("PYTHONPATH", "")
    env["PYTHONDONTWRITEBYTECODE"] = "1"
    env["PYTHONHASHSEED"] = "0"

    def work(k):
        lst = write_file(pkg, f"_names_{k}.txt", "\n".join(m[0] for m in chunks[k]))
        cp = subprocess.run([sys.executable, "-W", "ignore", runner, pkg, "@" + lst], capture_output=True, text=True,
                            env=env, timeout=1800)
        res = {}
        for line in cp.stdout.splitlines():
            if line.startswith("{"):
                r = json.loads(line)
                res[r["mod"]] = r
        return res, cp.returncode, cp.stderr[-500:]

    results = {}
    with concurrent.futures.ThreadPoolExecutor(PROCS) as ex:
        for res, rc, err in ex.map(work, range(nb)):
            results.update(res)
    out = [dict() for _ in progs]
    for nm, i, fm in mods:
        r = results.get(nm)
        if r is None:
            out[i][fm] = {"err": "no output from the subprocess"}
        elif "err" in r:
            out[i][fm] = {"err": r["err"]}
        else:
            out[i][fm] = {int(t): o for t, o in r["out"]}
    return out


# ====================================================================== TLC output -> programs
_LAST = re.compile(r"(?:^|\n)(?:/\\ )?last = (.*?)(?=\n(?:/\\ )?[a-z]+ = |\Z)", re.S)


def _field(label, name):
    m = re.search(r"(?:^|\n)(?:/\\ )?%s = (.*?)(?=\n(?:/\\ )?[A-Za-z_]+ = |\Z)" % name, label, re.S)
    return tlc.parse_value(m.group(1).strip()) if m else None


def _light_graph(path):
    """-dump dot graph with only the fields the renderer needs (full states are big)."""
    nodes, edges, init = {}, [], []
    node_re = re.compile(r'^(-?\d+) \[label="((?:[^"\\]|\\.)*)"(,style = filled)?')
    edge_re = re.compile(r'^(-?\d+) -> (-?\d+) \[')
    with open(path) as fh:
        for line in fh:
            m = edge_re.match(line)
            if m:
                edges.append((m.group(1), "", m.group(2)))
                continue
            m = node_re.match(line)
            if m:
                nodes[m.group(1)] = m.group(2)
                if m.group(3):
                    init.append(m.group(1))
    # TLC writes the dump from several workers: make the edge cover independent of that order
    # (node identifiers are fingerprints of a randomly chosen polynomial: rank the nodes by their text)
    rank = {n: i for i, n in enumerate(sorted(nodes, key=nodes.get))}
    edges.sort(key=lambda e: (rank[e[0]], rank[e[2]]))
    init.sort(key=rank.get)
    return tlc.Graph(init, nodes, edges)


def _undot(s):
    return s.replace("\\n", "\n").replace('\\"', '"').replace("\\\\", "\\")


def _prog_from_labels(labels):
    """labels: raw state texts of one behaviour, initial state first."""
    first = labels[0]
    p, h = _field(first, "p"), _field(first, "h")
    lnames = _field(first, "lnames")
    cdef = _field(first, "cls") not in ((), None)
    steps = [_field(lb, "last") for lb in labels[1:]]
    return Prog(p, h, lnames, cdef, steps, _field(first, "gk"))


def programs_from_graph(dot):
    g = _light_graph(dot)
    paths = tlc.edge_cover_paths(g, max_len=64)
    cache = {}

    def lab(n):
        if n not in cache:
            cache[n] = _undot(g.nodes[n])
        return cache[n]

    progs = []
    for pth in paths:
        labels = [lab(pth[0][0])] + [lab(t) for (_, _, t) in pth]
        progs.append(_prog_from_labels(labels))
    return progs, len(g.nodes), len(g.edges)


def programs_from_sim(behs):
    progs = []
    for beh in behs:
        if len(beh) < 2:
            continue
        st0 = beh[0][1]
        steps = [st["last"] for _, st in beh[1:]]
        progs.append(Prog(st0["p"], st0["h"], st0["lnames"], st0["cls"] not in ((), None), steps, st0["gk"]))
    return progs


# ====================================================================== judging real outcomes
SYMPTOM = {
    ("accept", "violation"): "accepts an object that is no instance of the class the name denotes",
    ("violation", "accept"): "rejects an instance of the class the name denotes",
    ("accept", "fwdref"): "accepts although a needed name is unbound (no forward-reference exception)",
    ("violation", "fwdref"): "reports a violation although a needed name is unbound (no forward-reference exception)",
    ("fwdref", "accept"): "forward-reference exception although every name is bound",
    ("fwdref", "violation"): "forward-reference exception although every name is bound",
}
ROUTE_TEXT = {
    "fake": "parent frame gone: proxy resolved to the name-matching fake class",
    "otherframe": "parent frame searched by code object: another activation's locals were used",
    "global": "module attribute of the same name taken instead of the binding of the enclosing scope",
    "capglobal": "at decoration the module's class was captured for a name that is local to the enclosing function",
    "sharedproxy": "second activation's hint replaced by the first activation's hint object (proxies shared)",
    "unresolved": "proxy raised although the name is lexically bound",
    "membershiponly": "a forward reference resolved to a user generic (class N(list[int])) is checked for class "
                      "membership only: the contents the generic's pseudo-superclass demands are not checked",
}
DEVIATION_ROUTES = ["fake", "otherframe", "global", "capglobal"]     # sharedproxy was repaired (fix c823ac1)


def _model_form(fm):
    return fm


class Judge:
    def __init__(self, rep):
        self.rep = rep
        self.stats = {"generic_bad_contents_via_forward_ref": 0, "calls": 0, "want_fwdref_only": 0, "want_either": 0, "defined_later_resolved": 0,
                      "usable_after_fwdref": 0, "ev_compared": 0, "forms_compared": 0, "programs": 0,
                      "real_equals_model_0230": 0, "real_differs_from_model_0230": 0}
        self.routes = {}
        self.first = {}            # canonical key -> (prog, form, step) of the first example
        self.pending = []          # violations to confirm alone: (key, what, case)
        self.oracle_doubt = []
        self.diffs = []
        self.symptoms = {}

    def program(self, prog, outs, origin, model=True):
        self.stats["programs"] += 1
        raised = {}          # callable -> a forward-reference exception was really raised before
        for i, s in prog.calls():
            want = set(s["want"])
            self.stats["calls"] += 1
            self.rep.count()
            if want == {"fwdref"}:
                self.stats["want_fwdref_only"] += 1
            elif "fwdref" in want:
                self.stats["want_either"] += 1
            if not s["evok"] and "fwdref" not in want:
                self.stats["defined_later_resolved"] += 1
            # an instance of the right generic class with violating contents, the name resolved through a proxy:
            # only the pseudo-superclass check can reject it
            if want == {"violation"} and s["got"]["str"] == "violation" and \
                    any(a["t"] == "inst" and a.get("q") == "bad" for a in (s["obj"]["a"], s["obj"]["b"])) and \
                    any(v in ("global", "frame", "cell", "otherframe") for v in (s["via"]["a"], s["via"]["b"])):
                self.stats["generic_bad_contents_via_forward_ref"] += 1
            for r in (s["blame"]["str"]["a"], s["blame"]["str"]["b"]):
                if r and model:
                    self.routes[r] = self.routes.get(r, 0) + 1
            reals = {}
            for fm, res in outs.items():
                if "err" in res:
                    continue
                reals[fm] = res.get(i, "missing")
            if "ev" in reals:
                self.stats["ev_compared"] += 1
                if reals["ev"] not in want:
                    self.oracle_doubt.append((prog, i, reals["ev"], sorted(want)))
            if len(reals) > 1:
                self.stats["forms_compared"] += 1
            for fm, real in reals.items():
                if fm == "ev":
                    continue
                got = s["got"][fm]
                if model:
                    self.stats["real_equals_model_0230" if real == got else "real_differs_from_model_0230"] += 1
                if model and real != got and len(self.diffs) < 6:
                    self.diffs.append({"placement": prog.p, "hint": prog.h, "form": fm, "statement": i, "real": real,
                                       "model_0230": got, "allowed": sorted(want), "origin": origin,
                                       "source": render(prog, fm)})
                if real == "fwdref":
                    raised[s["f"]] = True
                elif raised.get(s["f"]) and "fwdref" not in want and real in want:
                    self.stats["usable_after_fwdref"] += 1
                    raised[s["f"]] = False
                if real in want:
                    continue
                self._violation(prog, i, s, fm, real, got, want, reals, origin)
        for fm, res in outs.items():
            if "err" in res:
                self._import_error(prog, fm, res["err"], origin)
        self.rep.nontrivial(prog.key())

    def _violation(self, prog, i, s, fm, real, got, want, reals, origin):
        wverd = sorted(want - {"fwdref"})[0] if want != {"fwdref"} else "fwdref"
        symptom = SYMPTOM.get((real, wverd), f"outcome {real}, allowed {sorted(want)}")
        bl = s["blame"][fm]
        route = next((r for r in (bl["a"], bl["b"]) if r), "")
        kind = "unbound-name-no-exception" if wverd == "fwdref" else \
            ("bound-name-exception" if real == "fwdref" else "wrong-class")
        if real == got and route:
            # the mechanism at a site: where the definition is placed, which resolution route went wrong
            key = {"placement": prog.p, "route": route}
            why = ROUTE_TEXT.get(route, route)
        elif real == "accept" and want == {"violation"} and got == "violation" and any(
                a["t"] == "inst" and a.get("q") == "bad" for a in (s["obj"]["a"], s["obj"]["b"])):
            # the switch MembershipOnly of FwdRef.tla (off in the model of the unchanged tree)
            key = {"placement": prog.p, "route": "membershiponly"}
            why = ("a forward reference resolved to a user generic (class N(list[int])) is checked for class "
                   "membership only: the contents the generic's pseudo-superclass demands are not checked")
        else:
            key = {"placement": prog.p, "hint": prog.h, "form": fm, "real": real, "allowed": sorted(want),
                   "model_0230": got, "unmodelled": True}
            why = "not explained by the 0.23.0 switches of FwdRef.tla"
        ck = json.dumps(key, sort_keys=True)
        # example shown for a key: prefer natural programs, a wrong verdict over a missing exception, short ones
        rank = (not prog.natural(), kind != "wrong-class", len(prog.steps), fm != "str")
        count = 1
        if ck in self.first:
            self.first[ck]["count"] += 1
            if rank >= self.first[ck]["rank"]:
                self.symptoms[ck][kind] = self.symptoms[ck].get(kind, 0) + 1
                return
            count = self.first[ck]["count"]
        what = (f"placement {prog.p}, annotation {hint_src(prog.h, prog.p, fm)} ({fm} form), statement {i}: "
                f"{_fmt_obj(s['obj'])} -> real outcome {real}; C07 allows {sorted(want)} "
                f"(outcomes of the variants of this call: {reals}). {symptom}. Cause: {why}.")
        case = {"prog": prog.to_json(), "form": fm, "step": i, "origin": origin, "real": real,
                "allowed": sorted(want), "symptom": kind, "source": render(prog, fm)}
        self.symptoms.setdefault(ck, {})
        self.symptoms[ck][kind] = self.symptoms[ck].get(kind, 0) + 1
        self.first[ck] = {"key": key, "what": what, "case": case, "count": count, "prog": prog, "form": fm, "step": i,
                          "rank": rank}

    def _import_error(self, prog, fm, err, origin):
        if err.startswith("Beartype"):
            key = {"placement": prog.p, "hint": prog.h, "form": fm, "decoration_error": err.split(":")[0]}
            ck = json.dumps(key, sort_keys=True)
            if ck not in self.first:
                self.first[ck] = {"key": key, "what": f"placement {prog.p}, {fm} form: the program stops with {err}",
                                  "case": {"prog": prog.to_json(), "form": fm, "step": -1, "origin": origin,
                                           "source": render(prog, fm)},
                                  "count": 1, "prog": prog, "form": fm, "step": -1, "rank": (False, False, 0, False)}
        else:
            self.rep.machinery(f"generated program failed for a reason unrelated to beartype ({fm} form): {err}\n"
                               + render(prog, fm))

    def confirm_and_report(self, d):
        """Each distinct violation is re-run alone in a fresh interpreter before it is reported."""
        if self.oracle_doubt:
            prog, i, real, want = self.oracle_doubt[0]
            self.rep.machinery(f"oracle cannot be trusted: the EVALUATED variant of a program gives {real} at statement "
                               f"{i} where FwdRef.tla allows {want}:\n" + render(prog, "ev"))
        items = list(self.first.values())
        if not items:
            return
        solo = run_programs([it["prog"] for it in items], d, tagbase="solo", alone=True)
        for it, out in zip(items, solo):
            fm, i = it["form"], it["step"]
            r = out.get(fm, {})
            if i >= 0:
                real = r.get(i) if "err" not in r else "err"
                if real != it["case"]["real"]:
                    self.rep.note(f"batch-dependent outcome (alone: {real}, in the batch: {it['case']['real']}), "
                                  f"not reported: {it['what'][:300]}")
                    self.rep.add("batch_dependent")
                    continue
            it["case"]["occurrences"] = it["count"]
            it["case"]["symptoms"] = self.symptoms.get(json.dumps(it["key"], sort_keys=True), {})
            if not it["prog"].natural():
                # the only programs showing this deviation make a name local to the enclosing function with a
                # class statement that never runs (dead code): recorded, not reported
                self.rep.cov.setdefault("deviations_only_in_dead_code_programs", []).append(
                    {"key": it["key"], "occurrences": it["count"], "source": it["case"]["source"]})
                continue
            self.rep.violation(it["key"], it["what"], it["case"])


def _fmt_obj(o):
    def atom(a):
        cont = {"ok": " (generic, conforming contents [1])", "bad": " (generic, violating contents ['a'])"}.get(
            a.get("q", ""), "")
        return {"inst": f"instance of class #{a['c']}{cont}", "unrel": "instance of an unrelated class",
                "none": "None"}[a["t"]]
    if o["shape"] == "tuple":
        return f"({atom(o['a'])}, {atom(o['b'])})"
    if o["shape"] == "list":
        return f"[{atom(o['a'])}]"
    if o["shape"] == "dict":
        return "{'k': %s}" % atom(o["a"])
    return atom(o["a"])


# ====================================================================== the check
VERDICT_INVS = {"VerdictAsEvaluated", "UnresolvableRaises", "UnneededEither"}
MUTANTS = [  # switch, placements, hints, invariants that may report it
    ("GlobalFirst", ["closure", "method"], ["N"], VERDICT_INVS),
    ("FakeFallback", ["closure"], ["N"], VERDICT_INVS),
    ("FakeFallback", ["method", "nmethod"], ["list"], VERDICT_INVS),
    ("FrameByCode", ["closure"], ["N"], VERDICT_INVS),
    ("SharedProxy", ["closure"], ["list"], VERDICT_INVS),
    ("CacheFailure", ["modfunc"], ["N"], {"UsableOnceDefined"}),
    # a resolved forward reference to a user generic checks class membership only
    ("MembershipOnly", ["modfunc", "closure"], ["N", "list", "opt"], {"VerdictAsEvaluated", "FormsAgree"}),
]
MUTANT_KINDS = {"MembershipOnly": ["gen"]}


def _coverage(out):
    """action -> number of states generated (tlc.py's parser skips actions whose location carries a
    parenthesised sub-expression suffix, as the quantified CallAny does)"""
    cov = {}
    for m in re.finditer(r"^<([A-Za-z_][A-Za-z0-9_]*) line \d+, col \d+ to line \d+, col \d+ of module FwdRef"
                         r"(?: \([\d ]+\))?>: (\d+):(\d+)", out, re.M):
        cov[m.group(1)] = cov.get(m.group(1), 0) + int(m.group(3))
    return cov


def _job_mutant(d, k):
    sw, pls, hints, allowed = MUTANTS[k]
    cfg = write_file(d, f"mut{k}.cfg", _cfg(pls, hints, 9, 2, 2, {sw: True},
                                            invariants=[i for i in INVARIANTS if i != "NoFailureCached"],
                                            kinds=MUTANT_KINDS.get(sw, ["plain"])))
    return tlc.run_tlc("FwdRef.tla", cfg, workers=2)


def _job_intended(d, k, pls, hints, steps, defs, calls, kinds=("plain",)):
    cfg = write_file(d, f"int{k}.cfg", _cfg(pls, hints, steps, defs, calls, kinds=kinds))
    return tlc.run_tlc("FwdRef.tla", cfg, coverage=True, workers=16)


def _job_graph(d, label, pls, hints, steps, defs, calls, kinds=("plain",)):
    cfg = write_file(d, f"g_{label}.cfg", _cfg(pls, hints, steps, defs, calls, V0230, invariants=[], kinds=kinds))
    dot = os.path.join(d, f"g_{label}")
    res = tlc.run_tlc("FwdRef.tla", cfg, dump_dot=dot, workers=4)
    progs, nn, ne = programs_from_graph(dot + ".dot")
    os.remove(dot + ".dot")
    return res, [p for p in progs if p.calls()], nn, ne


def _job_sim(d, label, pls, hints, steps, defs, calls, num, k, seed):
    seed = seed * 1000 + k
    cfg = write_file(d, f"s_{label}.cfg", _cfg(pls, hints, steps, defs, calls, V0230, invariants=[], kinds=BOTH))
    sd = os.path.join(d, f"sim_{label}")
    os.makedirs(sd)
    res = tlc.run_tlc("FwdRef.tla", cfg, workers=1, simulate=f"file={sd}/tr,num={num}", depth=steps + 1, seed=seed)
    progs = []
    for fn in sorted(os.listdir(sd)):
        txt = open(os.path.join(sd, fn)).read()
        labels = [x for x in re.split(r"STATE_\d+ ==\s*\n", txt)[1:]]
        labels = [re.split(r"\n\s*\n", lb)[0] for lb in labels]
        if len(labels) >= 2:
            pr = _prog_from_labels(labels)
            if pr.calls():
                progs.append(pr)
    return res, progs


def run(rep, tier, seed):
    rep.assumptions += [
        "one behaviour of FwdRef.tla = one generated Python module; class identities are numbered in execution order",
        "every generated class gets a unique __qualname__ (its __name__ is the plain name): beartype's repr-keyed "
        "hint caches (property C14, finding F4a) would otherwise make even the evaluated variant reject the new "
        "class of a second definition",
        "containers hold exactly one item (two for the fixed tuple) so that no random sampling is involved",
        "a forward-reference exception = BeartypeCallHintForwardRefException or BeartypeDecorHintForwardRefException "
        "(or a subclass) raised by the call",
        "where an unbound name cannot influence the verdict (None for N | None, a non-list for list[N], a first "
        "tuple item that already fails) both the verdict and a forward-reference exception are accepted",
        "programs re-bind a name only when no earlier check may or may not have pinned it (unambiguous first need)",
        "user generics are class N(list[int]) with the one-item contents [1] (conforming) or ['a'] (violating); within "
        "one program every class statement of the name N is of the same kind",
    ]
    quick = tier == "quick"
    t0 = time.time()
    class_pl = ["modfunc", "method", "nmethod", "method_cd", "nmethod_cd"]
    fun_pl = ["closure", "cmethod"]
    five = ["N", "list", "opt", "dict", "tuple"]
    if quick:
        intended = [(class_pl, ALL_HINTS, 7, 2, 2), (fun_pl, ["N", "list", "tuple"], 7, 2, 2),
                    (fun_pl, ["opt", "dict"], 6, 2, 2),
                    (ALL_PLACEMENTS, ["N", "list", "opt"], 6, 2, 2, ["gen"])]
        graphs = [("cls", class_pl, ["N", "tuple", "Self"], 5, 2, 2), ("fun", fun_pl, ["N", "list"], 6, 2, 2),
                  ("fun2", ["closure"], ["N", "list"], 7, 2, 1),
                  ("gen", ["modfunc", "method", "method_cd", "closure"], ["N", "list", "opt"], 5, 2, 2, ["gen"])]
        sims = [(f"all{k}", ALL_PLACEMENTS, ALL_HINTS, 11, 4, 4, 100, k) for k in range(4)]
    else:
        intended = [(class_pl, ALL_HINTS, 9, 3, 3), (fun_pl, five, 9, 3, 2), (ALL_PLACEMENTS, five, 8, 2, 2, ["gen"])]
        graphs = [("cls", class_pl, ALL_HINTS, 6, 2, 2), ("fun", fun_pl, five, 6, 2, 2),
                  ("fun2", fun_pl, ["N", "list", "tuple"], 8, 2, 1),
                  ("gen", class_pl, five, 6, 2, 2, ["gen"]), ("genfun", fun_pl, ["N", "list", "opt"], 6, 2, 2, ["gen"])]
        sims = [(f"all{k}", ALL_PLACEMENTS, ALL_HINTS, 14, 5, 5, 500, k) for k in range(10)] + \
               [(f"fun{k}", fun_pl, ALL_HINTS, 14, 5, 5, 500, 100 + k) for k in range(6)] + \
               [(f"cls{k}", class_pl, ALL_HINTS, 14, 5, 5, 500, 200 + k) for k in range(4)]
    with scratch("c07-") as d:
        judge = Judge(rep)
        with concurrent.futures.ThreadPoolExecutor(12) as ex:
            f_mut = [ex.submit(_job_mutant, d, k) for k in range(len(MUTANTS))]
            f_graph = [ex.submit(_job_graph, d, *g) for g in graphs]
            f_sim = [ex.submit(_job_sim, d, *sm, seed) for sm in sims]
            # ---- R1: the intended design (every switch off) satisfies every invariant
            for k, (pls, hints, steps, defs, calls, *kinds) in enumerate(intended):
                res = _job_intended(d, k, pls, hints, steps, defs, calls, *kinds)
                rep.tlc(res, f"FwdRef intended design {pls} x {hints} steps {steps} kinds {kinds[0] if kinds else ['plain']}")
                if res.violated:
                    rep.machinery(f"FwdRef.tla with every switch off violates {res.violated} on {pls} x {hints}: "
                                  f"the specification of the intended design is itself inconsistent")
                need = {"Decorate", "CallAny", "Define", "Redefine"}
                if any(p in pls for p in fun_pl):
                    need |= {"EnterF", "LeaveF", "EnterF2"}
                if any(p in pls for p in ("nmethod", "nmethod_cd")):
                    need |= {"EnterC", "EnterD", "LeaveD", "LeaveC"}
                cov = _coverage(res.output)
                zero = sorted(a for a in need if cov.get(a, 0) == 0)
                if zero:
                    rep.machinery(f"vacuous TLC run on {pls} x {hints}: actions never taken: {zero}")
            rep.note(f"R1 intended design done after {time.time() - t0:.0f}s")
            # ---- R1: every switch alone is rejected; the counterexamples are programs
            mut = []
            for k, fu in enumerate(f_mut):
                sw, pls, hints, allowed = MUTANTS[k]
                res = fu.result()
                rep.tlc(res, f"FwdRef mutant {sw} {pls}")
                if res.violated not in allowed:
                    rep.machinery(f"spec mutant {sw}=TRUE on {pls}: expected TLC to report one of {sorted(allowed)}, "
                                  f"got {res.violated}: the specification does not constrain this switch")
                rep.add("spec_mutants_killed")
                st0 = res.error_trace[0][1]
                steps = [st["last"] for _, st in res.error_trace[1:]]
                mut.append((sw, Prog(st0["p"], st0["h"], st0["lnames"], st0["cls"] not in ((), None), steps,
                                     st0["gk"])))
            # ---- R2: programs
            progs, origin = [], []
            for g, fu in zip(graphs, f_graph):
                res, ps, nn, ne = fu.result()
                rep.tlc(res, f"FwdRef 0.23.0 switches, graph {g[0]} {g[1]} x {g[2]} steps {g[3]} kinds {g[6] if len(g) > 6 else ['plain']}")
                rep.add("graph_nodes", nn)
                rep.add("graph_edges_replayed", ne)
                progs += ps
                origin += [f"edge cover of the state graph {g[0]}"] * len(ps)
                rep.note(f"graph {g[0]}: {nn} states, {ne} edges, {len(ps)} programs ({time.time() - t0:.0f}s)")
            for sm, fu in zip(sims, f_sim):
                res, ps = fu.result()
                rep.tlc(res, f"FwdRef 0.23.0 switches, simulation {sm[0]} depth {sm[3]}")
                progs += ps
                origin += [f"tlc -simulate {sm[0]} seed {seed * 1000 + sm[7]}"] * len(ps)
                rep.add("simulated_programs", len(ps))
        seen, uprogs, uorigin = set(), [], []
        for p, o in zip(progs, origin):
            k = p.key()
            if k not in seen:
                seen.add(k)
                uprogs.append(p)
                uorigin.append(o)
        rep.note(f"{len(uprogs)} distinct programs to execute ({time.time() - t0:.0f}s)")
        mouts = run_programs([p for _, p in mut], d, tagbase="mut")
        for (sw, p), o in zip(mut, mouts):
            judge.program(p, o, f"TLC counterexample of the switch {sw} alone", model=False)
        outs = run_programs(uprogs, d)
        rep.note(f"programs executed ({time.time() - t0:.0f}s)")
        for p, o, org in zip(uprogs, outs, uorigin):
            judge.program(p, o, org)
            rep.add("traces_validated_against_impl")
        for p in uprogs[::max(1, len(uprogs) // 6)]:
            rep.sample({"placement": p.p, "hint": p.h, "program": render(p, "str")})
        for k, v in judge.stats.items():
            rep.add(k, v)
        rep.cov["model_routes_exercised"] = dict(judge.routes)
        if judge.diffs:
            rep.cov["model_0230_differences"] = judge.diffs
        # non-vacuity of the replay
        st = judge.stats
        for k in ("want_fwdref_only", "want_either", "defined_later_resolved", "usable_after_fwdref", "ev_compared",
                  "forms_compared", "generic_bad_contents_via_forward_ref"):
            if st[k] == 0:
                rep.machinery(f"vacuous replay: no executed call with {k}")
        missing = [r for r in DEVIATION_ROUTES if not judge.routes.get(r)]
        if missing:
            rep.machinery(f"vacuous replay: the 0.23.0 switches {missing} never influenced a generated program")
        if st["real_differs_from_model_0230"]:
            rep.spec_drift(f"{st['real_differs_from_model_0230']} real outcomes differ from the 0.23.0-switch model of "
                           f"FwdRef.tla (attribution only; the verdict is decided against Want)")
        judge.confirm_and_report(d)
    rep.cov["exhaustive"] = False


def replay(rep, path):
    case = json.load(open(path))["case"]
    prog = Prog.from_json(case["prog"])
    for s in prog.steps:
        s["want"] = set(s["want"])
    with scratch("c07r-") as d:
        out = run_programs([prog], d, alone=True)[0]
    print(render(prog, case["form"]))
    for i, s in prog.calls():
        print(f"statement {i}: {_fmt_obj(s['obj'])}: allowed {sorted(s['want'])}; real " +
              ", ".join(f"{fm}={r.get(i) if 'err' not in r else r['err']}" for fm, r in out.items()))
    judge = Judge(rep)
    judge.program(prog, out, "replay")
    for it in judge.first.values():
        rep.violation(it["key"], it["what"], it["case"])
    rep.level = "exploration"
    rep.count(2)
    rep.nontrivial("a")
    rep.nontrivial("b")
