"""C19 — is_subhint is a sound preorder and TypeHint wrappers are coherent.

R1  TLC checks MC_Subhint.tla (EXTENDS Subhint EXTENDS Semantics): for a bounded set of hints over
    the kinds the property names, IsSub(F, a, b) - beartype.door's algorithm transcribed method by
    method, three-valued (holds / does not hold / raises "undecidable") - is evaluated for every
    ordered pair; reflexivity, soundness (Sub(a,b) and no Any => forall x in the whole object
    universe: Sat(a,x) => SatB(b,x)), the children projection and the singleton cache of doormeta
    are invariants of that module; transitivity over ALL triples and the == / hash laws are
    invariants of MC_SubhintLaws.tla on the matrix assembled from the rows the first run emitted.
    The flags F select the relation: {} is the relation the property demands (all invariants must
    hold), LegacyFaithful is beartype 0.23.0 (TLC must REJECT soundness, transitivity, == => equal
    hashes and the children projection: non-vacuity), plus spec mutants (issubclass swapped, union
    rule with any for all, Literal ignoring member types, fixed tuples zipped short).
R2  for every enumerated ordered pair the real is_subhint(A, B) and TypeHint(A) == TypeHint(B)
    (value or exception class) are collected (two spellings of every hint) and
      * compared with the faithful IsSub / EqH of the model (binding strength; spec drift only),
      * re-judged ON THE REAL ANSWERS: reflexivity, transitivity over all triples (re-confirmed on
        one and the same hint objects), soundness: for every real-True pair without Any every
        object x of the universe with Sat(a, x) - the spec's Sat, from the TLC rows - is passed to
        the real is_bearable(x, B) under all draw residues; a rejection is a soundness violation,
      * wrapper coherence is observed directly: TypeHint(h) is TypeHint(h) (also for a rebuilt equal
        hint), == => equal hashes and mutual subhints, len / iter / [] / in / .args agree.
"""
from __future__ import annotations

import collections
import collections.abc as cabc
import functools
import glob
import json
import multiprocessing as mp
import operator
import os
import random
import typing
import warnings
from concurrent.futures import ThreadPoolExecutor

from verifkit.bind import sem           # noqa  (controls the sampler, then imports beartype)
from verifkit.bind.sem import DRAW, World, okey, short_hint, short_obj, short_val, _ORIGINS
from verifkit import tlc, util

LEVEL = "model_checking"

FAITHFUL = ["any_bottom", "lit_untyped_in", "lit_generic_fallback", "ann_not_gt", "call_param_not_gt",
            "call_args_ign", "raw_hash", "kids_not_args"]
FIXED = [f for f in FAITHFUL if f not in ("lit_untyped_in", "lit_generic_fallback", "ann_not_gt")]
SPEC_MUTANTS = ["issubclass_swapped", "union_any_for_all", "lit_ignores_member_types", "tuple_zip_short"]


# ----------------------------------------------------------------------------- concretiser
class World19(World):
    """World of verifkit.bind.sem extended by the hint kinds of Subhint.tla (NewType, TypeVar,
    Callable, bare ABCs).  Every abstract hint is built once per spelling (identity matters to
    reflexivity, to NewType / TypeVar and to the == of validators)."""

    def __init__(self):
        super().__init__()
        self.classes.update({"Sequence": cabc.Sequence, "Collection": cabc.Collection, "Callable": cabc.Callable,
                             "type": type})
        self._hc = {}
        self._vc = {}
        self._named = {}

    _TYPING_CLS = {"Sequence": typing.Sequence, "Collection": typing.Collection, "Callable": typing.Callable,
                   "list": typing.List, "dict": typing.Dict, "tuple": typing.Tuple, "type": typing.Type}

    def hint(self, h, sp=0):
        key = (okey(h), sp)
        got = self._hc.get(key)
        if got is None and key not in self._hc:
            got = self._hc[key] = self._build(h, sp)
        return got

    def fresh(self, h, sp=0):
        """The same hint rebuilt from scratch (children that have identity - classes, NewTypes, TypeVars,
        validators - are shared): equal and hash-equal to self.hint(h, sp) but not the same object."""
        saved = self._hc
        self._hc = {k: v for k, v in saved.items() if json.loads(k[0])["k"] in ("newtype", "tvar")}
        try:
            return self._build(h, sp)
        finally:
            self._hc = saved

    def validator(self, v, leaves=None):
        key = okey(v)
        if key not in self._vc:
            self._vc[key] = super().validator(v, None)
        return self._vc[key]

    def _build(self, h, sp):
        k, s, a = h["k"], h["s"], h["a"]
        T = typing
        old = sp % 2 == 1
        if k == "any":
            return T.Any
        if k == "cls":
            if s == "NoneType":
                return None
            return self._TYPING_CLS[s] if (old and s in self._TYPING_CLS) else self.classes[s]
        if k == "newtype":
            name = f"NT_{s}_{self.n}"
            if name not in self._named:
                self._named[name] = T.NewType(name, self.classes[s])
            return self._named[name]
        if k == "tvar":
            name = f"TV{self.n}_{len(self._named)}"
            if s == "free":
                tv = T.TypeVar(name)
            elif s == "bound":
                tv = T.TypeVar(name, bound=self.hint(a[0], 0))
            else:
                tv = T.TypeVar(name, *[self.hint(c, 0) for c in a])
            self._named[name] = tv
            # one TypeVar per abstract description, whatever the spelling
            for spx in (0, 1):
                self._hc[(okey(h), spx)] = tv
            return tv
        if k == "lit":
            return T.Literal[tuple(self.atom(m) for m in h["m"])]
        if k == "type":
            inner = self.hint(a[0], sp)
            return T.Type[inner] if old else type[inner]
        if k == "union":
            ms = [self.hint(c, sp) for c in a]
            if old:
                try:
                    return functools.reduce(operator.or_, ms)
                except TypeError:
                    pass
            return T.Union[tuple(ms)]
        if k == "tupf":
            ms = tuple(self.hint(c, sp) for c in a)
            if not ms:
                return T.Tuple[()] if old else tuple[()]
            return T.Tuple[ms] if old else tuple[ms]
        if k in ("seq", "reit", "quasi"):
            c = self.hint(a[0], sp)
            if s == "tuple":
                return T.Tuple[c, ...] if old else tuple[c, ...]
            new_, old_ = _ORIGINS[s]
            return old_[c] if old else new_[c]
        if k == "shallow":
            if s == "Iterator":
                return T.Iterator[int] if old else cabc.Iterator[int]
            return T.Generator[int, None, None] if old else cabc.Generator[int, None, None]
        if k == "map":
            kk = self.hint(a[0], sp)
            if s == "Counter":
                return T.Counter[kk] if old else collections.Counter[kk]
            vv = self.hint(a[1], sp)
            new_, old_ = _ORIGINS[s]
            return old_[kk, vv] if old else new_[kk, vv]
        if k == "items":
            kk, vv = self.hint(a[0], sp), self.hint(a[1], sp)
            return T.ItemsView[kk, vv] if old else cabc.ItemsView[kk, vv]
        if k == "ann":
            base = self.hint(a[0], sp)
            return T.Annotated[(base,) + tuple(self.validator(v) for v in h["m"])]
        if k == "call":
            ret = self.hint(a[-1], sp)
            fac = T.Callable if old else cabc.Callable
            if s == "ellipsis":
                return fac[..., ret]
            return fac[[self.hint(c, sp) for c in a[:-1]], ret]
        raise KeyError(k)


def sh(h) -> str:
    """short_hint of sem extended by the kinds of Subhint.tla."""
    k, s, a = h["k"], h["s"], h["a"]
    if k == "newtype":
        return f"NewType({s})"
    if k == "tvar":
        return "TypeVar(" + {"free": "", "bound": "bound=" + (sh(a[0]) if a else ""),
                             "constr": ",".join(sh(c) for c in a)}[s] + ")"
    if k == "call":
        return "Callable[" + ("..." if s == "ellipsis" else "[" + ",".join(sh(c) for c in a[:-1]) + "]") + "," + sh(a[-1]) + "]"
    if k == "lit":
        return "Literal[" + ",".join(short_obj(m) for m in h["m"]) + "]"
    if k == "union":
        return "(" + "|".join(sh(c) for c in a) + ")"
    if k == "tupf":
        return "tuple[" + (",".join(sh(c) for c in a) or "()") + "]"
    if k == "type":
        return "type[" + sh(a[0]) + "]"
    if k == "ann":
        return "Annotated[" + sh(a[0]) + "," + ",".join(short_val(v) for v in h["m"]) + "]"
    if k in ("any", "cls", "shallow"):
        return short_hint(h)
    if s == "tuple":
        return "tuple[" + sh(a[0]) + ",...]"
    return s + "[" + ",".join(sh(c) for c in a) + "]"
