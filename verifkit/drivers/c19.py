"""C19 — is_subhint is a sound preorder and TypeHint wrappers are coherent.

R1  TLC checks MC_Subhint.tla (EXTENDS Subhint EXTENDS Semantics): for a bounded set of hints over
    the kinds the property names, IsSub(F, a, b) - beartype.door's algorithm transcribed method by
    method, three-valued (holds / does not hold / raises "undecidable") - is evaluated for every
    ordered pair; reflexivity, soundness (Sub(a,b) and no Any => forall x in the whole object
    universe: Sat(a,x) => SatB(b,x)), the children projection and the singleton cache of doormeta
    are invariants of that module; transitivity over ALL triples and the == / hash laws are
    invariants of MC_SubhintLaws.tla on the matrix assembled from the rows the first run emitted.
    The flags F select the relation: {} is the relation the property demands (all invariants must
    hold), LegacyFaithful is beartype 0.23.0 (TLC must REJECT soundness, transitivity, == => equal
    hashes and the children projection: non-vacuity), plus spec mutants (issubclass swapped, union
    rule with any for all, Literal ignoring member types, fixed tuples zipped short).
    Conventions: an is_subhint call that raises counts as "does not hold" (so a <= b, b <= c with a <= c raising
    violates transitivity, and h <= h raising violates reflexivity); transitivity is demanded for ALL hints
    including Any (the statement exempts Any only from soundness) - the violations through Any carry their own
    keys; soundness is judged only for pairs without Any whose left side has a full meaning in the universe.
    Repr twins: the hint set contains pairs of DISTINCT hints with one repr() and different meanings (same-named
    TypeVars with different bounds / constraints, same-named NewTypes over different bases, classes made by one
    factory; bare and nested).  The wrapper cache of doormeta is a state machine of MC_Subhint.tla keyed on the
    hint (Coh_Singleton, Coh_HintIsH: TypeHint(h).hint is h and twins get distinct wrappers, Sound_Twin); keyed on
    repr(hint) (spec mutant "repr_key") TLC rejects Coh_HintIsH and Sound_Twin.  On the real code both twins are
    wrapped and queried in ONE process in both orders (_twins).
R2  for every enumerated ordered pair the real is_subhint(A, B) and TypeHint(A) == TypeHint(B)
    (value or exception class) are collected (two spellings of every hint) and
      * compared with the faithful IsSub / EqH of the model (binding strength; spec drift only),
      * re-judged ON THE REAL ANSWERS: reflexivity, transitivity over all triples (re-confirmed on
        one and the same hint objects), soundness: for every real-True pair without Any every
        object x of the universe with Sat(a, x) - the spec's Sat, from the TLC rows - is passed to
        the real is_bearable(x, B) under all draw residues; a rejection is a soundness violation,
      * wrapper coherence is observed directly: TypeHint(h) is TypeHint(h) (also for a rebuilt equal
        hint), == => equal hashes and mutual subhints, len / iter / [] / in / .args agree.
"""
from __future__ import annotations

import collections
import collections.abc as cabc
import functools
import glob
import json
import multiprocessing as mp
import operator
import os
import typing
import warnings
from concurrent.futures import ThreadPoolExecutor

from verifkit.bind import sem           # noqa  (controls the sampler, then imports beartype)
from verifkit.bind.sem import DRAW, World, okey, short_hint, short_obj, short_val, _ORIGINS
from verifkit import tlc, util

LEVEL = "model_checking"

FAITHFUL = ["any_bottom", "lit_untyped_in", "lit_generic_fallback", "ann_not_gt", "call_param_not_gt",
            "call_args_ign", "call_ign", "arity_raises", "tvar_branch_opaque", "raw_hash", "kids_not_args"]
FIXED = [f for f in FAITHFUL if f not in ("lit_untyped_in", "lit_generic_fallback", "ann_not_gt", "arity_raises",
                                          "tvar_branch_opaque")]
SPEC_MUTANTS = ["issubclass_swapped", "union_any_for_all", "lit_ignores_member_types", "tuple_zip_short"]


# ----------------------------------------------------------------------------- concretiser
class World19(World):
    """World of verifkit.bind.sem extended by the hint kinds of Subhint.tla (NewType, TypeVar,
    Callable, bare ABCs).  Every abstract hint is built once per spelling (identity matters to
    reflexivity, to NewType / TypeVar and to the == of validators)."""

    def __init__(self):
        super().__init__()
        self.classes.update({"Sequence": cabc.Sequence, "Collection": cabc.Collection, "Callable": cabc.Callable,
                             "type": type})
        self._hc = {}
        self._vc = {}
        self._named = {}

    _TYPING_CLS = {"Sequence": typing.Sequence, "Collection": typing.Collection, "Callable": typing.Callable,
                   "list": typing.List, "dict": typing.Dict, "tuple": typing.Tuple, "type": typing.Type}

    def hint(self, h, sp=0):
        key = (okey(h), sp)
        got = self._hc.get(key)
        if got is None and key not in self._hc:
            got = self._hc[key] = self._build(h, sp)
        return got

    def fresh(self, h, sp=0):
        """The same hint rebuilt from scratch (children that have identity - classes, NewTypes, TypeVars,
        validators - are shared): equal and hash-equal to self.hint(h, sp) but not the same object."""
        saved = self._hc
        self._hc = {k: v for k, v in saved.items() if json.loads(k[0])["k"] in ("newtype", "tvar")}
        try:
            return self._build(h, sp)
        finally:
            self._hc = saved

    def validator(self, v, leaves=None):
        key = okey(v)
        if key not in self._vc:
            self._vc[key] = super().validator(v, None)
        return self._vc[key]

    def _build(self, h, sp):
        k, s, a = h["k"], h["s"], h["a"]
        T = typing
        old = sp % 2 == 1
        if k == "any":
            return T.Any
        if k == "cls":
            if s == "NoneType":
                return None
            if s.startswith("K:"):          # classes made by one factory: one repr(), different bases
                if s not in self.classes:
                    for base in ("int", "str"):
                        c = _make_k(self.classes[base])
                        c.__name__ = c.__qualname__ = f"K_{self.n}"
                        self.classes["K:" + base] = c
                return self.classes[s]
            return self._TYPING_CLS[s] if (old and s in self._TYPING_CLS) else self.classes[s]
        if k == "newtype":
            if h["m"]:                      # explicitly named: same-named NewTypes over different bases
                key = f"NTW{h['m'][0]['v']}_{self.n}/{s}"
                if key not in self._named:
                    self._named[key] = T.NewType(key.split("/")[0], self.classes[s])
                return self._named[key]
            name = f"NT_{s}_{self.n}"
            if name not in self._named:
                self._named[name] = T.NewType(name, self.classes[s])
            return self._named[name]
        if k == "tvar":
            name = f"TW{h['m'][0]['v']}_{self.n}" if h["m"] else f"TV{self.n}_{len(self._named)}"
            if s == "free":
                tv = T.TypeVar(name)
            elif s == "bound":
                tv = T.TypeVar(name, bound=self.hint(a[0], 0))
            else:
                tv = T.TypeVar(name, *[self.hint(c, 0) for c in a])
            self._named[name + "/" + okey(h)] = tv
            # one TypeVar per abstract description, whatever the spelling
            for spx in (0, 1):
                self._hc[(okey(h), spx)] = tv
            return tv
        if k == "lit":
            return T.Literal[tuple(self.atom(m) for m in h["m"])]
        if k == "type":
            inner = self.hint(a[0], sp)
            return T.Type[inner] if old else type[inner]
        if k == "union":
            ms = [self.hint(c, sp) for c in a]
            if old:
                try:
                    return functools.reduce(operator.or_, ms)
                except TypeError:
                    pass
            return T.Union[tuple(ms)]
        if k == "tupf":
            ms = tuple(self.hint(c, sp) for c in a)
            if not ms:
                return T.Tuple[()] if old else tuple[()]
            return T.Tuple[ms] if old else tuple[ms]
        if k in ("seq", "reit", "quasi"):
            c = self.hint(a[0], sp)
            if s == "tuple":
                return T.Tuple[c, ...] if old else tuple[c, ...]
            new_, old_ = _ORIGINS[s]
            return old_[c] if old else new_[c]
        if k == "shallow":
            if s == "Iterator":
                return T.Iterator[int] if old else cabc.Iterator[int]
            return T.Generator[int, None, None] if old else cabc.Generator[int, None, None]
        if k == "map":
            kk = self.hint(a[0], sp)
            if s == "Counter":
                return T.Counter[kk] if old else collections.Counter[kk]
            vv = self.hint(a[1], sp)
            new_, old_ = _ORIGINS[s]
            return old_[kk, vv] if old else new_[kk, vv]
        if k == "items":
            kk, vv = self.hint(a[0], sp), self.hint(a[1], sp)
            return T.ItemsView[kk, vv] if old else cabc.ItemsView[kk, vv]
        if k == "ann":
            base = self.hint(a[0], sp)
            return T.Annotated[(base,) + tuple(self.validator(v) for v in h["m"])]
        if k == "call":
            ret = self.hint(a[-1], sp)
            fac = T.Callable if old else cabc.Callable
            if s == "ellipsis":
                return fac[..., ret]
            return fac[[self.hint(c, sp) for c in a[:-1]], ret]
        raise KeyError(k)


def _make_k(base):
    class K(base):
        pass
    return K


def sh(h) -> str:
    """short_hint of sem extended by the kinds of Subhint.tla."""
    k, s, a = h["k"], h["s"], h["a"]
    if k == "newtype":
        return f"NewType('N{h['m'][0]['v']}',{s})" if h["m"] else f"NewType({s})"
    if k == "cls" and s.startswith("K:"):
        return f"K({s[2:]})"
    if k == "tvar":
        return "TypeVar(" + (f"'T{h['m'][0]['v']}'," if h["m"] else "") + {"free": "", "bound": "bound=" + (sh(a[0]) if a else ""),
                             "constr": ",".join(sh(c) for c in a)}[s] + ")"
    if k == "call":
        return "Callable[" + ("..." if s == "ellipsis" else "[" + ",".join(sh(c) for c in a[:-1]) + "]") + "," + sh(a[-1]) + "]"
    if k == "lit":
        return "Literal[" + ",".join(short_obj(m) for m in h["m"]) + "]"
    if k == "union":
        return "(" + "|".join(sh(c) for c in a) + ")"
    if k == "tupf":
        return "tuple[" + (",".join(sh(c) for c in a) or "()") + "]"
    if k == "type":
        return "type[" + sh(a[0]) + "]"
    if k == "ann":
        return "Annotated[" + sh(a[0]) + "," + ",".join(short_val(v) for v in h["m"]) + "]"
    if k in ("any", "cls", "shallow"):
        return short_hint(h)
    if s == "tuple":
        return "tuple[" + sh(a[0]) + ",...]"
    return s + "[" + ",".join(sh(c) for c in a) + "]"


# ----------------------------------------------------------------------------- TLC runs (R1)
CFG_A = """SPECIFICATION Spec
CONSTANTS
  Tier = "%(tier)s"
  L = %(L)d
  Emit = %(emit)s
  Mut = "none"
  Legacy = {%(legacy)s}
%(invs)s
CHECK_DEADLOCK FALSE
"""
CFG_B = """SPECIFICATION Spec
CONSTANTS
  RawHash = %(raw)s
%(invs)s
CHECK_DEADLOCK FALSE
"""
INV_A = ["Reflexive", "Sound", "Coh_Children", "Coh_Singleton", "Coh_HintIsH", "Sound_Twin"]
INV_B = ["Reflexive", "Transitive", "TransitiveNoAny", "Coh_EqHash", "Coh_EqMutual"]
_VIOL = __import__("re").compile(r"Error: Invariant (\S+) is violated")


def _violated(res):
    return sorted(set(_VIOL.findall(res.output)))


def tlc_rows(d, name, tier, legacy, invs, emit_dir=None, workers=16, cont=False):
    """MC_Subhint.tla: the relation under the flags `legacy`, the one-row laws, optionally the rows."""
    invl = "\n".join(f"INVARIANT {i}" for i in invs)
    if emit_dir:
        invl += "\nINVARIANT EmitMeta\nINVARIANT EmitRows"
    cfg = util.write_file(d, f"{name}.cfg", CFG_A % {
        "tier": tier, "L": 2 if tier == "quick" else 3, "emit": "TRUE" if emit_dir else "FALSE",
        "legacy": ", ".join(f'"{f}"' for f in legacy), "invs": invl})
    return tlc.run_tlc("MC_Subhint.tla", cfg, workers=workers, env={"ROW_DIR": emit_dir or "/nonexistent"},
                       timeout=7200, heap="12g", extra=["-continue"] if cont else None)


def tlc_laws(d, name, matrix_file, raw_hash, invs, workers=8, cont=False):
    """MC_SubhintLaws.tla on a matrix assembled from emitted rows."""
    cfg = util.write_file(d, f"{name}.cfg", CFG_B % {
        "raw": "TRUE" if raw_hash else "FALSE", "invs": "\n".join(f"INVARIANT {i}" for i in invs)})
    return tlc.run_tlc("MC_SubhintLaws.tla", cfg, workers=workers, env={"MATRIX_FILE": matrix_file}, timeout=3600,
                       heap="8g", extra=["-continue"] if cont else None)


def load_rows(rows_dir):
    meta = json.load(open(os.path.join(rows_dir, "meta.json")))
    n = meta["nhint"]
    rows = [None] * n
    for f in glob.glob(os.path.join(rows_dir, "row_*.json")):
        r = json.load(open(f))
        rows[r["i"] - 1] = r
    return meta, rows


def write_matrix(d, name, rows, ksub, keq):
    p = os.path.join(d, name)
    with open(p, "w") as fh:
        json.dump({"sub": [r[ksub] for r in rows], "eq": [r[keq] for r in rows],
                   "hasany": [1 if r["hasany"] else 0 for r in rows]}, fh)
    return p


# ----------------------------------------------------------------------------- real side (R2)
def _sub(is_subhint, exc, a, b):
    try:
        return 1 if is_subhint(a, b) else 0
    except exc:
        return 2
    except Exception as ex:        # noqa
        return "E:" + type(ex).__name__ + ": " + str(ex)[:120]


WK_REAL = {"AnyTypeHint": "Any", "ClassTypeHint": "Class", "NewTypeTypeHint": "NewType", "LiteralTypeHint": "Literal",
           "UnionTypeHint": "Union", "TypeVarTypeHint": "TypeVar", "TupleFixedTypeHint": "TupleFixed",
           "TupleVariableTypeHint": "TupleVariable", "AnnotatedTypeHint": "Annotated", "CallableTypeHint": "Callable",
           "SubscriptedTypeHint": "Subscripted"}


def sp_left(i, seed):
    return (i + seed) % 2


def sp_right(j, seed):
    return (j // 2 + seed) % 2


def _coherence(w, TypeHint, i, h, row, out):
    """Direct observation of one wrapper (both spellings)."""
    for sp in (0, 1):
        hint = w.hint(h, sp)
        th = TypeHint(hint)
        out["n_calls"] += 12
        if TypeHint(hint) is not th:
            out["coh"].append((i, "singleton", "TypeHint(h) is not TypeHint(h) for the same hint object"))
        twin = w.fresh(h, sp)
        try:
            same = twin == hint and hash(twin) == hash(hint)
        except Exception:      # noqa
            same = False
        if same and twin is not hint and TypeHint(twin) is not th:
            out["coh"].append((i, "singleton", "TypeHint(h2) is not TypeHint(h) for a rebuilt hint h2 == h with equal hash"))
        if TypeHint(th) is not th:
            out["coh"].append((i, "singleton", "TypeHint(wrapper) is not the wrapper"))
        if th.hint is not hint and not (same or th.hint == hint):
            out["coh"].append((i, "hint_attr", f".hint is {th.hint!r}, wrapped {hint!r}"))
        if hint is not None and hash(th) != hash(hint):
            out["drift"].append(f"hash(TypeHint({hint!r})) is not hash(hint)")
        kids = tuple(th)
        if len(th) != len(kids) or bool(th) != (len(kids) > 0):
            out["coh"].append((i, "len_iter", f"len {len(th)}, bool {bool(th)}, iteration yields {len(kids)} children"))
        for n, kid in enumerate(kids):
            if th[n] is not kid or th[n - len(kids)] is not kid:
                out["coh"].append((i, "getitem", f"[{n}] is not the child iteration yields at position {n}"))
            if kid not in th:
                out["coh"].append((i, "contains", f"child {kid!r} yielded by iteration is not `in` the wrapper"))
            if not isinstance(kid, TypeHint):
                out["coh"].append((i, "iter_type", f"iteration yields a non-wrapper {kid!r}"))
        if th[0:len(kids)] != kids:
            out["coh"].append((i, "getitem", "slice [0:len] differs from the iterated children"))
        args = th.args
        try:
            wrapped = tuple(TypeHint(a) for a in args)
            why = None
        except Exception as ex:     # noqa
            wrapped, why = None, f"an entry of .args is not a hint ({type(ex).__name__})"
        if wrapped is not None and (len(wrapped) != len(kids) or any(x is not y for x, y in zip(wrapped, kids))):
            why = f".args has {len(args)} entries {args!r:.80}, wrapping them gives {wrapped!r:.120}"
        if why:
            out["coh"].append((i, "args_children",
                               f"len / iter / [] expose {len(kids)} children {kids!r:.120} but {why}"))
        # the model's projection (binding strength only)
        proj = (WK_REAL.get(type(th).__name__, type(th).__name__), len(kids), len(args), bool(th._is_args_ignorable),
                bool(th.is_ignorable))
        want = (row["wk"], row["nkids"], row["nargs"], row["argsign"], row["ign"])
        if proj != want:
            out["drift"].append(f"projection of {sh(h)}: real {proj} model {want}")
        if (why is None) != bool(row["argskids"]):
            out["drift"].append(f"args/children of {sh(h)}: real coincide={why is None}, model {row['argskids']}")


def _accepts(w, is_bearable, o, real, hint, lcm):
    """Does the real checker accept the object for the hint under every draw residue?"""
    for r in range(lcm):
        DRAW.value = r
        x = real if real is not None else w.obj(o)
        try:
            if not is_bearable(x, hint):
                return False
        except Exception:       # noqa
            return False
    return True


def _worker(args):
    rows_dir, idxs, seed = args
    warnings.simplefilter("ignore")
    from beartype.door import TypeHint, is_bearable, is_subhint
    from beartype.roar import BeartypeDoorIsSubhintException as XC
    meta, rows = load_rows(rows_dir)
    hints, objs, lcm = meta["hints"], meta["objs"], meta["lcm"]
    n = len(hints)
    w = World19()
    P = [[w.hint(h, 0) for h in hints], [w.hint(h, 1) for h in hints]]
    real = [w.obj(o) if o["k"] != "iter" else None for o in objs]
    out = {"rows": {}, "coh": [], "drift": [], "n_calls": 0, "n_sound_pairs": 0, "n_sound_calls": 0, "errors": [],
           "disputed": set()}
    hasany = [r["hasany"] for r in rows]
    for a in idxs:
        ra = rows[a]
        HA = P[sp_left(a, seed)][a]
        tha = TypeHint(HA)
        sub, eq, hasheq = [0] * n, [0] * n, [0] * n
        for b in range(n):
            HB = P[sp_right(b, seed)][b]
            sub[b] = _sub(is_subhint, XC, HA, HB)
            thb = TypeHint(HB)
            try:
                e = tha == thb
                eq[b] = 1 if e is True else 0 if e is False else "E:" + repr(e)
            except XC:
                eq[b] = 2
            except Exception as ex:     # noqa
                eq[b] = "E:" + type(ex).__name__
            hasheq[b] = 1 if hash(tha) == hash(thb) else 0
        out["n_calls"] += 2 * n
        # soundness on the real answers: the oracle is the spec's Sat (row["sat"])
        unsound = []
        if ra["judged"]:
            sat = ra["sat"]
            for b in range(n):
                if sub[b] != 1 or hasany[b]:
                    continue
                HB = P[sp_right(b, seed)][b]
                out["n_sound_pairs"] += 1
                bad = None
                for j in sat:
                    for r in range(lcm):
                        DRAW.value = r
                        x = real[j - 1] if real[j - 1] is not None else w.obj(objs[j - 1])
                        try:
                            ok = is_bearable(x, HB)
                        except Exception as ex:     # noqa
                            out["errors"].append(f"is_bearable({short_obj(objs[j - 1])}, {HB!r}) raises {type(ex).__name__}")
                            ok = True
                        if not ok:
                            # the oracle (Sat) says x fully satisfies A: if the real checker itself rejects x for A,
                            # oracle and implementation disagree about A (C01 territory) - the pair is not judged on x
                            if _accepts(w, is_bearable, objs[j - 1], real[j - 1], HA, lcm):
                                bad = (j, r)
                            else:
                                out["disputed"].add(f"{short_obj(objs[j - 1])} / {sh(hints[a])}")
                            break
                    if bad:
                        break
                out["n_sound_calls"] += len(sat) * lcm
                if bad:
                    unsound.append((b, bad[0], bad[1]))
        out["rows"][a] = {"sub": sub, "eq": eq, "hasheq": hasheq, "unsound": unsound}
        # reflexivity on one and the same object, both spellings
        for sp in (0, 1):
            v = _sub(is_subhint, XC, P[sp][a], P[sp][a])
            if v != 1:
                out["coh"].append((a, "reflexive_same_object", f"is_subhint(h, h) on the same object: {v}"))
        try:
            _coherence(w, TypeHint, a, hints[a], ra, out)
        except Exception as ex:     # noqa
            out["coh"].append((a, "observation_raises", f"observing the wrapper raises {type(ex).__name__}: {str(ex)[:120]}"))
    return out


# ----------------------------------------------------------------------------- classes of violations
def _flat(h):
    out = []
    for c in h["a"]:
        out += _flat(c) if c["k"] == "union" else [c]
    return out


def _hasany(h):
    return h["k"] == "any" or any(_hasany(c) for c in h["a"])


def _wk(h):
    k = h["k"]
    return {"any": "Any", "cls": "Class", "newtype": "NewType", "lit": "Literal", "union": "Union", "tvar": "TypeVar",
            "tupf": "TupleFixed", "ann": "Annotated", "call": "Callable"}.get(
        k, "TupleVariable" if (k == "seq" and h["s"] == "tuple") else "Subscripted")


def shape(h, deep=True):
    """The class of a hint as far as violation keys distinguish hints."""
    k = h["k"]
    if k == "any":
        return "Any"
    if k == "cls":
        return "object" if h["s"] == "object" else "class"
    if k == "newtype":
        return "NewType"
    if k == "lit":
        return "Literal"
    if k == "tvar":
        return {"free": "TypeVar", "bound": "TypeVar(bound)", "constr": "TypeVar(constraints)"}[h["s"]]
    if k == "union":
        return "Union[" + ",".join(sorted({shape(m, False) for m in _flat(h)})) + "]" if deep else "Union"
    if k == "tupf":
        return "tuple[fixed]"
    if k == "ann":
        return "Annotated"
    if k == "call":
        return "Callable"
    if k == "seq" and h["s"] == "tuple":
        return "tuple[variadic]"
    if deep and h["a"] and all(_hasany(c) and c["k"] == "any" for c in h["a"]):
        return "subscripted[Any]"
    return "subscripted"


def _pyeq(m, n):
    num = ("int", "bool", "float")
    if m["cls"] in num and n["cls"] in num:
        return m["v"] == n["v"]
    return m == n


def pair_shapes(a, b):
    if a["k"] == "lit" and b["k"] == "lit":
        for m in a["m"]:
            if not any(n["cls"] == m["cls"] and _pyeq(m, n) for n in b["m"]):
                for n in b["m"]:
                    if _pyeq(m, n):
                        return f"Literal[{m['cls']} member]", f"Literal[== {n['cls']} member]"
                return f"Literal[{m['cls']} member]", "Literal[no equal member]"
    if b["k"] == "union" and any(shape(m) == shape(a) for m in _flat(b)):
        return shape(a), f"Union with {'an' if shape(a)[0] in 'AEIOU' else 'a'} {shape(a)} member"
    return shape(a), shape(b)


def child_pairs(a, b):
    ka, kb = a["k"], b["k"]
    if ka == "union":
        return [(m, b) for m in _flat(a)]
    if kb == "union":
        return [(a, m) for m in _flat(b)]
    if ka == "ann" and kb != "ann":
        return [(a["a"][0], b)]
    if ka == "tupf" and _wk(b) == "TupleVariable":
        return [(c, b["a"][0]) for c in a["a"]]
    if _wk(a) == _wk(b) and len(a["a"]) == len(b["a"]) and ka not in ("lit", "cls", "any", "newtype", "tvar", "call", "ann"):
        return list(zip(a["a"], b["a"]))
    return []


class Classifier:
    def __init__(self, hints, R, unsound, rows):
        self.hints, self.R, self.rows = hints, R, rows
        self.idx = {okey(h): i for i, h in enumerate(hints)}
        self.unsound = unsound        # {(a, b): (j, r)}

    def _ix(self, h):
        return self.idx.get(okey(h))

    def is_unsound(self, a, b):
        return (a, b) in self.unsound

    def is_wrong(self, a, b):
        """(classification only) a real True answer that is unsound or that the demanded relation denies."""
        return (a, b) in self.unsound or (self.R[a][b] == 1 and self.rows[a]["subI"][b] != 1)

    def sound_root(self, a, b, depth=0, pred=None):
        """Descend to the innermost enumerated pair that is itself unsound (or wrong)."""
        pred = pred or self.is_unsound
        if depth < 6:
            for ca, cb in child_pairs(self.hints[a], self.hints[b]):
                i, j = self._ix(ca), self._ix(cb)
                if i is not None and j is not None and pred(i, j):
                    return self.sound_root(i, j, depth + 1, pred)
        return a, b

    def sound_key(self, a, b):
        ra, rb = self.sound_root(a, b)
        sa, sb = pair_shapes(self.hints[ra], self.hints[rb])
        return {"law": "soundness", "a": sa, "b": sb}, (ra, rb)

    def bad_triple(self, a, b, c):
        R = self.R
        return R[a][b] == 1 and R[b][c] == 1 and R[a][c] != 1

    def trans_root(self, a, b, c, depth=0):
        H = self.hints
        if depth < 6:
            ha, hb, hc = H[a], H[b], H[c]
            cands = []
            if ha["k"] == "union":
                cands = [(m, hb, hc) for m in _flat(ha)]
            elif (_wk(ha) == _wk(hb) == _wk(hc) and len(ha["a"]) == len(hb["a"]) == len(hc["a"])
                  and ha["k"] not in ("lit", "cls", "any", "newtype", "tvar", "call", "ann", "union")):
                cands = list(zip(ha["a"], hb["a"], hc["a"]))
            for t in cands:
                ix = [self._ix(x) for x in t]
                if None not in ix and self.bad_triple(*ix):
                    return self.trans_root(*ix, depth + 1)
        return a, b, c

    def trans_key(self, a, b, c):
        H, R = self.hints, self.R
        key = {"law": "transitivity"}
        if H[b]["k"] == "any":
            key["via"] = "Any"
        elif _hasany(H[a]) or _hasany(H[b]) or _hasany(H[c]):
            key["via"] = "a hint containing Any"
        if "via" in key:
            return key, (a, b, c)
        a, b, c = self.trans_root(a, b, c)
        # (classification only) a premise is itself a wrong answer: rejected on the real code as unsound (first),
        # or denied by the relation the property demands (flags {} of Subhint.tla; last)
        def premise(pred):
            for (x, y) in ((a, b), (b, c)):
                if pred(x, y):
                    rx, ry = self.sound_root(x, y, 0, pred)
                    sa, sb = pair_shapes(H[rx], H[ry])
                    key["cause"] = ("a premise is itself a wrong is_subhint answer (unsound, or denied by the demanded "
                                    "relation)")
                    key["premise"] = f"{sa} <= {sb}"
                    return True
            return False
        if premise(self.is_unsound):
            return key, (a, b, c)
        if H[c]["k"] == "union":
            for m in _flat(H[c]):
                im = self._ix(m)
                if im is not None and R[a][im] == 1 and R[im][c] == 1:
                    key["cause"] = "A <= a member M of the union C holds, A <= C does not"
                    key["member"] = shape(m)
                    return key, (a, im, c)
        if premise(self.is_wrong):
            return key, (a, b, c)
        key.update({"a": shape(H[a]), "b": shape(H[b]), "c": shape(H[c])})
        if R[a][c] == 2:
            key["conclusion"] = "raises BeartypeDoorIsSubhintException"
        return key, (a, b, c)


# ----------------------------------------------------------------------------- the check
def _rejected(rep, res, inv, label):
    rep.tlc(res, f"{label}: {inv} rejected" if res.violated else f"{label}: {inv} NOT rejected")
    if res.violated != inv:
        rep.machinery(f"{label}: TLC does not reject {inv} (violated: {res.violated}): vacuous model")
    rep.add("spec_mutants_killed")
    at = [s_.get("ia") for _, s_ in res.error_trace][-1:]
    rep.cov.setdefault("spec_mutants", []).append({"run": label, "rejected_by": inv, "at_hint_index": at})
    return at[0] if at else None


FA_LABEL = "flags LegacyFaithful (beartype 0.23.0)"


def _r1_rows(rep, tier, d, rows_dir):
    """MC_Subhint.tla: the demanded relation (+ rows), the 0.23.0 flags and the spec mutants (must be rejected)."""
    # (mutant flag, invariants of the run, the invariant that must reject it)
    cache_inv = ["Coh_Singleton", "Coh_HintIsH"]
    muts = [("repr_key", cache_inv, "Coh_HintIsH"), ("issubclass_swapped", INV_A, "Sound"),
            ("no_wrapper_cache", cache_inv, "Coh_Singleton")]
    if tier != "quick":
        muts += [(m, INV_A, "Sound") for m in SPEC_MUTANTS[1:]] + [("repr_key", ["Sound_Twin"], "Sound_Twin")]
    with ThreadPoolExecutor(max_workers=6) as ex:
        f_main = ex.submit(tlc_rows, d, "intended", tier, [], INV_A, emit_dir=rows_dir, workers=8)
        f_faith = {inv: ex.submit(tlc_rows, d, "faithful_" + inv, "quick", FAITHFUL, [inv], workers=2)
                   for inv in ("Sound", "Coh_Children")}
        f_muts = [ex.submit(lambda ms=ms: [(m, want, tlc_rows(d, f"mut_{m}_{want}", "quick", [m], invs, workers=2))
                                           for m, invs, want in ms])
                  for ms in (muts[0::3], muts[1::3], muts[2::3]) if ms]
        res = f_main.result()
        rep.tlc(res, f"MC_Subhint {tier}, flags {{}} (the demanded relation, cache keyed on the hint): Reflexive, Sound, "
                     f"Coh_Children, Coh_Singleton, Coh_HintIsH, Sound_Twin + rows")
        if res.violated:
            at = [s_.get("ia") for _, s_ in res.error_trace][-1:]
            rep.machinery(f"MC_Subhint ({tier}) violates {res.violated} under the demanded relation at hint index {at}: "
                          f"fix the model")
        for inv, f in f_faith.items():
            _rejected(rep, f.result(), inv, "MC_Subhint quick, " + FA_LABEL)
        for f in f_muts:
            for m, want, r in f.result():
                if not r.violated:
                    rep.machinery(f"spec mutant {m} is not rejected by any invariant: vacuous model")
                if r.violated != want:
                    rep.note(f"spec mutant {m} rejected by {r.violated} (expected {want})")
                rep.tlc(r, f"MC_Subhint quick, spec mutant {m}: rejected by {r.violated}")
                rep.add("spec_mutants_killed")
                rep.cov.setdefault("spec_mutants", []).append({"mutant": m, "rejected_by": r.violated})
    meta, rows = load_rows(rows_dir)
    if any(r is None for r in rows) or len(rows) < 100:
        rep.machinery(f"rows missing: {sum(r is None for r in rows)} of {len(rows)}")
    n = len(rows)
    ntw = sum(1 for r in rows if r["twin"])
    want = 1 + (n + 3) // 4 + 3 * n + ntw     # Init, the chunks, PickHint / WrapOnce / WrapAgain per hint, WrapTwin per twin
    if res.distinct != want or ntw < 6:
        rep.machinery(f"MC_Subhint explored {res.distinct} states, expected {want} ({ntw} repr twins): an action was not "
                      f"taken for every hint")
    return meta, rows


def _r1_laws_start(ex, d, rows):
    """MC_SubhintLaws.tla on the matrices of the demanded relation (must hold) and of 0.23.0 (must be rejected)."""
    mi = write_matrix(d, "m_intended.json", rows, "subI", "eqI")
    mf = write_matrix(d, "m_faithful.json", rows, "subF", "eqF")
    f_i = ex.submit(tlc_laws, d, "laws_intended", mi, False, INV_B, 4)
    f_f = {inv: ex.submit(tlc_laws, d, "laws_faithful_" + inv, mf, True, [inv], 2)
           for inv in ("Reflexive", "TransitiveNoAny", "Transitive", "Coh_EqHash")}
    return f_i, f_f


def _r1_laws_finish(rep, futures, meta):
    f_i, f_f = futures
    res = f_i.result()
    rep.tlc(res, "MC_SubhintLaws on the matrix of the demanded relation: Reflexive, Transitive (all triples), "
                 "TransitiveNoAny, Coh_EqHash, Coh_EqMutual")
    if res.violated:
        at = [s_.get("ia") for _, s_ in res.error_trace][-1:]
        rep.machinery(f"MC_SubhintLaws violates {res.violated} under the demanded relation at hint "
                      f"{[sh(meta['hints'][i - 1]) for i in at if i]}: fix the model")
    rej = {}
    for inv, f in f_f.items():
        at = _rejected(rep, f.result(), inv, "MC_SubhintLaws on the matrix of " + FA_LABEL)
        rej[inv] = sh(meta["hints"][at - 1]) if at else None
    rep.cov["faithful_model_rejected_laws_first_at"] = rej


def _real_hint_repr(w, h):
    try:
        return repr(w.hint(h, 0))
    except Exception as ex:     # noqa
        return f"<{type(ex).__name__}>"


def run(rep, tier, seed):
    rep.assumptions += [
        "bounded hint set of MC_Subhint.tla (classes incl. bare ABCs, unions, literals, Annotated with beartype validators, "
        "fixed / variadic tuples, containers, mappings, type[...], Callable, NewType, TypeVar; depth <= 2); user generics "
        "(Generic[T] subclasses) are not modelled",
        "object universe of MC_Semantics.tla; Sat of Semantics.tla is the oracle of 'fully satisfies A' (pairs whose left "
        "side contains Callable[...] or Iterator/Generator are not judged for soundness: no full meaning in the universe)",
        "an is_subhint call that raises counts as 'does not hold'",
        "transitivity is judged for ALL hints incl. Any (the statement exempts Any only from soundness); violations through "
        "Any carry their own key",
    ]
    procs = 16
    # the replay workers are forked before any thread exists; they idle until the rows are there
    with util.scratch("c19-") as d, mp.get_context("fork").Pool(procs) as pool:
        rows_dir = os.path.join(d, "rows")
        os.makedirs(rows_dir)
        meta, rows = _r1_rows(rep, tier, d, rows_dir)
        n = len(meta["hints"])
        chunks = [list(range(n))[i::procs * 3] for i in range(procs * 3)]
        chunks = [c for c in chunks if c]
        with ThreadPoolExecutor(max_workers=5) as ex:
            laws = _r1_laws_start(ex, d, rows)
            results = pool.map(_worker, [(rows_dir, c, seed) for c in chunks], chunksize=1)
            _r1_laws_finish(rep, laws, meta)
        R = _judge(rep, tier, seed, meta, rows, results)
        _twins(rep, meta, rows, R)
        _generics(rep)


def _judge(rep, tier, seed, meta, rows, results):
    from beartype.door import TypeHint, is_bearable, is_subhint
    from beartype.roar import BeartypeDoorIsSubhintException as XC
    hints, objs, lcm = meta["hints"], meta["objs"], meta["lcm"]
    n = len(hints)
    R = [None] * n
    EQ = [None] * n
    HQ = [None] * n
    unsound = {}
    coh, drift_msgs, errors = [], [], []
    disputed = set()
    calls = spairs = scalls = 0
    for res in results:
        for a, r in res["rows"].items():
            R[a], EQ[a], HQ[a] = r["sub"], r["eq"], r["hasheq"]
            for b, j, dr in r["unsound"]:
                unsound[(a, b)] = (j, dr)
        coh += res["coh"]
        drift_msgs += res["drift"]
        errors += res["errors"]
        disputed |= res["disputed"]
        calls += res["n_calls"]
        spairs += res["n_sound_pairs"]
        scalls += res["n_sound_calls"]
    if any(r is None for r in R):
        rep.machinery("real rows missing")
    rep.count(calls + scalls)
    rep.add("traces_validated_against_impl", n)
    rep.add("hints", n)
    rep.add("ordered_pairs", n * n)
    rep.add("soundness_pairs_judged", spairs)
    rep.add("soundness_is_bearable_calls", scalls)
    w = World19()
    S = [sh(h) for h in hints]

    def real3(a, b):
        return _sub(is_subhint, XC, w.hint(hints[a], 0), w.hint(hints[b], 0))

    # ---- binding strength: the real answers against the faithful model --------------------------------
    dF = dX = dE = dEX = 0
    ex_d = []
    n_true = n_exc = 0
    for a in range(n):
        for b in range(n):
            v = R[a][b]
            n_true += v == 1
            n_exc += v == 2
            if v != rows[a]["subF"][b]:
                dF += 1
                if len(ex_d) < 8:
                    ex_d.append(f"is_subhint({S[a]}, {S[b]}): real {v}, model(0.23.0) {rows[a]['subF'][b]}")
            dX += v != rows[a]["subX"][b]
            dE += EQ[a][b] != rows[a]["eqF"][b]
            dEX += EQ[a][b] != rows[a]["eqX"][b]
            if v == 1:
                rep.nontrivial(f"T:{_wk(hints[a])}:{_wk(hints[b])}")
            elif v == 2:
                rep.nontrivial(f"X:{_wk(hints[a])}:{_wk(hints[b])}")
            elif not isinstance(v, int):
                rep.violation({"law": "is_subhint raises an unexpected exception", "a": shape(hints[a]), "b": shape(hints[b]),
                               "exc": v.split(":")[1]},
                              f"is_subhint({S[a]}, {S[b]}) raises {v[2:]}", {"law": "call", "a": hints[a], "b": hints[b]})
    rep.cov["model_agreement_pairs"] = n * n - dF
    rep.cov["real_true_pairs"] = n_true
    rep.cov["real_undecidable_pairs"] = n_exc
    wks = {_wk(h) for h in hints}
    missing = set(WK_REAL.values()) - wks
    if missing:
        rep.machinery(f"hint set lacks the wrapper classes {sorted(missing)}")
    if n_true <= n or spairs == 0 or scalls == 0:
        rep.machinery(f"vacuous replay: {n_true} true pairs, {spairs} pairs judged for soundness, {scalls} is_bearable calls")
    if dF:
        if dX == 0:
            rep.note(f"the tree answers like the model with the proposed fixes applied (LegacyFixed) on all {n * n} pairs; "
                     f"{dF} pairs differ from the 0.23.0 model")
        else:
            rep.spec_drift(f"{dF} of {n * n} is_subhint answers differ from the 0.23.0 model ({dX} from the fixed model)")
            for m in ex_d:
                rep.spec_drift(m)
            rep.note(f"SPEC-DRIFT: {dF} real is_subhint answers differ from the faithful model: {ex_d[:3]}")
    if dE and (dEX or not dF):
        rep.spec_drift(f"{dE} of {n * n} TypeHint == answers differ from the 0.23.0 model")
    for m in sorted(set(drift_msgs))[:10]:
        rep.spec_drift(m)
    if disputed:
        rep.spec_drift(f"{len(disputed)} (object, hint A) pairs: Sat of Semantics.tla says the object fully satisfies A but "
                       f"is_bearable(x, A) rejects it - not judged for soundness: {sorted(disputed)[:4]}")
        rep.note(f"oracle / checker disagreement on 'x satisfies A' (not judged): {sorted(disputed)[:4]}")
    for m in sorted(set(errors))[:5]:
        rep.note("is_bearable raised during the soundness replay: " + m)

    cl = Classifier(hints, R, unsound, rows)

    # ---- reflexivity ----------------------------------------------------------------------------------
    same_obj = {i for i, kind, _ in coh if kind == "reflexive_same_object"}
    for a in range(n):
        if a in same_obj or (R[a][a] != 1 and real3(a, a) != 1):
            v = real3(a, a)
            rep.violation({"law": "reflexivity", "a": shape(hints[a]),
                           "outcome": "raises BeartypeDoorIsSubhintException" if v == 2 else str(v)},
                          f"is_subhint(H, H) is not True for H = {_real_hint_repr(w, hints[a])}: "
                          f"{'raises BeartypeDoorIsSubhintException' if v == 2 else v}",
                          {"law": "reflexivity", "a": hints[a]})

    # ---- soundness (judged by the workers on the real answers; here: classes and minimal witnesses) -----
    pred_only = real_only = 0
    for a in range(n):
        for b in range(n):
            if rows[a]["unsF"][b] and R[a][b] == 1 and (a, b) not in unsound:
                pred_only += 1
    skeys = {}
    for (a, b) in sorted(unsound):
        real_only += not rows[a]["unsF"][b]
        key, (ra, rb) = cl.sound_key(a, b)
        k = json.dumps(key, sort_keys=True)
        skeys.setdefault(k, [key, (ra, rb), 0])
        skeys[k][2] += 1
    for k, (key, (ra, rb), cnt) in skeys.items():
        j, dr = unsound[(ra, rb)]
        x = objs[j - 1]
        rep.violation(key,
                      f"is_subhint(A, B) is True for A = {_real_hint_repr(w, hints[ra])}, B = {_real_hint_repr(w, hints[rb])} "
                      f"(no Any), but {short_obj(x)} fully satisfies A (Sat of Semantics.tla) and is_bearable(x, B) is False "
                      f"(draw residue {dr}); {cnt} enumerated pairs in this class",
                      {"law": "soundness", "a": hints[ra], "b": hints[rb], "obj": x, "draw": dr})
    rep.cov["unsound_pairs_real"] = len(unsound)
    if pred_only or real_only:
        rep.spec_drift(f"soundness verdicts: {pred_only} pairs unsound in the model (SatB) but never rejected by "
                       f"is_bearable, {real_only} rejected by is_bearable but sound in the model")

    # ---- transitivity over all triples ------------------------------------------------------------------
    up = [[b for b in range(n) if R[a][b] == 1] for a in range(n)]
    tkeys = {}
    n_prem = 0
    for a in range(n):
        for b in up[a]:
            n_prem += len(up[b])
            for c in up[b]:
                if R[a][c] != 1:
                    key, root = cl.trans_key(a, b, c)
                    k = json.dumps(key, sort_keys=True)
                    e = tkeys.setdefault(k, [key, [], 0, 0])
                    e[2] += 1
                    if root not in e[1]:        # keep the six smallest witnesses of the class
                        e[1].append(root)
                        if len(e[1]) > 6:
                            e[1].sort(key=lambda r_: (sum(len(S[i]) for i in r_), r_))
                            e[1].pop()
    rep.add("transitivity_premise_pairs", n_prem)
    if n_prem < n:
        rep.machinery("vacuous transitivity check")
    for k, (key, roots, cnt, _) in tkeys.items():
        done = False
        for (a, b, c) in sorted(roots, key=lambda r_: (sum(len(S[i]) for i in r_), r_)):
            ab, bc, ac = real3(a, b), real3(b, c), real3(a, c)
            if ab == 1 and bc == 1 and ac != 1:
                rep.violation(key,
                              f"is_subhint(A, B) and is_subhint(B, C) are True but is_subhint(A, C) "
                              f"{'raises BeartypeDoorIsSubhintException' if ac == 2 else 'is False'}: "
                              f"A = {_real_hint_repr(w, hints[a])}, B = {_real_hint_repr(w, hints[b])}, "
                              f"C = {_real_hint_repr(w, hints[c])}; {cnt} enumerated triples in this class",
                              {"law": "transitivity", "a": hints[a], "b": hints[b], "c": hints[c]})
                done = True
                break
        if not done:
            rep.spec_drift(f"transitivity class {key} not confirmed on one set of hint objects (spelling-dependent answers)")

    # ---- == => equal hashes, mutual subhints --------------------------------------------------------------
    hk, mk = {}, {}
    n_eq = 0
    for a in range(n):
        for b in range(n):
            if EQ[a][b] != 1:
                continue
            n_eq += 1
            if not HQ[a][b]:
                if a == b:
                    why = "one hint in two spellings (typing.X[...] and builtin / collections.abc X[...])"
                elif "any" in (hints[a]["k"], hints[b]["k"]):
                    why = "Any == every hint (mutual subhints through Any)"
                elif (a, b) in unsound or (b, a) in unsound:
                    why = "different hints that are mutual subhints through an unsound is_subhint answer"
                else:
                    why = "different hints that are mutual subhints"
                key = {"law": "equal wrappers have equal hashes", "class": why}
                e = hk.setdefault(json.dumps(key, sort_keys=True), [key, (a, b), 0])
                e[2] += 1
            if not (R[a][b] == 1 and R[b][a] == 1) and not (real3(a, b) == 1 and real3(b, a) == 1):
                key = {"law": "equal wrappers are mutual subhints", "a": shape(hints[a]), "b": shape(hints[b])}
                e = mk.setdefault(json.dumps(key, sort_keys=True), [key, (a, b), 0])
                e[2] += 1
    rep.add("equal_wrapper_pairs", n_eq)
    for key, (a, b), cnt in hk.values():
        ha, hb = w.hint(hints[a], sp_left(a, seed)), w.hint(hints[b], sp_right(b, seed))
        if TypeHint(ha) == TypeHint(hb) and hash(TypeHint(ha)) != hash(TypeHint(hb)):
            rep.violation(key, f"TypeHint(A) == TypeHint(B) but their hashes differ: A = {ha!r}, B = {hb!r}; "
                               f"{cnt} enumerated ordered pairs in this class",
                          {"law": "eq_hash", "a": hints[a], "b": hints[b], "spa": sp_left(a, seed), "spb": sp_right(b, seed)})
    for key, (a, b), cnt in mk.values():
        rep.violation(key, f"TypeHint(A) == TypeHint(B) but they are not mutual subhints: A = {_real_hint_repr(w, hints[a])}, "
                           f"B = {_real_hint_repr(w, hints[b])}; {cnt} pairs",
                      {"law": "eq_mutual", "a": hints[a], "b": hints[b]})

    # ---- wrapper coherence observed by the workers ----------------------------------------------------------
    ck = {}
    for i, kind, msg in coh:
        key = {"law": "wrapper coherence", "check": kind, "wrapper": _wk(hints[i]) + "TypeHint"}
        if kind == "reflexive_same_object":
            continue        # reported under "reflexivity"
        if kind == "args_children" and hints[i]["k"] == "call":
            key["hint"] = "Callable[..., r]" if hints[i]["s"] == "ellipsis" else "Callable[[], r]"
        e = ck.setdefault(json.dumps(key, sort_keys=True), [key, i, msg, 0])
        e[3] += 1
    for key, i, msg, cnt in ck.values():
        rep.violation(key, f"TypeHint({_real_hint_repr(w, hints[i])}): {msg}; {cnt} observations in this class",
                      {"law": "coherence", "a": hints[i]})

    a = next((a for a in range(n) if hints[a]["k"] == "seq" and up[a]), 0)
    rep.sample({"A": S[a], "real_hint": _real_hint_repr(w, hints[a]), "is_subhint_true_for_B_in": [S[b] for b in up[a]][:12],
                "objects_fully_satisfying_A": [short_obj(objs[j - 1]) for j in rows[a]["sat"][:6]]})
    a = next((a for a in range(n) if 2 in R[a]), 0)
    rep.sample({"A": S[a], "raises_undecidable_for_B_in": [S[b] for b in range(n) if R[a][b] == 2][:8]})
    rep.cov["violation_classes"] = {"soundness": len(skeys), "transitivity": len(tkeys), "eq_hash": len(hk),
                                    "eq_mutual": len(mk), "coherence": len(ck)}
    rep.cov["exhaustive"] = True
    return R


def twin_kind(h):
    if h["k"] == "tvar" and h["m"]:
        return "same-named TypeVars"
    if h["k"] == "newtype" and h["m"]:
        return "same-named NewTypes"
    if h["k"] == "cls" and h["s"].startswith("K:"):
        return "same-qualname classes"
    for c in h["a"]:
        k = twin_kind(c)
        if k:
            return k
    return None


def _twins(rep, meta, rows, R):
    """Repr twins: two DISTINCT hints with one repr() and different meanings, wrapped and queried in ONE process, in
    both orders (a fresh world per order).  Judged on the real answers: TypeHint(h).hint is h, distinct wrappers for
    the two twins, soundness of every True answer of either twin against the spec's Sat, transitivity of every
    triple that contains a twin (answers between other hints: the matrix R of the main replay)."""
    from beartype.door import TypeHint, is_bearable, is_subhint
    from beartype.roar import BeartypeDoorIsSubhintException as XC
    hints, objs, lcm = meta["hints"], meta["objs"], meta["lcm"]
    n = len(hints)
    S = [sh(h) for h in hints]
    pairs = sorted({tuple(sorted((i, r["twin"] - 1))) for i, r in enumerate(rows) if r["twin"]})
    calls = drift = 0
    seen = {}

    def viol(key, what, case):
        k = json.dumps(key, sort_keys=True)
        if k not in seen:
            seen[k] = True
            rep.violation(key, what, case)
    for (i, j) in pairs:
        for first, second in ((i, j), (j, i)):
            w = World19()
            H = [w.hint(h, 0) for h in hints]
            real = [None] * len(objs)
            kind = twin_kind(hints[first])
            case = {"law": "twins", "a": hints[first], "b": hints[second]}
            who = (f"H1 = {H[first]!r} [{S[first]}] wrapped first, then its repr twin H2 = {H[second]!r} [{S[second]}] "
                   f"(H1 is not H2, H1 != H2, repr equal: {repr(H[first]) == repr(H[second])})")
            t1 = TypeHint(H[first])
            t2 = TypeHint(H[second])
            rep.nontrivial(f"twin:{kind}:{shape(hints[first])}")
            if repr(H[first]) != repr(H[second]) or H[first] is H[second]:
                rep.machinery(f"not repr twins: {H[first]!r} / {H[second]!r}")
            if t1 is t2:
                viol({"law": "wrapper coherence", "check": "repr twins share one wrapper", "twins": kind},
                     f"TypeHint(H1) is TypeHint(H2): {who}", case)
            for t, hx, nm in ((t1, H[first], "H1"), (t2, H[second], "H2")):
                if t.hint is not hx:
                    viol({"law": "wrapper coherence", "check": "TypeHint(h).hint is not h", "twins": kind},
                         f"TypeHint({nm}).hint is {t.hint!r} (a different object than {nm}): {who}", case)
            # the rows and columns of both twins in this world
            Rt = {}
            for x in (first, second):
                for b in range(n):
                    Rt[(x, b)] = _sub(is_subhint, XC, H[x], H[b])
                    Rt[(b, x)] = _sub(is_subhint, XC, H[b], H[x])
                    calls += 2
                    drift += Rt[(x, b)] != R[x][b] or Rt[(b, x)] != R[b][x]

            M = [r_[:] for r_ in R]
            for (p, q), v in Rt.items():
                M[p][q] = v
            up = [[q for q in range(n) if M[p][q] == 1] for p in range(n)]
            down = [[p for p in range(n) if M[p][q] == 1] for q in range(n)]
            for x in (first, second):
                rx = rows[x]
                if rx["judged"]:
                    for b in up[x]:
                        if rows[b]["hasany"]:
                            continue
                        bad = None
                        for jx in rx["sat"]:
                            if real[jx - 1] is None and objs[jx - 1]["k"] != "iter":
                                real[jx - 1] = w.obj(objs[jx - 1])
                            for r in range(lcm):
                                DRAW.value = r
                                xo = real[jx - 1] if real[jx - 1] is not None else w.obj(objs[jx - 1])
                                calls += 1
                                if not is_bearable(xo, H[b]):
                                    if _accepts(w, is_bearable, objs[jx - 1], real[jx - 1], H[x], lcm):
                                        bad = jx
                                    break
                            if bad:
                                break
                        if bad:
                            viol({"law": "soundness", "hints": "repr twins", "twins": kind},
                                 f"is_subhint(A, B) is True for A = {H[x]!r} [{S[x]}], B = {H[b]!r} [{S[b]}] but "
                                 f"{short_obj(objs[bad - 1])} fully satisfies A (Sat of Semantics.tla) and is_bearable(x, B) is "
                                 f"False; {who}", {**case, "b2": hints[b], "obj": objs[bad - 1]})
                # transitivity of the triples that contain this twin (others: the main replay)
                trip = [(x, b, c) for b in up[x] for c in up[b]] + [(b, x, c) for b in down[x] for c in up[x]] + \
                       [(b, c, x) for c in down[x] for b in down[c]]
                for (p, q, r_) in trip:
                    if M[p][r_] != 1 and not (R[p][q] == 1 and R[q][r_] == 1 and R[p][r_] == M[p][r_]):
                        viol({"law": "transitivity", "hints": "repr twins", "twins": kind},
                             f"is_subhint(A, B) and is_subhint(B, C) are True but is_subhint(A, C) is not: A = {H[p]!r} "
                             f"[{S[p]}], B = {H[q]!r} [{S[q]}], C = {H[r_]!r} [{S[r_]}]; {who}",
                             {**case, "triple": [hints[p], hints[q], hints[r_]]})
    rep.count(calls)
    rep.add("repr_twin_pairs_both_orders", 2 * len(pairs))
    if len(pairs) < 6:
        rep.machinery(f"only {len(pairs)} repr-twin pairs enumerated")
    if drift:
        rep.spec_drift(f"{drift} is_subhint answers involving a repr twin differ between the twin worlds and the main replay")


def _generics(rep):
    """User generics (Generic[T] / list[T] / Sequence[T] / dict[S, T] subclasses) are not modelled in Subhint.tla.
    Reflexivity and transitivity need no oracle: they are judged on the real answers of a fixed slice."""
    import itertools
    from beartype.door import TypeHint, is_subhint
    from beartype.roar import BeartypeDoorIsSubhintException as XC
    T = typing
    u = next(sem._uid)
    TV, S2 = T.TypeVar(f"GT{u}"), T.TypeVar(f"GS{u}")

    class G(T.Generic[TV]):
        pass

    class G2(G[TV]):
        pass

    class GI(G[int]):
        pass

    class GL(list[TV]):
        pass

    class GQ(cabc.Sequence[TV]):
        def __getitem__(self, i):
            raise IndexError(i)

        def __len__(self):
            return 0

    class GM(dict[S2, TV]):
        pass

    for c in (G, G2, GI, GL, GQ, GM):
        c.__name__ = c.__qualname__ = f"{c.__name__}_{u}"
    hs = [G, G[int], G[bool], G[str], G[TV], G2, G2[int], G2[bool], GI, GL, GL[int], GL[bool], GQ, GQ[int], GQ[bool],
          GM, GM[str, int], GM[str, bool], list, list[int], list[bool], cabc.Sequence, cabc.Sequence[int],
          cabc.Sequence[bool], cabc.Collection[int], dict[str, int], cabc.Mapping[str, int], object,
          T.Union[G[int], None], T.Union[GL[int], None], T.Union[list[int], None]]
    n = len(hs)
    R = [[_sub(is_subhint, XC, a, b) for b in hs] for a in hs]
    rep.count(n * n)
    rep.add("generics_slice_pairs", n * n)
    wkn = [type(TypeHint(h)).__name__ for h in hs]

    def out(v):
        return "raises BeartypeDoorIsSubhintException" if v == 2 else "is False" if v == 0 else f"raises {v[2:]}"
    for i in range(n):
        if R[i][i] != 1:
            rep.violation({"law": "reflexivity", "hints": "user generics", "a": wkn[i], "outcome": out(R[i][i])},
                          f"is_subhint(H, H) {out(R[i][i])} for H = {hs[i]!r}", {"law": "generics", "note": repr(hs[i])})
    seen = {}
    for a, b, c in itertools.product(range(n), repeat=3):
        if R[a][b] == 1 and R[b][c] == 1 and R[a][c] != 1:
            key = {"law": "transitivity", "hints": "user generics", "a": wkn[a], "b": wkn[b], "c": wkn[c],
                   "conclusion": out(R[a][c])}
            e = seen.setdefault(json.dumps(key, sort_keys=True), [key, (a, b, c), 0])
            e[2] += 1
            rep.nontrivial("G:" + wkn[a] + ":" + wkn[c])
    for key, (a, b, c), cnt in seen.values():
        rep.violation(key, f"is_subhint(A, B) and is_subhint(B, C) are True but is_subhint(A, C) {out(R[a][c])}: "
                           f"A = {hs[a]!r}, B = {hs[b]!r}, C = {hs[c]!r}; {cnt} triples of the slice in this class",
                      {"law": "generics", "note": f"{hs[a]!r} | {hs[b]!r} | {hs[c]!r}"})
    rep.cov["generics_slice_true_pairs"] = sum(v == 1 for r in R for v in r)


def replay(rep, path):
    from beartype.door import TypeHint, is_bearable, is_subhint
    from beartype.roar import BeartypeDoorIsSubhintException as XC
    case = json.load(open(path))["case"]
    if case.get("law") == "generics":
        print("user-generics slice (classes are rebuilt by the check):", case["note"])
        _generics(rep)
        rep.level = "exploration"
        return
    if case.get("law") == "twins":
        for order in (("a", "b"), ("b", "a")):
            w = World19()
            h1, h2 = w.hint(case[order[0]], 0), w.hint(case[order[1]], 0)
            t1, t2 = TypeHint(h1), TypeHint(h2)
            print(f"H1 = {h1!r} [{sh(case[order[0]])}] wrapped first, H2 = {h2!r} [{sh(case[order[1]])}]: H1 is H2: {h1 is h2}; "
                  f"TypeHint(H1) is TypeHint(H2): {t1 is t2}; TypeHint(H1).hint is H1: {t1.hint is h1}; "
                  f"TypeHint(H2).hint is H2: {t2.hint is h2}")
            for nm, bb in (("int", int), ("str", str)):
                print(f"  is_subhint(H1, {nm}) = {_sub(is_subhint, XC, h1, bb)}, is_subhint(H2, {nm}) = "
                      f"{_sub(is_subhint, XC, h2, bb)}")
            rep.count(4)
        rep.level = "exploration"
        rep.nontrivial("a")
        rep.nontrivial("b")
        return
    w = World19()
    hs = {k: case[k] for k in ("a", "b", "c") if k in case}
    for sp in (0, 1):
        real = {k: w.hint(h, sp) for k, h in hs.items()}
        print(f"spelling {sp}: " + ", ".join(f"{k.upper()} = {v!r}" for k, v in real.items()))
        for x, y in (("a", "a"), ("a", "b"), ("b", "a"), ("b", "c"), ("a", "c")):
            if x in real and y in real:
                print(f"  is_subhint({x.upper()}, {y.upper()}) ->", _sub(is_subhint, XC, real[x], real[y]))
                rep.count(1)
        if "b" in real:
            ta, tb = TypeHint(real["a"]), TypeHint(real["b"])
            try:
                print("  TypeHint(A) == TypeHint(B):", ta == tb, " hashes equal:", hash(ta) == hash(tb))
            except Exception as ex:   # noqa
                print("  TypeHint(A) == TypeHint(B) raises", type(ex).__name__)
        ta = TypeHint(real["a"])
        print("  TypeHint(A):", ta, "len", len(ta), "children", tuple(ta), ".args", ta.args,
              "is TypeHint(A):", TypeHint(real["a"]) is ta)
        if "obj" in case:
            x = w.obj(case["obj"])
            for r in range(2):
                DRAW.value = r
                print(f"  object {x!r}: is_bearable(x, A) = {is_bearable(x, real['a'])}, "
                      f"is_bearable(x, B) = {is_bearable(x, real['b'])}  (draw {r})")
                rep.count(2)
    if "spa" in case:
        ha, hb = w.hint(case["a"], case["spa"]), w.hint(case["b"], case["spb"])
        ta, tb = TypeHint(ha), TypeHint(hb)
        print(f"cross spelling: A = {ha!r}, B = {hb!r}: TypeHint(A) == TypeHint(B): {ta == tb}, "
              f"hash(TypeHint(A)) == hash(TypeHint(B)): {hash(ta) == hash(tb)}")
    rep.level = "exploration"
    rep.nontrivial("a")
    rep.nontrivial("b")
