"""C02 — guaranteed detection: violations the strategy must see are always rejected.

Same TLC run and case table as C01 (MC_Semantics): MustReject => rejected under every draw,
every index of a sequence reachable (also for stretched sequences of 10 / 1000 items, all
residues), is_random=False inspects item 0, accepted => Weak, one sampler draw per check.
"""
from __future__ import annotations

from verifkit.drivers.c01 import replay, report  # noqa: F401

LEVEL = "model_checking"


def run(rep, tier, seed):
    from verifkit.bind import semreplay
    rep.assumptions += [
        "bounded hint grammar and object universe of MC_Semantics.tla; MustReject / Weak / index reachability are "
        "computed by TLC, never by the harness",
        "'item i violates' is read as 'item i is guaranteed to be rejected by the item hint' (MustReject): nested "
        "levels are indexed with the same draw, so a violation hidden inside item i by that correlation is not "
        "demanded to be found (DESIGN.md C02)",
    ]
    semreplay.run_mutants(rep, "quick", ("seq_len_minus_1", "tupf_len_ge") if tier == "quick" else
                          ("union_first_only", "tupf_len_ge", "seq_len_minus_1", "map_value_vs_key"))
    rows = semreplay.build_rows(rep, tier)
    opts = {"props": {"C02"}, "entry_points": True, "spellings": 2 if tier == "quick" else 4, "seed": seed,
            "reject_cap": 10 if tier == "quick" else 40, "stretch": True,
            "stretch_sizes": (10, 1000) if tier == "quick" else (10, 1000, 20000),
            "stretch_per_row": 2 if tier == "quick" else 6}
    tot = semreplay.replay(rep, rows, opts)
    report(rep, tot, "C02")
    deep = semreplay.build_deep_rows(rep, 2 if tier == "quick" else 3)
    tot2 = semreplay.replay(rep, deep, {**opts, "spellings": 1, "stretch": False})
    report(rep, tot2, "C02")
    # "a failed validator": Annotated[...] hints with validators (the case table of MC_Vale.tla, also used by C12)
    vrows = semreplay.build_rows(rep, tier, module="MC_Vale.tla", invariants=semreplay.VALE_INVARIANTS)
    tot3 = semreplay.replay(rep, vrows, {**opts, "spellings": 1, "stretch": False, "reject_cap": 4})
    report(rep, tot3, "C02")
    rep.cov["exhaustive"] = True
