"""C09 — call-time checking cost does not grow with container size.
   C10 — checking never modifies or consumes its subject  (shared machinery, see c10.py).

R1  TLC (MC_Semantics): Ev(h, x, r) - the data accesses of the generated check, transcribed with
    Python's short-circuit order - never reads more items than ReadBound(h), a constant derived
    from the hint alone, also for the doubled object; no operation at all on iterables that are
    not collections; spec mutants (scan all items; iterate a non-collection) are rejected.
R3  recording containers (verifkit/spy.py) are checked by the real entry points at sizes
    1, 2, 3, 10, 1000, 100000; one event per check (aggregated operations) is validated by
    trace/AccessTrace.tla: bounds from the spec, identical work across sizes within a group,
    no forbidden operation, repr() of containers only when a rejection is described.
"""
from __future__ import annotations

import collections
import glob
import json
import multiprocessing as mp
import os
import random

LEVEL = "model_checking"

SIZES_QUICK = (1, 2, 3, 10, 1000)
SIZES_THOROUGH = (1, 2, 3, 10, 1000, 100000)


def _container_hint(h):
    return h["k"] in ("seq", "reit", "quasi", "map", "items", "tupf", "shallow") or any(_container_hint(c) for c in h["a"])


def _worker(args):
    rows_dir, hids, opts = args
    from verifkit.bind import sem
    from verifkit import spy
    from beartype.door import die_if_unbearable, is_bearable
    from beartype import beartype as deco
    import warnings
    warnings.simplefilter("ignore")
    objs_doc = json.load(open(os.path.join(rows_dir, "objs.json")))
    objs = objs_doc["objs"]
    w = sem.World()
    rnd = random.Random(opts["seed"])
    events, notes = [], []
    sizes = opts["sizes"]
    mode = opts["mode"]                       # "C09" | "C10"
    grp_base = hids[0] * 100000 if hids else 0
    grp = 0

    def fresh_atoms(o, k):
        """k-th look-alike of an atom: same class, distinct value (for sets / mapping keys)."""
        c = o["cls"]
        if c == "int":
            return 1000 + k
        if c == "str":
            return f"a{k}"
        if c == "float":
            return 1000.5 + k
        return None

    def simple(h):
        """child hints whose verdict depends only on the class of an atom (look-alikes are interchangeable)"""
        return h is not None and (h["k"] in ("cls", "any") or (h["k"] == "union" and all(simple(c) for c in h["a"])))

    def build(o, n, h, top=True):
        """spy version of abstract object o; a container level is stretched to n items (nested: <= 1000)
        only where the hint h describes it as a homogeneous container (seq / reit / quasi / map / items)."""
        k = o["k"]
        if k in ("atom", "type"):
            return w.obj(o)
        c = o["cls"]
        hk = h["k"] if h is not None else None
        if hk == "ann":
            return build(o, n, h["a"][0], top)
        m = n if top else min(n, 1000)
        if k == "iter":
            items = [build(i, n, None, False) for i in o["items"]]
            return {"gen": spy.SpyGenerator, "USizedIter": spy.SpySizedIterator}.get(c, spy.SpyIterable)(items)
        if k == "map":
            hkk, hv = (h["a"][0], h["a"][1]) if hk == "map" else (None, None)
            pairs = [(build(p["key"], n, hkk, False), build(p["val"], n, hv, False)) for p in o["items"]]
            if hk == "map" and pairs and m > len(pairs) and simple(hkk):
                k0 = o["items"][0]["key"]
                if k0["k"] == "atom" and fresh_atoms(k0, 0) is not None:
                    v0 = pairs[0][1]
                    pairs = pairs + [(fresh_atoms(k0, i), v0) for i in range(m - len(pairs))]
            cls = {"dict": spy.SpyDict, "defaultdict": spy.SpyDefaultDict, "OrderedDict": spy.SpyOrderedDict,
                   "Counter": spy.SpyCounter, "UMap": spy.SpyMap}[c]
            if cls is spy.SpyDefaultDict:
                d = cls(sem._never)
                dict.update(d, pairs)
                return d
            if cls is spy.SpyCounter:
                d = cls()
                for a_, b_ in pairs:
                    dict.__setitem__(d, a_, b_)
                return d
            return cls(pairs)
        homog = hk in ("seq", "reit", "quasi")
        if hk == "tupf" and len(h["a"]) == len(o["items"]):
            items = [build(i, n, hc, False) for i, hc in zip(o["items"], h["a"])]
        else:
            hc = h["a"][0] if homog else None
            items = [build(i, n, hc, False) for i in o["items"]]
        if homog and items and m > len(items):
            if c in ("set", "frozenset", "dict_keys", "dict_items"):
                i0 = o["items"][0]
                # the iteration order of a hashed container changes with its size: only sets whose items are
                # all look-alikes of each other (same class) have a first item of size-independent conformity
                alike = all(i["k"] == "atom" and i["cls"] == i0["cls"] for i in o["items"])
                if alike and simple(h["a"][0]) and i0["k"] == "atom" and fresh_atoms(i0, 0) is not None:
                    items = items + [fresh_atoms(i0, i) for i in range(m - len(items))]
            else:
                items = [items[i % len(items)] for i in range(m)]
        if c == "list":
            return spy.SpyList(items)
        if c == "tuple":
            return spy.SpyTuple(items)
        if c == "deque":
            return spy.SpyDeque(items)
        if c == "USeq":
            return spy.SpySeq(items)
        if c in ("UColl", "dict_values"):
            return spy.SpyColl(items)
        if c in ("set", "dict_keys"):
            return spy.SpySet(items)
        if c == "frozenset":
            return spy.SpyFrozenSet(items)
        if c == "UIter":
            return spy.SpyIterable(items)
        return None

    def snapshot(x):
        try:
            if isinstance(x, (spy.SpyIterator, spy.SpyGenerator)):
                return ("pos", x.pos, getattr(x, "closed", False))
            if isinstance(x, spy.SpyIterable):
                return ("iterated", x.iterated)
            if isinstance(x, dict):
                return ("dict", tuple(dict.keys(x)), tuple(map(id, dict.values(x))))
            if isinstance(x, (spy.SpySeq, spy.SpyColl)):
                return ("u", tuple(map(id, x._d)))
            if isinstance(x, spy.SpyMap):
                return ("um", tuple(x._d.keys()), tuple(map(id, x._d.values())))
            if isinstance(x, (list, tuple, collections.deque)):
                return ("seq", tuple(map(id, type(x).__mro__[2].__iter__(x))))
            if isinstance(x, (set, frozenset)):
                return ("set", len(set.__iter__(x).__reduce__()[1][0]) if isinstance(x, set) else 0)
        except Exception as ex:   # noqa
            return ("snapshot-error", repr(ex))
        return ("other",)

    for hid in hids:
        f = os.path.join(rows_dir, f"row_{hid}_1.json")
        if not os.path.exists(f):
            continue
        row = json.load(open(f))
        h = row["pub"]
        if not _container_hint(h):
            continue
        hint = w.hint(row["h"], 0)
        code = row["code"]
        # candidate subjects: containers / iterables; conforming and violating
        cand_ok = [j for j, o in enumerate(objs) if o["k"] in ("cont", "map", "iter") and code[j] & 1]
        cand_bad = [j for j, o in enumerate(objs) if o["k"] in ("cont", "map", "iter") and code[j] & 4]
        def score(j):
            o = objs[j]
            return (len(o["items"]) > 0) * 2 + any(isinstance(i, dict) and i.get("items") for i in o["items"])
        cand_ok.sort(key=lambda j: (-score(j), j))
        cand_bad.sort(key=lambda j: (-score(j), j))
        def spread(c, k):
            """the best-scored candidate plus candidates spread evenly over the whole list (diverse shapes)"""
            if len(c) <= k:
                return c
            step = max(1, len(c) // (k - 1))
            return sorted(set([c[0]] + c[step::step][:k - 1]))
        picks = [(j, "accept") for j in spread(cand_ok, opts["per_hint"])] + \
                [(j, "reject") for j in spread(cand_bad, opts["per_hint_reject"])]
        # iterables that are not collections (one-shot iterators, generator objects, sized iterators): C09 says they
        # are not iterated at all, C10 that they are not consumed
        picks += [(j, "any") for j, o in enumerate(objs) if o["k"] == "iter" and o["items"]][:6 if mode == "C10" else 3]

        @deco
        def f_param(a: hint):
            return (id(a), snapshot(a))

        for j, expect in picks:
            o = objs[j]
            for entry in ("is", "die", "param"):
                grp += 1
                for n in sizes:
                    if n > 3 and (o["k"] == "iter" or not o["items"]):
                        continue
                    x = build(o, n, h)
                    if x is None:
                        continue
                    before = snapshot(x)
                    sem.DRAW.value = 0
                    spy.reset()
                    ok, inner = True, None
                    try:
                        if entry == "is":
                            ok = is_bearable(x, hint)
                        elif entry == "die":
                            die_if_unbearable(x, hint)
                        else:
                            inner = f_param(x)
                    except Exception as ex:   # noqa
                        ok = False
                        exn = ex
                    log = list(spy.LOG)
                    spy.reset()
                    after = snapshot(x)
                    tot = collections.Counter(op for _, op in log)
                    per = collections.Counter(oid for oid, op in log if op in ("getitem", "next"))
                    bad = sum(tot[op] for op in spy.FORBIDDEN)
                    mutated = before != after
                    if inner is not None and (inner[0] != id(x) or inner[1] != before):
                        mutated = True
                    # hash: indexing a mapping with one of its own keys hashes that key (part of "indexing")
                    known = {"getitem", "next", "len", "iter", "keys", "values", "items", "repr", "hash"} | spy.FORBIDDEN
                    ev = {"ev": "Check", "grp": grp_base + grp if n >= 1 and o["k"] != "iter" else 0, "n": n,
                          "h": h, "hid": hid, "obj": sem.short_obj(o)[:80], "entry": entry,
                          "path": "accept" if ok else "reject",
                          "rd": tot["getitem"] + tot["next"], "ln": tot["len"],
                          "it": tot["iter"] + tot["keys"] + tot["values"] + tot["items"],
                          "repr": tot["repr"], "other": sum(v for k_, v in tot.items() if k_ not in known),
                          "bad": bad, "mutated": mutated, "maxobj": max(per.values()) if per else 0,
                          "ops": dict(tot)}
                    events.append(ev)
    return {"events": events, "notes": notes}


def collect(rep, tier, seed, mode):
    from verifkit.bind import semreplay as sr
    rows = sr.build_rows(rep, tier)
    files = glob.glob(os.path.join(rows, "row_*_1.json"))
    hids = sorted(int(os.path.basename(f).split("_")[1]) for f in files)
    opts = {"seed": seed, "mode": mode, "sizes": SIZES_QUICK if tier == "quick" else SIZES_THOROUGH,
            "per_hint": 2 if tier == "quick" else 5, "per_hint_reject": 6 if tier == "quick" else 14}
    procs = 16
    chunks = [hids[i::procs * 2] for i in range(procs * 2)]
    with mp.get_context("fork").Pool(procs) as pool:
        res = pool.map(_worker, [(rows, c, opts) for c in chunks if c], chunksize=1)
    events = [e for r in res for e in r["events"]]
    return events


def validate(rep, events, pid, label):
    """Trace-validate the events with AccessTrace.tla; after a rejection continue with the rest."""
    from verifkit import tlc
    from verifkit.util import scratch
    from verifkit.bind import sem
    # AccessTrace keeps the first event of every group in its state: one TLC run over the whole thorough-tier
    # trace (200 000 events) is quadratic.  Groups never span chunks, so the trace is validated chunk by chunk.
    CH = 12000
    if len(events) > CH:
        accepted, chunk, last_grp = 0, [], None
        k = 0
        for e in events:
            if len(chunk) >= CH and (e["grp"] == 0 or e["grp"] != last_grp):
                accepted += _validate_chunk(rep, chunk, pid, f"{label} chunk {k}")
                chunk, k = [], k + 1
            chunk.append(e)
            last_grp = e["grp"]
        if chunk:
            accepted += _validate_chunk(rep, chunk, pid, f"{label} chunk {k}")
    else:
        accepted = _validate_chunk(rep, events, pid, label)
    rep.add("traces_validated_against_impl", accepted)
    rep.add("trace_events", len(events))
    return accepted


def _validate_chunk(rep, events, pid, label):
    from verifkit import tlc
    from verifkit.util import scratch
    from verifkit.bind import sem
    remaining = events
    accepted = 0
    with scratch("acc-") as d:
        for attempt in range(12):
            if not remaining:
                break
            path = os.path.join(d, f"trace{attempt}.ndjson")
            with open(path, "w") as fh:
                for e in remaining:
                    fh.write(json.dumps({k: v for k, v in e.items() if k not in ("ops", "obj", "hid")}) + "\n")
            res = tlc.run_tlc("trace/AccessTrace.tla", "trace/AccessTrace.cfg", workers=1, env={"TRACE_FILE": path},
                              timeout=3600)
            rep.tlc(res, f"AccessTrace {label} pass {attempt}")
            if not res.violated:
                accepted += len(remaining)
                remaining = []
                break
            rej = [r for r in res.printed if isinstance(r, dict) and "rejected_at" in r]
            if not rej:
                rep.machinery("AccessTrace rejected a trace without naming the position")
            pos = rej[-1]["rejected_at"]
            e = remaining[pos - 1]
            accepted += pos - 1
            rep.violation({"kind": "access", "hint": sem.short_hint(e["h"]), "entry": e["entry"], "path": e["path"],
                           "obj": e["obj"], "forbidden": e["bad"] > 0, "mutated": e["mutated"]},
                          f"{sem.short_hint(e['h'])} checked by {e['entry']} ({e['path']}) on {e['obj']} of size {e['n']}: "
                          f"operations {e['ops']} (item reads {e['rd']}, len {e['ln']}, iterators {e['it']}, repr "
                          f"{e['repr']}, forbidden {e['bad']}, mutated {e['mutated']}) are not a step AccessTrace.tla "
                          f"allows (bounds from the hint, equal work across sizes of a group, no forbidden operation)",
                          {"event": e})
            # keep the group-defining first events out of the way: drop the whole group of the rejected event
            g = e["grp"]
            remaining = [x for x in remaining[pos:] if g == 0 or x["grp"] != g]
    return accepted


def run(rep, tier, seed, mode="C09"):
    from verifkit.bind import semreplay as sr
    rep.assumptions += [
        "cost is decided as a count of observable data accesses on recording containers, not as time",
        "item reads are bounded by ReadBound(h) of Semantics.tla (doubled when a rejection is also explained); "
        "repr() of containers is allowed only while a rejection is described, a bounded number of times",
        "size independence is compared at the first sampled position (draw 0) for sizes 1..100000",
    ]
    sr.run_mutants(rep, "quick", ("seq_scan_all",) if mode == "C09" else ("quasi_iterates_noncollection",),
                   invariants=sr.INVARIANTS + ["C09_ReadBound", "C10_NoForbiddenOp"])
    events = collect(rep, tier, seed, mode)
    if not events:
        rep.machinery("no access events recorded")
    for e in events:
        rep.count()
        if e["n"] >= 10:
            rep.nontrivial(f"{e['hid']}:{e['entry']}:{e['path']}:{e['n']}")
    for e in events[:: max(1, len(events) // 5)][:5]:
        rep.sample({k: e[k] for k in ("obj", "entry", "path", "n", "ops")} | {"hint": __import__("verifkit.bind.sem", fromlist=["x"]).short_hint(e["h"])})
    validate(rep, events, mode, mode)
    rep.cov["max_item_reads_in_one_check"] = max(e["rd"] for e in events)
    rep.cov["repr_calls_on_reject_max"] = max(e["repr"] for e in events)


def replay(rep, path):
    case = json.load(open(path))["case"]
    print(json.dumps(case, indent=1)[:2000])
    rep.level = "exploration"
    rep.count(2)
    rep.nontrivial("a")
    rep.nontrivial("b")
