"""C20 - an inferred hint always accepts the object it was inferred from.

R1  TLC checks Infer.tla / MC_Infer.tla:
      * Mode "fsm": the collections.abc selection automaton of infercollectionsabc.py runs as TLA+
        transitions over all unions of its transition labels (deterministic: both lookup paths of
        the code agree; total; sound; maximal; equal to the functional form used by Inf);
      * Mode "objs", Legacy = {} (the INTENDED design): for every object of the bounded universe
        (scalars, builtin and collections.abc containers to depth 3, dictionary / OrderedDict views,
        ranges, user Sequence / Mapping / Set implementations incl. duck-typed ones, subclasses of
        builtins, callables, classes, Enum members, self-referential containers) the inferred hint
        accepts the object under every draw residue (generated check) and at full depth (Sat), no
        exception, termination, recursion placeholder exactly at visited back-references, and the
        extended Sat / Chk coincide with Semantics' on Semantics' universe;
      * Legacy = all root causes (FAITHFUL to the tree): every predicted round-trip failure falls into
        one of the named root-cause classes (F_Clean), each class is exhibited (non-vacuity), the
        faithful design is rejected by the round-trip invariant, three spec mutants are rejected.
R2  the rows TLC emitted for the faithful design (abstract object, Infer(x) under On and under O1 per
    residue, predicted verdict per residue) are replayed: the object is concretised, the real
    infer_hint is called (default configuration, strategy=On, strategy=O1 under every residue), and
      (i)  BINDING STRENGTH: real hint == spec hint up to union order, real verdict mask == predicted
           mask, warning <=> predicted placeholder  (differences: SPEC-DRIFT, never violations);
      (ii) THE PROPERTY, judged on the real code only: is_bearable(x, infer_hint(x)) under ALL residues
           (+ die_if_unbearable), no exception out of infer_hint / the checker, self-referential
           containers terminate (watchdog) and warn.
    A zoo of real objects outside the model (namedtuple, struct_time, Flag member, bytearray, ...) is
    judged by the statement directly.
"""
from __future__ import annotations

import collections
import collections.abc as cabc
import concurrent.futures as cf
import enum
import functools
import glob
import json
import multiprocessing as mp
import os
import signal
import sys
import types
import typing
import warnings

from verifkit.bind import sem            # noqa: F401  (takes control of the sampler, then imports beartype)
from verifkit.bind.sem import DRAW, World, okey, set_draw
from verifkit import tlc
from verifkit.util import scratch, write_file

LEVEL = "model_checking"

# root causes switched ON in the faithful transcription of the tree under test (Infer.tla, RC_*).
# When a root cause is repaired in the repository, remove it here: the check then demands the repaired
# behaviour from the model as well (until then the repaired tree only shows up as SPEC-DRIFT).
LEGACY = ["duck"]          # root causes still present in the tree under test (the others were repaired by fix: commits)
# self-tests of proposed fixes / code mutants:  C20_LEGACY="marker,duck" ./check C20   (empty string = intended design);
# C20_UNIVERSE=nv replays the tiny universe of the non-vacuity runs instead of the tier's
if "C20_LEGACY" in os.environ:
    LEGACY = [x for x in os.environ["C20_LEGACY"].split(",") if x]

INTENDED_INVS = ["Inv_RoundTripOn", "Inv_SatOn", "Inv_NoException", "Inv_Terminates", "Inv_MarkerIffBack",
                 "Inv_O1Homogeneous", "Lemma_Conservative"]
FAITHFUL_INVS = ["F_Clean", "Inv_Terminates", "Inv_MarkerIffBack", "Inv_O1Homogeneous", "Lemma_Conservative"]
FSM_INVS = ["Fsm_Deterministic", "Fsm_Total", "Fsm_Sound", "Fsm_Maximal", "Fsm_Functional", "Fsm_ForkNodes",
            "Fsm_NoNestedLabels"]
SPEC_MUTANTS = {"no_guard": "Inv_Terminates", "union_drops_last": "Inv_RoundTripOn", "abc_too_narrow": "Inv_RoundTripOn",
                "meta_leaf_only": "F_Clean"}

CFG = """SPECIFICATION Spec
CONSTANTS
  Tier = "%(tier)s"
  L = %(L)d
  Emit = %(emit)s
  Mode = "%(mode)s"
  Mut = "none"
  SpecMut = "%(specmut)s"
  Legacy = %(legacy)s
%(invs)s
ALIAS ShowState
CHECK_DEADLOCK FALSE
"""


def _cfg(d, name, tier, mode="objs", legacy=(), specmut="none", invs=(), emit=False):
    L = 3 if tier == "thorough" else 2
    inv = "\n".join(f"INVARIANT {i}" for i in invs)
    if emit:
        inv += "\nINVARIANT EmitRows\nINVARIANT EmitMeta"
    return write_file(d, name, CFG % {"tier": tier, "L": L, "emit": "TRUE" if emit else "FALSE", "mode": mode,
                                      "specmut": specmut, "legacy": "{" + ", ".join(f'"{x}"' for x in legacy) + "}",
                                      "invs": inv})


# ===================================================================== concretiser
class XWorld(World):
    """sem.World plus the classes Infer.tla adds (every user class with a process-unique name)."""

    def __init__(self):
        super().__init__()
        n = self.n

        class E(enum.Enum):
            a = 1
            b = 2

        class DerivedEnumMeta(enum.EnumMeta):       # Django's ChoicesType pattern: the metaclass of the Enum
            pass                                    # merely INHERITS __len__ / __iter__ / __contains__ / __dir__

        class E2(enum.Enum, metaclass=DerivedEnumMeta):
            a = 1
            b = 2

        class M1(type):                             # a metaclass that makes the CLASS OBJECT a collection ...
            def __len__(cls):
                return 0

            def __iter__(cls):
                return iter(())

            def __contains__(cls, x):
                return False

            def __dir__(cls):                       # ... and advertises that in dir(cls), as EnumType does
                return list(super().__dir__()) + ["__len__", "__iter__", "__contains__"]

        class M2(M1):                               # nothing of its own: type(MC2).__dict__ has none of the dunders
            pass

        class MC1(metaclass=M1):
            pass

        class MC2(metaclass=M2):
            pass

        class USet(cabc.Set):
            def __init__(s, it):
                s._it = tuple(it)

            def __contains__(s, x):
                return x in s._it

            def __iter__(s):
                return iter(s._it)

            def __len__(s):
                return len(s._it)

        class USetNe(cabc.Set):           # a Set implementation that also defines __ne__ itself
            def __init__(s, it):
                s._it = tuple(it)

            def __contains__(s, x):
                return x in s._it

            def __iter__(s):
                return iter(s._it)

            def __len__(s):
                return len(s._it)

            def __ne__(s, o):
                return not (s == o)

        class UMSeq(cabc.MutableSequence):
            def __init__(s, it):
                s._it = list(it)

            def __getitem__(s, i):
                return s._it[i]

            def __setitem__(s, i, v):
                s._it[i] = v

            def __delitem__(s, i):
                del s._it[i]

            def __len__(s):
                return len(s._it)

            def insert(s, i, v):
                s._it.insert(i, v)

        class UMMap(cabc.MutableMapping):
            def __init__(s, p):
                s._d = dict(p)

            def __getitem__(s, k):
                return s._d[k]

            def __setitem__(s, k, v):
                s._d[k] = v

            def __delitem__(s, k):
                del s._d[k]

            def __iter__(s):
                return iter(s._d)

            def __len__(s):
                return len(s._d)

        class UMapNe(cabc.Mapping):
            def __init__(s, p):
                s._d = dict(p)

            def __getitem__(s, k):
                return s._d[k]

            def __iter__(s):
                return iter(s._d)

            def __len__(s):
                return len(s._d)

            def __ne__(s, o):
                return not (s == o)

        class DSeq:                       # every Sequence method, no Sequence base / registration
            def __init__(s, it):
                s._it = tuple(it)

            def __contains__(s, x):
                return x in s._it

            def __iter__(s):
                return iter(s._it)

            def __len__(s):
                return len(s._it)

            def __getitem__(s, i):
                return s._it[i]

            def __reversed__(s):
                return reversed(s._it)

            def count(s, x):
                return s._it.count(x)

            def index(s, x):
                return s._it.index(x)

        class DMap:                       # every Mapping method, no Mapping base / registration
            def __init__(s, p):
                s._d = dict(p)

            def __contains__(s, k):
                return k in s._d

            def __iter__(s):
                return iter(s._d)

            def __len__(s):
                return len(s._d)

            def __getitem__(s, k):
                return s._d[k]

            def __eq__(s, o):
                return s is o

            def __ne__(s, o):
                return s is not o

            __hash__ = object.__hash__

            def get(s, k, d=None):
                return s._d.get(k, d)

            def items(s):
                return s._d.items()

            def keys(s):
                return s._d.keys()

            def values(s):
                return s._d.values()

        class MyList(list):
            pass

        class USized:
            def __len__(s):
                return 0

        class UCont:
            def __contains__(s, x):
                return False

        class URev:
            def __iter__(s):
                return iter(())

            def __reversed__(s):
                return iter(())

        class UItor:
            def __iter__(s):
                return s

            def __next__(s):
                raise StopIteration

        def func(x: int, y) -> str:
            return ""

        mine = dict(E=E, E2=E2, MC1=MC1, MC2=MC2, USet=USet, USetNe=USetNe, UMSeq=UMSeq, UMMap=UMMap, UMapNe=UMapNe, DSeq=DSeq, DMap=DMap,
                    MyList=MyList, USized=USized, UCont=UCont, URev=URev, UItor=UItor)
        for k, c in mine.items():
            c.__name__ = c.__qualname__ = f"{k}_{n}"
        func.__name__ = func.__qualname__ = f"func_{n}"
        self.func = func
        self.x = mine
        od = collections.OrderedDict()
        self.cls_of = {
            **{k: v for k, v in self.classes.items()}, **mine,
            "deque": collections.deque, "USeq": self.USeq, "UColl": self.UColl, "UMap": self.UMap, "UIter": self.UIter,
            "gen": types.GeneratorType, "USizedIter": sem._SizedIter, "set": set, "frozenset": frozenset, "dict_keys": type({}.keys()),
            "dict_values": type({}.values()), "dict_items": type({}.items()), "odict_keys": type(od.keys()),
            "odict_values": type(od.values()), "odict_items": type(od.items()), "defaultdict": collections.defaultdict,
            "OrderedDict": collections.OrderedDict, "Counter": collections.Counter, "ChainMap": collections.ChainMap,
            "mappingproxy": types.MappingProxyType, "range": range, "func": types.FunctionType,
        }
        self.classes = {**self.classes, "E": E, "E2": E2, "MC2": MC2, "USet": USet}      # class objects TypeObj(...) may denote
        self.atoms = {"E": E.a, "E2": E2.a, "MC1": MC1(), "MC2": MC2(), "func": func, "USized": USized(), "UCont": UCont(), "URev": URev(), "UItor": UItor()}

    MUTABLE = ("list", "deque", "dict", "OrderedDict", "defaultdict")

    def xobj(self, o, env=()):
        """Abstract object (possibly with back-references) -> real object."""
        k = o["k"]
        if k == "back":
            tgt = env[o["v"] - 1]
            if tgt is None:
                raise ValueError("back-reference to an immutable container")
            return tgt
        if k == "atom":
            c = o["cls"]
            if c == "object":
                return object()
            if c in self.atoms:
                return self.atoms[c]
            if c == "float" and o["v"] == 0:
                return 0.0
            return self.atom(o)
        if k == "type":
            return self.classes[o["cls"]]
        c = o["cls"]
        if k == "iter":
            items = [self.xobj(i) for i in o["items"]]
            return (i for i in items) if c == "gen" else sem._SizedIter(items) if c == "USizedIter" else self.UIter(items)
        if k == "map":
            if c in self.MUTABLE:
                d = {"dict": dict, "OrderedDict": collections.OrderedDict,
                     "defaultdict": lambda: collections.defaultdict(sem._never)}[c]()
                e2 = (d,) + env
                for p in o["items"]:
                    d[self.xobj(p["key"], e2)] = self.xobj(p["val"], e2)
                return d
            e2 = (None,) + env
            pairs = [(self.xobj(p["key"], e2), self.xobj(p["val"], e2)) for p in o["items"]]
            if c == "Counter":
                d = collections.Counter()
                for a, b in pairs:
                    dict.__setitem__(d, a, b)
                return d
            if c == "ChainMap":
                return collections.ChainMap(dict(pairs))
            if c == "mappingproxy":
                return types.MappingProxyType(dict(pairs))
            if c == "UMap":
                return self.UMap(pairs)
            return self.x[c](pairs)
        # k == "cont"
        if c in ("list", "deque"):
            d = [] if c == "list" else collections.deque()
            e2 = (d,) + env
            for i in o["items"]:
                d.append(self.xobj(i, e2))
            return d
        e2 = (None,) + env
        items = [self.xobj(i, e2) for i in o["items"]]
        if c == "tuple":
            return tuple(items)
        if c == "range":
            return range(len(items))
        if c in ("USeq", "UColl"):
            return getattr(self, c)(items)
        if c == "set":
            return set(items)
        if c == "frozenset":
            return frozenset(items)
        if c == "dict_keys":
            return dict.fromkeys(items).keys()
        if c == "odict_keys":
            return collections.OrderedDict.fromkeys(items).keys()
        if c == "dict_values":
            return dict(enumerate(items)).values()
        if c == "odict_values":
            return collections.OrderedDict(enumerate(items)).values()
        if c == "dict_items":
            return dict(items).items()
        if c == "odict_items":
            return collections.OrderedDict(items).items()
        return self.x[c](items)

    # ------------------------------------------------------------- real hint -> abstract hint
    def _tables(self):
        if hasattr(self, "_cls_name"):
            return
        from beartype.bite._infermain import BeartypeInferHintContainerRecursion
        from beartype.vale import IsInstance
        self._cls_name = {}
        for name, c in self.cls_of.items():
            self._cls_name.setdefault(c, name)
        self._cls_name[type(None)] = "NoneType"
        self._cls_name[BeartypeInferHintContainerRecursion] = "Recursion"
        self._abc_name = {cabc.Sequence: "Sequence", cabc.MutableSequence: "MutableSequence", cabc.Collection: "Collection",
                          cabc.Iterable: "Iterable", cabc.Container: "Container", cabc.Reversible: "Reversible",
                          cabc.Sized: "Sized", cabc.Set: "AbstractSet", cabc.MutableSet: "MutableSet",
                          cabc.KeysView: "KeysView", cabc.ValuesView: "ValuesView", cabc.ItemsView: "ItemsView",
                          cabc.Mapping: "Mapping", cabc.MutableMapping: "MutableMapping", cabc.Iterator: "Iterator",
                          cabc.Generator: "Generator"}
        self._val_name = {}
        for c, name in self._cls_name.items():
            try:
                self._val_name[repr(IsInstance[c])] = name
            except Exception:          # noqa
                pass

    def proj(self, h):
        """Real hint -> abstract hint H(k, s, a, m) (unknown forms become k = "unknown")."""
        self._tables()
        H = lambda k, s="", a=(), m=(): {"k": k, "s": s, "a": list(a), "m": list(m)}     # noqa: E731
        if h is None:
            return H("cls", "NoneType")
        if h is cabc.Callable or typing.get_origin(h) is cabc.Callable:
            return H("shallow", "Callable")
        if isinstance(h, type) and typing.get_origin(h) is None:
            if h in self._cls_name:
                return H("cls", self._cls_name[h])
            if h in self._abc_name:
                return H("cls", self._abc_name[h])
            return H("unknown", repr(h))
        org, args = typing.get_origin(h), typing.get_args(h)
        if org is typing.Annotated:
            vals = []
            for v in h.__metadata__:
                nm = self._val_name.get(repr(v))
                if nm is None:
                    return H("unknown", repr(h))
                vals.append({"k": "isinst", "n": nm, "a": [], "o": []})
            return H("ann", "", [self.proj(args[0])], vals)
        if org is type:
            return H("type", "", [self.proj(args[0])])
        if org is typing.Union or org is types.UnionType:
            return H("union", "", [self.proj(a) for a in args])
        if org is tuple:
            if len(args) == 2 and args[1] is Ellipsis:
                return H("seq", "tuple", [self.proj(args[0])])
            return H("tupf", "", [self.proj(a) for a in args])
        name = self._cls_name.get(org) or self._abc_name.get(org)
        if name is None:
            return H("unknown", repr(h))
        if name == "Counter" and len(args) == 1:
            return H("map", "Counter", [self.proj(args[0]), H("cls", "int")])
        if len(args) == 2:
            return H("map", name, [self.proj(args[0]), self.proj(args[1])])
        if len(args) == 1:
            kind = "shallow" if name == "MyList" else "seq" if name in ("list", "Sequence", "MutableSequence") else "reit"
            return H(kind, name, [self.proj(args[0])])
        return H("unknown", repr(h))


def canon_hint(h):
    """Order-insensitive canonical form (union members sorted)."""
    a = [canon_hint(c) for c in h.get("a", [])]
    if h["k"] == "union":
        flat = []
        for c in a:
            flat.extend(c["a"] if c["k"] == "union" else [c])
        a = sorted(flat, key=okey)
    return {"k": h["k"], "s": h["s"], "a": a, "m": [dict(v) for v in h.get("m", [])] if h["k"] == "ann" else []}


def show_hint(h):
    """Readable text of an abstract hint (sem.short_hint plus the kinds Infer.tla adds)."""
    if h["k"] in ("exc", "diverge", "unknown"):
        return f"<{h['k']} {h['s']}>"
    if h["k"] == "shallow" and h["a"]:
        return h["s"] + "[" + show_hint(h["a"][0]) + "]"
    try:
        return sem.short_hint(h)
    except Exception:      # noqa
        return okey(h)


# ===================================================================== abstract-object helpers (harness logic)
def subobjs(o):
    if o["k"] == "map":
        out = []
        for p in o["items"]:
            out += [p["key"], p["val"]]
        return out
    return list(o["items"]) if o["k"] in ("cont", "iter") else []


def escape(o, depth=0):
    """Largest number of levels a back-reference inside ``o`` points ABOVE ``o`` (0: self-contained)."""
    if o["k"] == "back":
        return max(0, o["v"] - depth)
    return max([escape(c, depth + 1) for c in subobjs(o)] or [0])


def has_back(o):
    return o["k"] == "back" or any(has_back(c) for c in subobjs(o))


def _has_multiset(o):
    if o["k"] == "cont" and o["cls"] in ("set", "frozenset") and len(o["items"]) > 1:
        return True
    return any(_has_multiset(c) for c in subobjs(o))


LABEL = {"E": "Enum member", "E2": "member of an Enum with a derived metaclass",
         "MC1": "instance of a class whose metaclass defines the collection dunders",
         "MC2": "instance of a class whose parent metaclass defines the collection dunders", "USetNe": "user Set defining __ne__", "DSeq": "duck-typed Sequence (no Sequence base)",
         "DMap": "duck-typed Mapping (no Mapping base)", "Counter": "Counter with non-int values"}


def label_of(o):
    if o["k"] == "type":
        return "class " + o["cls"]
    if has_back(o):
        return "self-referential " + o["cls"]
    return LABEL.get(o["cls"], o["cls"])


# ===================================================================== the real round trip
class _Watchdog(Exception):
    pass


class _Runaway(BaseException):
    """infer_hint nested deeper than any object of the universe is: unbounded recursion."""


# Recursion watchdog.  The item inferers re-import ``beartype.bite._infermain.infer_hint`` on every call, so replacing
# that module attribute counts the nesting of the recursive calls (the public ``beartype.bite.infer_hint`` stays the
# original function).  Without it the outcome of an unbounded recursion depends on WHERE the stack overflows:
# RecursionError if it propagates, a garbage hint if it is raised inside one of beartype's ``except Exception`` blocks.
MAX_NEST = 100
_nest = [0]


def _install_recursion_watchdog():
    import beartype.bite._infermain as im
    if getattr(im.infer_hint, "_c20_guard", False):
        return
    orig = im.infer_hint

    def infer_hint(*a, **kw):
        _nest[0] += 1
        try:
            if _nest[0] > MAX_NEST:
                raise _Runaway()
            return orig(*a, **kw)
        finally:
            _nest[0] -= 1
    infer_hint._c20_guard = True
    im.infer_hint = infer_hint


_install_recursion_watchdog()


def _alarm(signum, frame):
    raise _Watchdog()


def _confs():
    from beartype import BeartypeConf, BeartypeStrategy
    return {"On": BeartypeConf(strategy=BeartypeStrategy.On), "O1": BeartypeConf(strategy=BeartypeStrategy.O1)}


def real_infer(x, conf, r, lcm, big=0):
    """(hint | None, exception name | None, [warning class names]) of one infer_hint call under residue r."""
    from beartype.bite import infer_hint
    set_draw(r, lcm, big)
    with warnings.catch_warnings(record=True) as ws:
        warnings.simplefilter("always")
        try:
            h = infer_hint(x) if conf is None else infer_hint(x, conf=conf)
            return h, None, [w.category.__name__ for w in ws]
        except _Watchdog:
            raise
        except _Runaway:
            return None, (f"RecursionError: unbounded recursion (infer_hint nested more than {MAX_NEST} levels deep; the "
                          f"unguarded call ends in RecursionError)"), [w.category.__name__ for w in ws]
        except BaseException as ex:      # noqa
            return None, f"{type(ex).__name__}: {str(ex)[:120]}", [w.category.__name__ for w in ws]


def real_check(x, h, r, lcm, big=0):
    """True / False / 'exception text' of is_bearable(x, h) under residue r."""
    from beartype.door import is_bearable
    set_draw(r, lcm, big)
    try:
        return bool(is_bearable(x, h))
    except _Watchdog:
        raise
    except BaseException as ex:          # noqa
        return f"{type(ex).__name__}: {str(ex)[:120]}"


def real_die(x, h, r, lcm):
    from beartype.door import die_if_unbearable
    from beartype.roar import BeartypeDoorHintViolation
    set_draw(r, lcm)
    try:
        die_if_unbearable(x, h)
        return True
    except BeartypeDoorHintViolation:
        return False
    except _Watchdog:
        raise
    except BaseException as ex:          # noqa
        return f"{type(ex).__name__}: {str(ex)[:120]}"


def round_trip(x, lcm, confs, big=0):
    """Everything observed on the real code for one object (fresh generators are the caller's business)."""
    out = {}
    # the literal call of the statement: default configuration
    h0, e0, w0 = real_infer(x, None, 0, lcm, big)
    out["default"] = {"hint": h0, "exc": e0, "warn": w0}
    h, e, w = real_infer(x, confs["On"], 0, lcm, big)
    on = {"hint": h, "exc": e, "warn": w, "mask": 0, "chk_exc": None, "die": None}
    if e is None:
        for r in range(lcm):
            v = real_check(x, h, r, lcm, big)
            if v is True:
                on["mask"] |= 1 << r
            elif v is not False:
                on["chk_exc"] = v
        on["die"] = real_die(x, h, 0, lcm)
        on["same_as_default"] = (e0 is None and (h0 == h or repr(h0) == repr(h)))
    out["On"] = on
    o1 = {"hints": [], "exc": [], "warn": [], "mask": 0, "cross_reject": 0, "chk_exc": None}
    for r in range(lcm):
        h, e, w = real_infer(x, confs["O1"], r, lcm, big)
        o1["hints"].append(h)
        o1["exc"].append(e)
        o1["warn"].append(w)
        if e is None:
            v = real_check(x, h, r, lcm, big)
            if v is True:
                o1["mask"] |= 1 << r
            elif v is not False:
                o1["chk_exc"] = v
            for r2 in range(lcm):
                if r2 != r and real_check(x, h, r2, lcm, big) is not True:
                    o1["cross_reject"] += 1
    out["O1"] = o1
    return out


def on_fails(rt, full):
    on = rt["On"]
    return on["exc"] is not None or on["mask"] != full or on["chk_exc"] is not None or on["die"] is not True \
        or rt["default"]["exc"] is not None


REC_WARNING = "BeartypeDoorInferHintRecursionWarning"


def judge(w, o, lcm, confs, row=None, big=0, timeout=20):
    """Replay one abstract object; return the observation record (issues + binding-strength facts)."""
    full = (1 << lcm) - 1
    res = {"j": row["j"] if row else None, "obj": _short(o), "issues": [], "drift": [],
           "agree": 0, "calls": 0, "nontrivial": None}
    old = signal.signal(signal.SIGALRM, _alarm)
    signal.alarm(timeout)
    try:
        x = w.xobj(o)
        rt = round_trip(x, lcm, confs, big)
    except _Watchdog:
        res["issues"].append({"key": {"obj": label_of(o), "hang": True}, "what": f"infer_hint / is_bearable did not "
                              f"terminate within {timeout}s on {res['obj']}", "o": o})
        return res
    except RecursionError:
        res["issues"].append({"key": {"obj": label_of(o), "exc": "RecursionError"}, "what": "runaway recursion", "o": o})
        return res
    finally:
        signal.alarm(0)
        signal.signal(signal.SIGALRM, old)
    res["calls"] = 3 + 2 * lcm + lcm * lcm
    on, o1 = rt["On"], rt["O1"]
    # ------------------------------------------------------------------ THE PROPERTY (real code only)
    if on_fails(rt, full):
        cul = _culprit(w, o, lcm, confs)
        crt = rt if cul is o else round_trip(w.xobj(cul), lcm, confs)
        con = crt["On"]
        key = {"obj": label_of(cul)}
        if con["exc"] is not None or crt["default"]["exc"] is not None:
            key["exc"] = (con["exc"] or crt["default"]["exc"]).split(":")[0]
        elif con["chk_exc"] is not None:
            key["check_exc"] = con["chk_exc"].split(":")[0]
        dd = cul is o and con["exc"] is None and con["mask"] not in (0, full)
        what = (f"infer_hint({res['obj']}) = {on['hint']!r}" if on["exc"] is None else f"infer_hint({res['obj']}) raises {on['exc']}")
        if on["exc"] is None:
            what += f"; is_bearable accepts under residues mask {on['mask']:0{lcm}b} of {full:0{lcm}b}" + \
                    (f"; checker raises {on['chk_exc']}" if on["chk_exc"] else "") + \
                    (f"; die_if_unbearable -> {on['die']}" if on["die"] is not True else "")
        res["issues"].append({"key": key, "dd": dd, "what": what, "o": o, "culprit": cul,
                              "size": len(okey(o))})
    elif o1["mask"] != full or any(o1["exc"]) or o1["chk_exc"]:
        res["o1_only"] = 1            # documented trade-off of strategy=O1 (one sampled item per level): not judged
    if on["exc"] is None and not on.get("same_as_default", True):
        res["drift"].append(f"infer_hint(x) without conf differs from conf=BeartypeConf(strategy=On) on {res['obj']}: "
                            f"{rt['default']['hint']!r} vs {on['hint']!r}")
    # self-referential containers must warn (and did terminate, or the watchdog would have fired)
    if row is not None and row["vback"] and on["exc"] is None and REC_WARNING not in on["warn"]:
        res["issues"].append({"key": {"obj": label_of(o), "no_recursion_warning": True}, "dd": False, "o": o, "culprit": o,
                              "size": len(okey(o)), "what": f"infer_hint({res['obj']}) visits a back-reference but emits "
                              f"no {REC_WARNING} (warnings: {on['warn']})"})
    res["warn_other"] = sorted({c for c in on["warn"] + sum(o1["warn"], []) if c != REC_WARNING})
    res["cross_reject"] = o1["cross_reject"]
    # ------------------------------------------------------------------ binding strength (spec vs real)
    if row is not None:
        perm = _has_multiset(o) and _perm(w, o)
        sp_on = canon_hint(row["on"])
        if row["on"]["k"] == "exc":
            ok = on["exc"] is not None and on["exc"].startswith(row["on"]["s"])
            _agree(res, ok, f"spec: infer_hint raises {row['on']['s']}; real: {on['exc'] or on['hint']!r} on {res['obj']}")
        elif on["exc"] is not None:
            _agree(res, False, f"spec: {show_hint(row['on'])}; real raises {on['exc']} on {res['obj']}")
        else:
            rp = canon_hint(w.proj(on["hint"]))
            _agree(res, rp == sp_on, f"On hint of {res['obj']}: spec {show_hint(sp_on)} real {on['hint']!r}")
            _agree(res, on["mask"] == row["rtOn"] or perm, f"On verdict mask of {res['obj']} with {on['hint']!r}: spec "
                   f"{row['rtOn']} real {on['mask']}")
            _agree(res, (REC_WARNING in on["warn"]) == row["markOn"], f"recursion warning on {res['obj']}: spec "
                   f"{row['markOn']} real {on['warn']}")
        if not perm:
            for r in range(lcm):
                sp = row["o1"][r]
                if sp["k"] == "exc":
                    ok = o1["exc"][r] is not None and o1["exc"][r].startswith(sp["s"])
                    _agree(res, ok, f"O1 r={r}: spec raises {sp['s']}; real {o1['exc'][r] or o1['hints'][r]!r} on {res['obj']}")
                elif o1["exc"][r] is not None:
                    _agree(res, False, f"O1 r={r}: spec {show_hint(sp)}; real raises {o1['exc'][r]} on {res['obj']}")
                else:
                    _agree(res, canon_hint(w.proj(o1["hints"][r])) == canon_hint(sp),
                           f"O1 r={r} hint of {res['obj']}: spec {show_hint(canon_hint(sp))} real {o1['hints'][r]!r}")
            if not any(o1["exc"]):
                _agree(res, o1["mask"] == row["rtO1"], f"O1 verdict mask of {res['obj']}: spec {row['rtO1']} real {o1['mask']}")
        res["nontrivial"] = okey(sp_on)
    return res


def _agree(res, ok, msg):
    if ok:
        res["agree"] += 1
    elif len(res["drift"]) < 3:
        res["drift"].append(msg)


def _perm(w, o):
    """Does some multi-item set inside ``o`` iterate in another order than its abstract item sequence?"""
    if o["k"] == "cont" and o["cls"] in ("set", "frozenset") and len(o["items"]) > 1 and escape(o) == 0:
        want = [w.xobj(i) for i in o["items"]]
        got = list(w.xobj(o))
        if any(not (a is b or (type(a) is type(b) and a == b)) for a, b in zip(want, got)):
            return True
    return any(_perm(w, c) for c in subobjs(o) if c["k"] in ("cont", "map"))


def _short(o):
    k = o["k"]
    if k == "back":
        return f"<back {o['v']}>"
    if k == "atom" and o["cls"] == "float" and o["v"] == 0:
        return "0.0"
    if k in ("atom", "type"):
        return sem.short_obj(o) if o["cls"] in ("int", "bool", "float", "complex", "str", "NoneType", "A", "B") or k == "type" \
            else f"<{o['cls']}>"
    if k == "map":
        return o["cls"] + "{" + ",".join(_short(p["key"]) + ":" + _short(p["val"]) for p in o["items"]) + "}"
    return o["cls"] + "(" + ",".join(_short(i) for i in o["items"]) + ")"


def _culprit(w, o, lcm, confs):
    """Smallest self-contained sub-object whose own round trip fails on the real code (root-cause class)."""
    full = (1 << lcm) - 1
    for c in subobjs(o):
        if c["k"] == "back" or escape(c) > 0:
            continue
        try:
            if on_fails(round_trip(w.xobj(c), lcm, confs), full):
                return _culprit(w, c, lcm, confs)
        except (_Watchdog, RecursionError):
            return c
    return o


# ===================================================================== workers
_W = None


def _worker(args):
    files, lcm, seed = args
    global _W
    warnings.simplefilter("ignore")
    sys.setrecursionlimit(3000)
    if _W is None:
        _W = XWorld()
    confs = _confs()
    out = []
    for f in files:
        row = json.load(open(f))
        o = row["x"]
        big = (1 + (row["j"] + seed) % 2) if (row["j"] + seed) % 5 == 0 else 0     # large representatives of the residue
        r = judge(_W, o, lcm, confs, row=row, big=big)
        r["causes"] = row["causes"]
        r["pred_fail"] = row["rtOn"] != (1 << lcm) - 1 or row["on"]["k"] == "exc"
        out.append(r)
    return out


# ===================================================================== pre-checks of the tables
def precheck(rep, meta, w):
    """The spec's account of the classes (methods, ABC membership, subclassing) must be CPython's; the spec's
    automaton and builtin table are compared with beartype's (drift, not an oracle failure)."""
    import inspect
    from beartype.bite.collection.infercollectionsabc import get_finite_state_machine
    from beartype.bite.collection import infercollectionbuiltin as icb
    alpha = set()
    for n in meta["fsm"].values():
        for e in n["edges"]:
            alpha.update(e["req"])
    bad = []
    for c, m in meta["methods"].items():
        cls = w.cls_of[c]
        inst, met, inh = set(), set(), set()
        for a in set(dir(cls)) & alpha:
            v = inspect.getattr_static(cls, a)
            if not callable(v) or v is getattr(object, a, None):
                continue
            # defined for the instances / by the metaclass itself / inherited by the metaclass from a parent metaclass
            (inst if any(a in b.__dict__ for b in cls.__mro__) else met if a in type(cls).__dict__ else inh).add(a)
        if inst != set(m["inst"]) or met != set(m["meta"]) or inh != set(m["metainh"]):
            bad.append(f"methods of {c}: spec inst={sorted(m['inst'])} meta={sorted(m['meta'])} metainh={sorted(m['metainh'])}; "
                       f"real inst={sorted(inst)} meta={sorted(met)} metainh={sorted(inh)}")
    w._tables()
    abc_by_name = {v: k for k, v in w._abc_name.items()}
    abc_by_name["Callable"] = cabc.Callable
    for c, names in meta["abcs"].items():
        cls = w.cls_of.get(c)
        if cls is None:
            bad.append(f"no real class for {c}")
            continue
        real = {n for n, a in abc_by_name.items() if issubclass(cls, a)}
        if real != set(names) & set(abc_by_name) or set(names) - set(abc_by_name):
            bad.append(f"ABCs of {c}: spec {sorted(names)} real {sorted(real)}")
    for c in meta["parents"]:
        for d in meta["parents"]:
            spec_sub = _spec_subcls(meta["parents"], c, d)
            real_sub = issubclass(w.cls_of[c], w.cls_of[d])
            if spec_sub != real_sub:
                bad.append(f"issubclass({c}, {d}): spec {spec_sub} real {real_sub}")
    if bad:
        rep.machinery("the specification's class tables disagree with CPython / the harness classes: " + "; ".join(bad[:6]))
    # --- transcription of beartype's tables (binding strength)
    drift = []
    real_nodes = {}

    def walk(node, name):
        edges = []
        for req, nx in node.nodes_next.items():
            nm = _fac_name(w, nx.hint_factory)
            edges.append({"req": sorted(req), "to": nm})
            walk(nx, nm)
        real_nodes[name] = edges
    walk(get_finite_state_machine(), "start")
    fac = {n: d["fac"] for n, d in meta["fsm"].items()}
    spec_nodes = {fac[n]: [{"req": sorted(e["req"]), "to": fac[e["to"]]} for e in d["edges"]]
                  for n, d in meta["fsm"].items()}
    for n in sorted(set(spec_nodes) | set(real_nodes)):
        if spec_nodes.get(n) != real_nodes.get(n):
            drift.append(f"automaton node {n}: spec {spec_nodes.get(n)} real {real_nodes.get(n)}")
    for c, f in meta["builtin"].items():
        cls = w.cls_of[c]
        rf = icb._infer_hint_factory_collection_builtin(cls)
        rn = "" if rf is None else _fac_name(w, rf)
        if rn != f:
            drift.append(f"builtin factory of {c}: spec {f!r} real {rn!r}")
    for m in drift:
        rep.spec_drift("table transcription: " + m)
    rep.cov["tables_checked"] = {"method_tables": len(meta["methods"]), "abc_rows": len(meta["abcs"]),
                                 "automaton_nodes": len(meta["fsm"]), "builtin_rows": len(meta["builtin"]),
                                 "table_drift": len(drift)}


def _spec_subcls(parents, c, d):
    while True:
        if c == d or d == "object":
            return True
        c = parents.get(c, "object")
        if c == "object":
            return d == "object"


def _fac_name(w, f):
    w._tables()
    if f in w._abc_name:
        return w._abc_name[f]
    if f in w._cls_name:
        return w._cls_name[f]
    return getattr(f, "__name__", repr(f))


# ===================================================================== zoo (real objects outside the model)
def zoo(w):
    import array
    import datetime
    import decimal
    import fractions
    import time
    n = w.n

    class Fl(enum.Flag):
        a = 1
        b = 2

    # derived metaclasses: the collection dunders of the CLASS OBJECT come from a non-leaf metaclass
    class ChoicesMeta(enum.EnumMeta):
        pass

    class Colour(enum.Enum, metaclass=ChoicesMeta):
        RED = 1
        BLUE = 2

    class Suit(enum.IntEnum, metaclass=ChoicesMeta):
        HEART = 1

    class DFlag(enum.Flag, metaclass=ChoicesMeta):
        a = 1

    class ZM1(type):
        def __len__(cls):
            return 0

        def __iter__(cls):
            return iter(())

        def __contains__(cls, x):
            return False

        def __dir__(cls):
            return list(super().__dir__()) + ["__len__", "__iter__", "__contains__"]

    class ZM2(ZM1):
        pass

    class ZM3(ZM2):
        def __call__(cls, *a, **kw):                # a leaf metaclass with a non-empty __dict__ of its own
            return super().__call__(*a, **kw)

    class ZQuiet(type):                             # defines the dunders but does not advertise them in dir(cls)
        def __len__(cls):
            return 0

        def __iter__(cls):
            return iter(())

        def __contains__(cls, x):
            return False

    class ZQuiet2(ZQuiet):
        pass

    class Deep3(metaclass=ZM3):
        pass

    class Quiet2(metaclass=ZQuiet2):
        pass

    class SizedDeep(metaclass=ZM2):                 # the instances really are Sized; the class object is a collection
        def __len__(self):
            return 0

    for c in (Colour, Suit, DFlag, Deep3, Quiet2, SizedDeep):
        c.__name__ = c.__qualname__ = f"{c.__name__}_{n}"

    P = collections.namedtuple(f"P_{n}", "x y")

    class MyStr(str):
        pass

    class MyInt(int):
        pass

    class MyTuple(tuple):
        pass

    class MyDict(dict):
        pass

    class CallObj:
        def __call__(self, x: int) -> str:
            return ""

    class Slotted:
        __slots__ = ("a",)

    for c in (Fl, MyStr, MyInt, MyTuple, MyDict, CallObj, Slotted):
        c.__name__ = c.__qualname__ = f"{c.__name__}_{n}"

    def g():
        pass

    def h(*a, k=1, **kw):
        pass

    async def co():
        pass

    def seen_str_then_userstring():
        from beartype.bite import infer_hint
        infer_hint("q")                          # memoises is_hint_pep("q") - a UserString equal to it hits that entry
        return collections.UserString("q")

    return [
        # string-like sequences: every item is a FRESH one-character object of the same class (no id() ever repeats).
        # FIRST in the zoo and spelled with characters no other case uses: beartype memoises is_hint_pep() on ==/hash
        ("UserString", lambda: collections.UserString("\u00b5\u00df")),
        ("one-character UserString", lambda: collections.UserString("\u00b5")),
        ("empty UserString", lambda: collections.UserString("")),
        ("list of UserString", lambda: [collections.UserString("\u00df\u00b5")]),
        ("UserString equal to a str inferred before", seen_str_then_userstring),
        ("namedtuple", lambda: P(1, "a")), ("list of namedtuple", lambda: [P(1, "a")]),
        ("struct_time", lambda: time.gmtime(0)), ("stat_result", lambda: os.stat("/")),
        ("str subclass", lambda: MyStr("ab")), ("empty str subclass", lambda: MyStr("")),
        ("int subclass", lambda: MyInt(1)), ("tuple subclass", lambda: MyTuple((1, "a"))),
        ("empty tuple subclass", lambda: MyTuple(())), ("dict subclass", lambda: MyDict(a=1)),
        ("Flag member", lambda: Fl.a),
        ("member of an Enum with a derived EnumMeta", lambda: Colour.RED),
        ("list of members of an Enum with a derived EnumMeta", lambda: [Colour.RED, Colour.BLUE]),
        ("dict value member of an IntEnum with a derived EnumMeta", lambda: {"k": Suit.HEART}),
        ("root tuple with a member of an Enum with a derived EnumMeta", lambda: (1, Colour.BLUE)),
        ("member of a Flag with a derived EnumMeta", lambda: DFlag.a),
        ("instance of a class with a 3-deep metaclass chain", lambda: Deep3()),
        ("set of instances of a class with a 3-deep metaclass chain", lambda: {Deep3()}),
        ("instance of a class whose parent metaclass defines unadvertised dunders", lambda: Quiet2()),
        ("Sized instance of a class whose parent metaclass is a collection", lambda: SizedDeep()),
        ("class object with a derived collection metaclass", lambda: Deep3), 
        ("bytes", lambda: b"ab"), ("bytearray", lambda: bytearray(b"ab")), ("memoryview", lambda: memoryview(b"ab")),
        ("array", lambda: array.array("i", [1, 2])), ("UserList", lambda: collections.UserList([1, "a"])),
        ("UserDict", lambda: collections.UserDict({1: "a"})), ("slice", lambda: slice(1, 2)),
        ("Ellipsis", lambda: Ellipsis), ("NotImplemented", lambda: NotImplemented), ("module", lambda: os),
        ("Fraction", lambda: fractions.Fraction(1, 2)), ("Decimal", lambda: decimal.Decimal("1.5")),
        ("datetime", lambda: datetime.datetime(2020, 1, 1)), ("lambda", lambda: (lambda x: x)),
        ("function without annotations", lambda: g), ("function with varargs", lambda: h), ("builtin function", lambda: len),
        ("bound method", lambda: [].append), ("functools.partial", lambda: functools.partial(h, 1)),
        ("callable instance", lambda: CallObj()), ("coroutine function", lambda: co),
        ("slotted instance", lambda: Slotted()), ("long root tuple", lambda: tuple(range(11))),
        ("long heterogeneous root tuple", lambda: tuple([1, "a"] * 6)), ("10-tuple", lambda: tuple(range(10))),
        ("long heterogeneous list", lambda: [1, "a", None, 2.5, b"x"] * 40), ("deep list", lambda: [[[[[[1]]]]]]),
        ("dict of lists of dicts", lambda: {"a": [{"b": [1, 2]}, {"c": []}], "d": []}),
        ("list of functions and classes", lambda: [g, int, len]), ("set of frozensets", lambda: {frozenset({1}), frozenset()}),
        ("nested empty containers", lambda: [[], (), {}, set()]), ("list of None and int", lambda: [None, 1]),
        ("mixed bool / int list", lambda: [True, 1, 0]), ("float / int / complex list", lambda: [1, 2.5, 3j]),
        ("dict with tuple keys", lambda: {(1, "a"): [2], (2, "b"): ["c"]}),
        ("ChainMap of two dicts", lambda: collections.ChainMap({1: "a"}, {"b": 2})),
        ("defaultdict of lists", lambda: collections.defaultdict(list, a=[1], b=["c"])),
        ("object()", lambda: object()), ("list of object()", lambda: [object(), object()]),
        # ==-equal items of different types beyond the model's length bound
        ("12-tuple of 1 and 1.0", lambda: tuple([1, 1.0] * 6)), ("12-tuple of True and 1", lambda: tuple([True, 1] * 6)),
        ("list of 0.0, 0 and 'x'", lambda: [0.0, 0, "x"]), ("long list of 1.0 and 1", lambda: [1.0, 1] * 20),
        ("deque of False, 0 and 0.0", lambda: collections.deque([False, 0, 0.0])),
        ("UserList of True, 1 and 1.0", lambda: collections.UserList([True, 1, 1.0])),
        ("Counter of lists", lambda: collections.Counter({"a": [1, 2]})),
        ("Counter of int and str", lambda: collections.Counter({"a": 1, "b": "x"})),
    ]


# zoo objects that are further instances of one root-cause class share its key
ZOO_LABEL = {"one-character UserString": "UserString", "list of UserString": "UserString", "empty UserString": "UserString"}
ZOO_LCM = 12          # residues 0..11: every index of the 12-item containers above is sampled


def run_zoo(rep, w, confs, agg):
    lcm = ZOO_LCM
    full = (1 << lcm) - 1
    n = 0
    for name, mk in zoo(w):
        old = signal.signal(signal.SIGALRM, _alarm)
        signal.alarm(20)
        try:
            x = mk()
            rt = round_trip(x, lcm, confs)
        except _Watchdog:
            agg_add(agg, {"obj": ZOO_LABEL.get(name, name), "zoo": True, "hang": True}, False,
                    f"zoo object {name}: no termination", {"zoo": name, "lcm": lcm}, len(name))
            continue
        finally:
            signal.alarm(0)
            signal.signal(signal.SIGALRM, old)
        n += 1
        rep.count(3 + 2 * lcm + lcm * lcm)
        if on_fails(rt, full):
            on = rt["On"]
            key = {"obj": ZOO_LABEL.get(name, name), "zoo": True}
            if on["exc"] or rt["default"]["exc"]:
                key["exc"] = (on["exc"] or rt["default"]["exc"]).split(":")[0]
            elif on["chk_exc"]:
                key["check_exc"] = on["chk_exc"].split(":")[0]
            what = (f"zoo object {name}: infer_hint -> {on['hint']!r}, accepted under residues mask {on['mask']:0{lcm}b}"
                    + (f", checker raises {on['chk_exc']}" if on["chk_exc"] else "")) if on["exc"] is None else \
                f"zoo object {name}: infer_hint raises {on['exc']}"
            agg_add(agg, key, on["exc"] is None and on["mask"] not in (0, full), what, {"zoo": name, "lcm": lcm}, len(name))
    rep.cov["zoo_objects"] = n


# ===================================================================== aggregation / reporting
def agg_add(agg, key, dd, what, case, size):
    k = okey(key)
    a = agg.setdefault(k, {"key": key, "dd": False, "n": 0, "what": what, "case": case, "size": size, "dd_size": None})
    a["n"] += 1
    if size < a["size"]:
        a["what"], a["case"], a["size"] = what, case, size
    if dd and (a["dd_size"] is None or size < a["dd_size"]):     # smallest DRAW-DEPENDENT example of the class
        a["dd"], a["dd_what"], a["dd_case"], a["dd_size"] = True, what, case, size


def report(rep, agg, lcm):
    for k in sorted(agg):
        a = agg[k]
        key = dict(a["key"])
        what, case = a["what"], a["case"]
        if a["dd"]:
            key["draw_dependent"] = True
            what, case = a["dd_what"], a["dd_case"]
        rep.violation(key, f"{what}  [{a['n']} case(s) of this root-cause class]", {"lcm": lcm, **case})


# ===================================================================== R1
def run_models(rep, tier, d, rows_dir):
    """All TLC runs, concurrently (each JVM gets a share of the cores)."""
    jobs = {
        "fsm": dict(cfg=_cfg(d, "fsm.cfg", "fsm_full" if tier == "thorough" else "nv", mode="fsm", legacy=LEGACY,
                             invs=FSM_INVS), workers=4, heap="2g"),
        "intended": dict(cfg=_cfg(d, "intended.cfg", tier, legacy=(), invs=INTENDED_INVS), workers=8, heap="8g"),
        "faithful": dict(cfg=_cfg(d, "faithful.cfg", tier, legacy=LEGACY, invs=FAITHFUL_INVS, emit=True), workers=8,
                         heap="8g"),
    }
    for m, inv in SPEC_MUTANTS.items():
        if inv == "F_Clean":
            # a mutant the repaired "duck" design would mask (its back-off to the deepest ABC the object really is an
            # instance of): judged on the design that trusts the automaton, where every failure outside the duck-typed
            # classes is unexplained
            jobs["mutant_" + m] = dict(cfg=_cfg(d, f"mut_{m}.cfg", "nv", legacy=("duck",), specmut=m,
                                                invs=["F_Clean"] + [i for i in FAITHFUL_INVS if i != "F_Clean"]),
                                       workers=2, heap="2g")
            continue
        jobs["mutant_" + m] = dict(cfg=_cfg(d, f"mut_{m}.cfg", "nv", legacy=(), specmut=m,
                                            invs=[inv] + [i for i in INTENDED_INVS if i != inv]), workers=2, heap="2g")

    def go(name):
        j = jobs[name]
        return name, tlc.run_tlc("MC_Infer.tla", j["cfg"], workers=j["workers"], heap=j["heap"],
                                 env={"ROW_DIR": rows_dir}, timeout=3600)
    res = {}
    with cf.ThreadPoolExecutor(max_workers=len(jobs)) as ex:
        for name, r in ex.map(go, list(jobs)):
            res[name] = r
            rep.tlc(r, f"MC_Infer {name}")
    for name in ("fsm", "intended", "faithful"):
        r = res[name]
        if r.violated or not r.ok:
            st = [s for a, s in r.error_trace][-1:] if r.error_trace else None
            rep.machinery(f"MC_Infer ({name}) does not satisfy its invariants: {r.violated or r.output[-800:]} "
                          f"{json.dumps(st, default=repr)[:1500]} - fix the model")
    # (TLC's -coverage is unusable on this model: it exhausts the heap; depth 7 = 3 pick states + 4 automaton steps)
    if res["fsm"].depth < 7 or res["fsm"].distinct < 1000:
        rep.machinery(f"automaton run too shallow (depth {res['fsm'].depth}, {res['fsm'].distinct} states): the "
                      f"MutableSequence / MutableMapping / MutableSet / Generator nodes were never reached (vacuous)")
    for m in SPEC_MUTANTS:
        r = res["mutant_" + m]
        if not r.violated:
            rep.machinery(f"spec mutant {m} is not rejected by any invariant: vacuous model")
        rep.add("spec_mutants_killed")
        rep.cov.setdefault("spec_mutants", []).append({"mutant": m, "rejected_by": r.violated})


# ===================================================================== entry points
def run(rep, tier, seed):
    rep.assumptions += [
        "objects that are themselves type hints are excluded (None is kept: it round-trips)",
        "strategy=O1 inference describes one sampled item per level (documented trade-off): an O1-only rejection is "
        "counted (o1_only_rejections), compared with the model's prediction, and not judged; the property is judged on "
        "infer_hint(x) with the default configuration and with strategy=On, under every draw residue",
        "callables: parameter / return child hints of the inferred Callable[...] are not modelled (beartype checks "
        "Callable hints shallowly)",
        "bounds: container length <= 2 (quick) / 3 (thorough), depth <= 3; back-references point at list / deque / dict "
        "/ OrderedDict / defaultdict ancestors",
    ]
    with scratch("c20-") as d:
        rows_dir = os.path.join(d, "rows")
        os.makedirs(rows_dir)
        run_models(rep, os.environ.get("C20_UNIVERSE", tier), d, rows_dir)
        meta = json.load(open(os.path.join(rows_dir, "meta.json")))
        lcm = meta["lcm"]
        w = XWorld()
        precheck(rep, meta, w)
        confs = _confs()
        files = sorted(glob.glob(os.path.join(rows_dir, "row_*.json")),
                       key=lambda p: int(os.path.basename(p)[4:-5]))
        if len(files) != meta["nobj"]:
            rep.machinery(f"TLC emitted {len(files)} rows for {meta['nobj']} objects")
        agg = {}
        nproc = min(16, max(1, len(files) // 50))
        chunks = [(files[i::nproc * 8], lcm, seed) for i in range(nproc * 8)]
        with mp.get_context("fork").Pool(nproc) as pool:
            results = pool.map(_worker, [c for c in chunks if c[0]], chunksize=1)
        seen_causes = {}
        n_pred_fail = n_real_fail = 0
        for chunk in results:
            for r in chunk:
                rep.count(r["calls"])
                rep.add("model_agreement", r["agree"])
                rep.add("o1_only_rejections", r.get("o1_only", 0))
                rep.add("o1_cross_draw_rejections", r.get("cross_reject", 0))
                for wname in r.get("warn_other", []):
                    rep.add("other_warning_" + wname)
                if r["nontrivial"]:
                    rep.nontrivial(r["nontrivial"])
                for m in r["drift"]:
                    rep.spec_drift(m)
                if r["pred_fail"]:
                    n_pred_fail += 1
                    for c in (r["causes"] if len(r["causes"]) == 1 else []):
                        seen_causes[c] = seen_causes.get(c, 0) + 1
                for i in r["issues"]:
                    n_real_fail += 1 if "no_recursion_warning" not in i["key"] else 0
                    agg_add(agg, i["key"], i.get("dd", False), i["what"],
                            {"x": i["o"], "culprit": i.get("culprit")}, i.get("size", 0))
                if len(rep.samples) < 8 and r["j"] and r["j"] % 997 == 0:
                    rep.sample({"object": r["obj"], "agreements": r["agree"], "issues": [i["key"] for i in r["issues"]]})
        rep.cov["rows_replayed"] = sum(len(c) for c in results)
        rep.add("traces_validated_against_impl", rep.cov["rows_replayed"])
        rep.cov["rows_predicted_failing_by_faithful_model"] = n_pred_fail
        rep.cov["rows_failing_on_real_code"] = n_real_fail
        rep.cov["root_causes_exhibited_by_model"] = seen_causes
        # non-vacuity of the faithful model: every root cause switched on must be exhibited by some row
        missing = [c for c in LEGACY if not seen_causes.get(c)]
        if missing:
            rep.machinery(f"the faithful model exhibits no failing row for root cause(s) {missing}: vacuous")
        run_zoo(rep, w, confs, agg)
        report(rep, agg, lcm)
        rep.cov["exhaustive"] = True
        rep.cov["legacy_root_causes_in_model"] = list(LEGACY)


def replay(rep, path):
    case = json.load(open(path))["case"]
    w = XWorld()
    confs = _confs()
    lcm = case.get("lcm", 6)
    full = (1 << lcm) - 1
    rep.level = "exploration"
    if "zoo" in case:
        mk = dict(zoo(w))[case["zoo"]]
        x = mk()
        rt = round_trip(x, lcm, confs)
        print(f"zoo object {case['zoo']}: {x!r}")
    else:
        o = case.get("culprit") or case["x"]
        x = w.xobj(o)
        print("abstract object:", _short(o))
        rt = round_trip(x, lcm, confs)
    on = rt["On"]
    print("infer_hint(x)                 ->", rt["default"]["exc"] or repr(rt["default"]["hint"]), rt["default"]["warn"])
    print("infer_hint(x, strategy=On)    ->", on["exc"] or repr(on["hint"]), on["warn"])
    if on["exc"] is None:
        print(f"is_bearable(x, hint) per draw residue 0..{lcm - 1}:",
              [bool(on["mask"] >> r & 1) for r in range(lcm)], "checker exception:", on["chk_exc"], "die_if_unbearable ok:", on["die"])
    for r in range(lcm):
        print(f"infer_hint(x, strategy=O1), residue {r} ->", rt["O1"]["exc"][r] or repr(rt["O1"]["hints"][r]),
              "accepted under the same residue:", bool(rt["O1"]["mask"] >> r & 1))
    rep.count(3 + 2 * lcm + lcm * lcm)
    rep.nontrivial("replay")
    if on_fails(rt, full):
        print("=> the round trip FAILS on this tree")
    else:
        print("=> the round trip holds on this tree")
