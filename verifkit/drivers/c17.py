"""C17 — BeartypeConf is memoised, comparable and validated uniformly.

R1  TLC checks Conf.tla (KeyMode "typed") exhaustively for several option groups; the
    0.23.0 keying discipline (KeyMode "raw") is run as a spec mutant and must violate.
R2  every edge of the dumped state graphs is replayed on the real BeartypeConf, one
    forked interpreter per history: exception class, identity classes, read-back of all
    17 options, ==/hash coherence, repr, BeartypeConf(**c.kwargs) is c.
R3  long random histories over the full option list are recorded and validated by
    trace/ConfTrace.tla.
"""
from __future__ import annotations

import json
import os
import random
import re
import sys

from verifkit import tlc
from verifkit.util import ForkPool, fork_map, scratch, tla_set, write_file

LEVEL = "model_checking"
POOL = None
SAMPLE = None
RSEED = 0

BOOL_OPTS = ["claw_is_pep526", "is_debug", "is_pep484_tower", "is_pep557_fields", "is_random"]
ENUM_OPTS = ["claw_decor_place_func", "claw_decor_place_type", "strategy", "violation_verbosity"]
EXC_OPTS = ["violation_door_type", "violation_param_type", "violation_return_type"]
OTHER = ["violation_type", "is_color", "hint_overrides", "claw_skip_package_names",
         "warning_cls_on_decorator_exception"]
OPTS = BOOL_OPTS + ENUM_OPTS + EXC_OPTS + OTHER

VALS = {
    "bool": [("bool", 0), ("bool", 1), ("int", 0), ("int", 1), ("float", 0), ("float", 1), ("int", 2), ("str", 0),
             ("none", 0)],
    "enum": [("enum", 0), ("enum", 1), ("enum", 2), ("int", 2), ("str", 0)],
    "exc": [("none", 0), ("exc", 1), ("exc", 2), ("warn", 1), ("dflt", 0), ("cls", 9), ("inst", 1)],
    "violation_type": [("none", 0), ("exc", 1), ("exc", 2), ("warn", 1), ("cls", 9), ("inst", 1)],
    "is_color": [("none", 0), ("bool", 0), ("bool", 1), ("int", 0), ("int", 1), ("str", 0)],
    "hint_overrides": [("fd", 0), ("fd", 1), ("fd", 2), ("fd", 3), ("fd", 4), ("fd", 5), ("dict", 1)],
    "claw_skip_package_names": [("tuple", 0), ("tuple", 1), ("fset", 1), ("list", 1), ("tuple", 7)],
    "warning_cls_on_decorator_exception": [("wcls", 0), ("none", 0), ("warn", 1), ("cls", 9)],
}


def vals_of(o):
    if o in BOOL_OPTS:
        return VALS["bool"]
    if o in ENUM_OPTS:
        return VALS["enum"]
    if o in EXC_OPTS:
        return VALS["exc"]
    return VALS[o]


def default_of(o):
    if o in ("claw_is_pep526", "is_random"):
        return ("bool", 1)
    if o in BOOL_OPTS:
        return ("bool", 0)
    if o in ENUM_OPTS:
        return ("enum", 0)
    if o in EXC_OPTS or o in ("violation_type", "is_color"):
        return ("none", 0)
    return {"hint_overrides": ("fd", 0), "claw_skip_package_names": ("tuple", 0),
            "warning_cls_on_decorator_exception": ("wcls", 0)}[o]


# ------------------------------------------------------------------ concretiser (child side)
class _Cat:
    """Concrete catalogue, built lazily inside the (forked) child."""

    def __init__(self):
        import beartype
        from beartype import BeartypeConf, BeartypeDecorPlace, BeartypeStrategy, BeartypeViolationVerbosity, FrozenDict
        from beartype.roar import (BeartypeCallHintParamViolation, BeartypeCallHintReturnViolation,
                                   BeartypeDoorHintViolation)
        self.BeartypeConf = BeartypeConf
        self.ExcA = type("ExcA", (Exception,), {})
        self.ExcB = type("ExcB", (Exception,), {})
        self.WarnA = type("WarnA", (UserWarning,), {})
        self.A = type("A", (), {})
        self.B = type("B", (), {})
        S, P, VV = BeartypeStrategy, BeartypeDecorPlace, BeartypeViolationVerbosity
        self.enum = {
            "strategy": [S.O1, S.On, S.O0],
            "violation_verbosity": [VV.DEFAULT, VV.MINIMAL, VV.MAXIMAL],
            "claw_decor_place_func": [P.LAST_BEFORE_DECOR_HOSTILE, P.FIRST, P.LAST],
            "claw_decor_place_type": [P.LAST, P.FIRST, P.LAST_BEFORE_DECOR_HOSTILE],
        }
        self.dflt = {"violation_door_type": BeartypeDoorHintViolation,
                     "violation_param_type": BeartypeCallHintParamViolation,
                     "violation_return_type": BeartypeCallHintReturnViolation}
        default = BeartypeConf()
        tower = {float: float | int, complex: complex | float | int}
        self.fd = {0: FrozenDict(), 1: FrozenDict({self.A: self.B}), 2: FrozenDict(tower),
                   3: FrozenDict({float: int}), 4: FrozenDict({self.A: self.B, **tower}),
                   5: FrozenDict({float: float | int, complex: int})}
        self.FrozenDict = FrozenDict

    def conc(self, o, ty, v):
        if ty == "bool":
            return bool(v)
        if ty == "int":
            return int(v)
        if ty == "float":
            return float(v)
        if ty == "str":
            return "True" if o == "is_color" else "O1"
        if ty == "none":
            return None
        if ty == "enum":
            return self.enum[o][v]
        if ty == "exc":
            return {1: self.ExcA, 2: self.ExcB}[v]
        if ty == "warn":
            return self.WarnA
        if ty == "dflt":
            return self.dflt[o]
        if ty == "cls":
            return int
        if ty == "inst":
            return ValueError("x")
        if ty == "fd":
            # a *fresh* equal FrozenDict each time, built in a rotating insertion order:
            # equal-but-not-identical arguments (dict equality and hash ignore insertion order)
            items = list(self.fd[v].items())
            k = getattr(self, "call_no", 0) % len(items) if items else 0      # call_no: set per constructor call
            return self.FrozenDict(dict(items[k:] + items[:k]))
        if ty == "dict":
            return {self.A: self.B}
        if ty == "tuple":
            return {0: (), 1: ("pkg_a",), 7: ("not an identifier!",)}[v]
        if ty == "fset":
            return frozenset({"pkg_a"})
        if ty == "list":
            return ["pkg_a"]
        if ty == "wcls":
            raise KeyError((o, ty, v))
        raise KeyError((o, ty, v))

    def proj(self, o, x):
        """real read-back value -> abstract value (or an 'unknown' marker)."""
        for ty, v in vals_of(o) + [("dflt", 0)]:
            try:
                c = self.conc(o, ty, v)
            except KeyError:
                continue
            if ty in ("inst", "dict", "list"):
                continue
            if type(c) is type(x) and c == x:
                return [ty, v]
        return ["unknown", repr(x)[:80]]


def _run_history(hist):
    """Child: perform the calls of one history; return one observation per call.

    hist = list of {opt: [ty, v]} (only non-default options are passed as keywords;
    a second field "order" may give the keyword order)."""
    os.environ.pop("BEARTYPE_IS_COLOR", None)
    import warnings
    warnings.simplefilter("ignore")
    cat = _Cat()
    BeartypeConf = cat.BeartypeConf
    objs = [BeartypeConf()]          # position 0: the default configuration (Init state)
    out = []
    rnd = random.Random(len(hist))
    for call_no, call in enumerate(hist):
        cat.call_no = call_no + 1
        kw = call["kw"]
        names = list(kw)
        if call.get("shuffle"):
            rnd.shuffle(names)
        names = [o for o in names if tuple(kw[o]) != ("wcls", 0)]     # the private default: expressible only by omission
        real = {o: cat.conc(o, *kw[o]) for o in names}
        ob = {"kind": None}
        try:
            c = BeartypeConf(**real)
        except BaseException as ex:       # noqa
            from beartype.roar import BeartypeConfParamException
            if type(ex) is BeartypeConfParamException:
                ob["kind"] = "raise"
            elif isinstance(ex, TypeError):
                ob["kind"] = "typeerror"
                ob["exc"] = f"{type(ex).__name__}: {ex}"[:200]
            else:
                ob["kind"] = "other"
                ob["exc"] = f"{type(ex).__name__}: {ex}"[:200]
            objs.append(None)
            out.append(ob)
            continue
        ob["kind"] = "conf"
        ident = next(i for i, p in enumerate(objs + [c]) if p is c)
        ob["ident"] = ident
        ob["readback"] = {o: cat.proj(o, getattr(c, o)) for o in OPTS}
        # == / hash coherence against every earlier object of this history
        coh = True
        for p in objs:
            if p is None:
                continue
            if (p == c) != (p is c):
                coh = False
            if p == c and hash(p) != hash(c):
                coh = False
        ob["eqhash"] = coh
        try:
            ob["roundtrip"] = BeartypeConf(**c.kwargs) is c
        except BaseException as ex:   # noqa
            ob["roundtrip"] = f"{type(ex).__name__}: {ex}"[:120]
        # same keywords in another order -> same object
        try:
            ob["reorder"] = BeartypeConf(**{o: real[o] for o in reversed(names)}) is c
        except BaseException as ex:   # noqa
            ob["reorder"] = f"{type(ex).__name__}"
        r = repr(c)
        ob["listed"] = sorted(o for o in OPTS if re.search(r"[(, ]" + o + "=", r))
        objs.append(c)
        out.append(ob)
    return out


# ------------------------------------------------------------------ spec side
CFG = """SPECIFICATION Spec
CONSTANTS
  KeyMode = "%s"
  VaryOpts = %s
  MaxCalls = %d
INVARIANT Uniform
INVARIANT NoLeak
INVARIANT RoundTrip
INVARIANT MemoSound
CHECK_DEADLOCK FALSE
"""


def _rec2kw(rec):
    """parsed TLA+ function option -> [ty |-> .., v |-> ..]  ->  {opt: [ty, v]} of non-defaults."""
    kw = {}
    for o, val in dict(rec).items():
        o = o if isinstance(o, str) else o
        pair = (val["ty"], val["v"])
        if pair != default_of(o):
            kw[o] = [val["ty"], val["v"]]
    return kw


def _full(rec):
    return {o: [v["ty"], v["v"]] for o, v in dict(rec).items()}


def _compare(rep, hist_kw, observations, spec_results, origin):
    """Compare the real observations of one history with the spec's results."""
    ids = [json.dumps(_full(spec_results[0]["id"]), sort_keys=True)]      # Init: the default object
    dflt_id = _full(spec_results[0]["id"]) if origin.startswith("edge-cover") else None
    real_ident = [0]
    ok = True
    for i, (kw, ob, sr) in enumerate(zip(hist_kw, observations, spec_results[1:])):
        rep.count()
        want = sr["kind"]
        if ob["kind"] != want:
            ok = False
            # canonical key: the call and the PyEq-relevant part of the history
            rep.violation({"kind": "outcome", "call": kw, "got": ob["kind"], "want": want},
                          f"BeartypeConf({_fmt(kw)}) after {[_fmt(k) for k in hist_kw[:i]]}: real outcome "
                          f"{ob['kind']} {ob.get('exc', '')}, specification (Conf.tla Ideal) says {want}",
                          {"history": hist_kw[:i + 1], "origin": origin})
            ids.append(None)
            real_ident.append(None)
            continue
        if want != "conf":
            ids.append(None)
            real_ident.append(None)
            continue
        sid = json.dumps(_full(sr["id"]), sort_keys=True)
        # identity classes
        for j, pid in enumerate(ids):
            if pid is None:
                continue
            same_spec = pid == sid
            same_real = (real_ident[j] == ob["ident"]) if real_ident[j] is not None else False
            if same_spec != same_real:
                ok = False
                prev = hist_kw[j - 1] if j > 0 else {}
                rep.violation({"kind": "identity", "a": prev, "b": kw, "spec_same": same_spec},
                              f"BeartypeConf({_fmt(prev)}) and BeartypeConf({_fmt(kw)}): "
                              f"{'distinct objects' if same_spec else 'one shared object'} but the specification "
                              f"says {'one object (equal effective options)' if same_spec else 'distinct'}",
                              {"history": hist_kw[:i + 1], "origin": origin})
        ids.append(sid)
        real_ident.append(ob["ident"])
        want_rb = _full(sr["conf"])
        for o in OPTS:
            w = want_rb[o]
            if w == ["none", 0] and o == "is_color":
                pass
            if ob["readback"][o] != w:
                ok = False
                rep.violation({"kind": "readback", "opt": o, "call": kw, "got": ob["readback"][o]},
                              f"BeartypeConf({_fmt(kw)}).{o} reads back {ob['readback'][o]}, specification says {w}",
                              {"history": hist_kw[:i + 1], "origin": origin})
        want_listed = sorted(o for o in OPTS if _full(sr["id"])[o] != dflt_id[o]) if dflt_id is not None else ob["listed"]
        if ob["listed"] != want_listed:
            ok = False
            rep.violation({"kind": "repr", "call": kw},
                          f"repr(BeartypeConf({_fmt(kw)})) lists {ob['listed']}, specification says {want_listed}",
                          {"history": hist_kw[:i + 1], "origin": origin})
        for fld, what in (("eqhash", "==/hash disagree with identity"), ("reorder", "keyword order changes the object")):
            if ob[fld] is not True:
                ok = False
                rep.violation({"kind": fld, "call": kw}, f"BeartypeConf({_fmt(kw)}): {what} ({ob[fld]})",
                              {"history": hist_kw[:i + 1], "origin": origin})
        if ob["roundtrip"] is not True:
            ok = False
            rep.violation({"kind": "roundtrip", "call": kw},
                          f"BeartypeConf(**BeartypeConf({_fmt(kw)}).kwargs) is not that configuration "
                          f"({ob['roundtrip']})", {"history": hist_kw[:i + 1], "origin": origin})
    return ok


def _fmt(kw):
    return ", ".join(f"{o}=<{t}:{v}>" for o, (t, v) in sorted(kw.items()))


def _model_group(rep, d, vary, maxcalls, label, replay_edges=True):
    cfg = write_file(d, f"conf_{label}.cfg", CFG % ("typed", tla_set(vary), maxcalls))
    dot = os.path.join(d, f"conf_{label}")
    res = tlc.run_tlc("Conf.tla", cfg, coverage=True, dump_dot=dot if replay_edges else None)
    rep.tlc(res, f"Conf typed {label}")
    if res.violated:
        rep.machinery(f"Conf.tla (typed) violates {res.violated} in group {label}: the specification of the "
                      f"intended design is itself wrong")
    if res.coverage.get("Make", (0, 0))[1] == 0:
        rep.machinery("vacuous TLC run: Make never taken")
    if not replay_edges:
        return
    g = tlc.parse_dot(dot + ".dot")
    paths = tlc.edge_cover_paths(g)
    rep.add("graph_paths_total", len(paths))
    if SAMPLE is not None and len(paths) > SAMPLE:
        rep.add("groups_sampled")
        # quick tier: fork() costs ~6 ms in this sandbox; replay a seeded sample of the covering paths
        rnd = random.Random(RSEED * 1000 + len(paths))
        paths = rnd.sample(paths, SAMPLE)
    jobs, meta = [], []
    for p in paths:
        hist = []
        results = [g.nodes[p[0][0]]["res"]]
        for (s, a, t) in p:
            hist.append(_rec2kw(g.nodes[t]["last"]))
            results.append(g.nodes[t]["res"])
        jobs.append([{"kw": kw, "shuffle": True} for kw in hist])
        meta.append((hist, results))
    obs = POOL.map(_run_history, jobs)
    for (hist, results), o in zip(meta, obs):
        _compare(rep, hist, o, results, f"edge-cover of Conf.tla group {label}")
        rep.add("traces_validated_against_impl")
        if len(hist) >= 2:
            rep.nontrivial(json.dumps(hist, sort_keys=True))
    rep.sample({"group": label, "history": meta[len(meta) // 2][0]})
    rep.add("graph_edges_replayed", len(g.edges))


def _mutant(rep, d):
    cfg = write_file(d, "conf_mut.cfg", CFG % ("raw", tla_set(["is_debug"]), 2))
    res = tlc.run_tlc("Conf.tla", cfg)
    if not res.violated:
        rep.machinery("spec mutant KeyMode=raw (the 0.23.0 keying) does not violate any invariant: model is vacuous")
    rep.add("spec_mutants_killed")


# ------------------------------------------------------------------ R3: random traces
def _random_histories(seed, count, length):
    rnd = random.Random(seed)
    hs = []
    for _ in range(count):
        h = []
        for _ in range(length):
            k = rnd.choice([0, 1, 1, 2, 2, 3, 5])
            opts = rnd.sample(OPTS, k)
            kw = {}
            for o in opts:
                ty, v = rnd.choice(vals_of(o))
                kw[o] = [ty, v]
            h.append({"kw": kw, "shuffle": True})
        hs.append(h)
    return hs


def _trace_validate(rep, d, seed, count, length):
    hs = _random_histories(seed, count, length)
    obs = POOL.map(_run_history, hs)
    path = os.path.join(d, "conf_trace.ndjson")
    nev = 0
    with open(path, "w") as fh:
        for tid, (h, ob) in enumerate(zip(hs, obs)):
            fh.write(json.dumps({"ev": "Reset", "tid": tid}) + "\n")
            for call, o in zip(h, ob):
                kwfull = {opt: {"ty": t, "v": v} for opt, (t, v) in
                          {**{q: list(default_of(q)) for q in OPTS}, **call["kw"]}.items()}
                ev = {"ev": "Make", "tid": tid, "kw": kwfull, "out": o["kind"],
                      "ident": o.get("ident", -1)}
                if o["kind"] == "conf":
                    ev["rb"] = {opt: {"ty": t, "v": v} for opt, (t, v) in o["readback"].items()}
                    ev["listed"] = o["listed"]
                fh.write(json.dumps(ev) + "\n")
                nev += 1
    res = tlc.run_tlc("trace/ConfTrace.tla", "trace/ConfTrace.cfg", workers=1, env={"TRACE_FILE": path})
    rep.tlc(res, "ConfTrace")
    rep.add("trace_events", nev)
    if res.violated:
        # locate the first rejected event: printed by the trace spec
        rej = [r for r in res.printed if isinstance(r, dict) and "rejected_at" in r]
        pos = rej[-1]["rejected_at"] if rej else None
        lines = open(path).read().splitlines()
        bad = json.loads(lines[pos - 1]) if pos and pos <= len(lines) else {}
        tid = bad.get("tid", -1)
        hist = [c["kw"] for c in hs[tid]] if tid >= 0 else []
        kw = {o: [x["ty"], x["v"]] for o, x in bad.get("kw", {}).items() if (x["ty"], x["v"]) != default_of(o)}
        rep.violation({"kind": "trace", "call": kw, "got": bad.get("out")},
                      f"recorded BeartypeConf history is not a behaviour of Conf.tla: event {pos} "
                      f"BeartypeConf({_fmt(kw)}) -> {bad.get('out')} (trace {tid})",
                      {"history": hist, "event": bad, "origin": "random history, ConfTrace.tla"})
    else:
        rep.add("traces_validated_against_impl", count)
    # the direct observations that the trace does not carry
    for h, ob in zip(hs, obs):
        for call, o in zip(h, ob):
            rep.count()
            if o["kind"] == "conf":
                for fld, what in (("eqhash", "==/hash disagree with identity"),
                                  ("reorder", "keyword order changes the object")):
                    if o[fld] is not True:
                        rep.violation({"kind": fld, "call": call["kw"]},
                                      f"BeartypeConf({_fmt(call['kw'])}): {what} ({o[fld]})", {"history": h})
                if o["roundtrip"] is not True:
                    rep.violation({"kind": "roundtrip", "call": call["kw"]},
                                  f"BeartypeConf(**BeartypeConf({_fmt(call['kw'])}).kwargs) is not that "
                                  f"configuration ({o['roundtrip']})", {"history": h})
            elif o["kind"] in ("typeerror", "other"):
                rep.violation({"kind": "outcome", "call": call["kw"], "got": o["kind"], "want": "raise"},
                              f"BeartypeConf({_fmt(call['kw'])}) leaks {o.get('exc')}", {"history": h})
    rep.sample({"random_history": hs[0]})


def _repo_tests_trace(rep, d):
    """R3 on the repository's OWN tests: every BeartypeConf construction performed by the pinned configuration
    tests is recorded (verifkit/pytest_rec_conf.py) and validated by ConfTrace.tla."""
    import subprocess
    repo = os.environ.get("VERIF_REPO", "/repo")
    out = os.path.join(d, "repo_tests_conf.ndjson")
    tests = ["beartype_test/a00_unit/a30_api/conf", "beartype_test/a00_unit/a60_decor/a00_core/test_decorconf.py",
             "beartype_test/a00_unit/a60_decor/a90_roar/test_roarviolation.py"]
    cp = subprocess.run([sys.executable, "-m", "pytest", "-q", "-p", "no:cacheprovider", "-p", "verifkit.pytest_rec_conf"]
                        + tests, cwd=repo, capture_output=True, text=True,
                        env={**os.environ, "VERIF_CONF_TRACE": out, "PYTHONPATH": os.environ.get("PYTHONPATH", "")})
    if not os.path.exists(out):
        rep.note("repository tests produced no configuration trace: " + cp.stdout[-300:] + cp.stderr[-300:])
        return
    n = sum(1 for l in open(out) if '"Make"' in l)
    if n < 5:
        rep.note(f"repository tests produced only {n} recordable BeartypeConf constructions")
        return
    res = tlc.run_tlc("trace/ConfTrace.tla", "trace/ConfTrace.cfg", workers=1, env={"TRACE_FILE": out})
    rep.tlc(res, "ConfTrace on the repository's own configuration tests")
    rep.add("repo_test_conf_constructions_validated", n)
    if res.violated:
        rej = [r for r in res.printed if isinstance(r, dict) and "rejected_at" in r]
        pos = rej[-1]["rejected_at"] if rej else None
        lines = open(out).read().splitlines()
        bad = json.loads(lines[pos - 1]) if pos and pos <= len(lines) else {}
        kw = {o: [x["ty"], x["v"]] for o, x in bad.get("kw", {}).items() if (x["ty"], x["v"]) != default_of(o)}
        rep.violation({"kind": "repo-test-trace", "call": kw, "got": bad.get("out")},
                      f"a BeartypeConf construction performed by the repository's own tests is not a behaviour of "
                      f"Conf.tla: event {pos} BeartypeConf({_fmt(kw)}) -> {bad.get('out')}", {"event": bad})
    else:
        rep.add("traces_validated_against_impl", 1)


def _env_var(rep):
    """documented adjustment: ${BEARTYPE_IS_COLOR} overrides is_color."""
    import subprocess
    code = ("import warnings; warnings.simplefilter('ignore');from beartype import BeartypeConf;"
            "print(BeartypeConf().is_color, BeartypeConf(is_color=False).is_color, "
            "BeartypeConf(is_color=False) is BeartypeConf(is_color=True))")
    for val, want in (("True", "True True True"), ("False", "False False True"), ("None", "None None True")):
        cp = subprocess.run([sys.executable, "-c", code], capture_output=True, text=True,
                            env={**os.environ, "BEARTYPE_IS_COLOR": val})
        rep.count()
        if cp.stdout.strip() != want:
            rep.violation({"kind": "envvar", "value": val},
                          f"BEARTYPE_IS_COLOR={val}: got {cp.stdout.strip()!r} {cp.stderr[-200:]!r}, want {want!r}")


def run(rep, tier, seed):
    rep.assumptions += [
        "abstract option values of Conf.tla are related to real values by the catalogue in drivers/c17.py",
        "equality of configurations is read as equality of effective (defaulted, sanified) options",
        "BEARTYPE_IS_COLOR unset except in the dedicated environment-variable runs",
    ]
    import beartype  # noqa: F401  (imported, unused: children fork from here)
    global POOL, SAMPLE, RSEED
    # thorough: every covering path of every group up to 1500 paths per group (the three-option group
    # violation_type x violation_param_type x violation_return_type has > 100 000 edges: sampled)
    SAMPLE, RSEED = (160 if tier == "quick" else 1500), seed
    with scratch("c17-") as d, ForkPool(16) as POOL:
        _mutant(rep, d)
        groups = [(["is_debug"], 3), (["is_color", "is_random"], 2), (["violation_type", "violation_door_type"], 2),
                  (["is_pep484_tower", "hint_overrides"], 2), (["claw_skip_package_names", "strategy"], 2)]
        if tier == "thorough":
            groups += [([o], 3) for o in OPTS if o != "is_debug"]
            groups += [(["violation_type", "violation_param_type", "violation_return_type"], 2),
                       (["is_pep484_tower", "hint_overrides", "is_debug"], 2),
                       (["warning_cls_on_decorator_exception", "claw_is_pep526"], 3)]
        else:
            groups += [([o], 2) for o in OPTS if o != "is_debug"]
        for i, (vary, mc) in enumerate(groups):
            _model_group(rep, d, vary, mc, f"g{i}")
        if tier == "thorough":
            # design-level only (no replay): three interacting options, three calls
            _model_group(rep, d, ["is_debug", "is_color"], 3, "deep", replay_edges=False)
        _trace_validate(rep, d, seed, 200 if tier == "quick" else 3000, 12 if tier == "quick" else 20)
        _env_var(rep)
        _repo_tests_trace(rep, d)
    rep.cov["exhaustive"] = tier == "thorough" and not rep.cov.get("groups_sampled")


def replay(rep, path):
    case = json.load(open(path))["case"]
    import beartype  # noqa
    hist = [{"kw": kw} for kw in case["history"]]
    obs = fork_map(_run_history, [hist])[0]
    for kw, o in zip(case["history"], obs):
        print(_fmt(kw), "->", o)
    rep.level = "exploration"
    rep.count(2)
    rep.nontrivial("a")
    rep.nontrivial("b")
