"""C18 — hint-rewriting options behave exactly like rewriting the hints by hand.

TLC (MC_Semantics) computes, per hint and configuration variant (is_pep484_tower,
hint_overrides={A: B}), the rewritten hint Pub(h, conf) and its Sat / MustReject vectors;
the driver checks on the real code that the verdict under the configuration equals, object
by object and draw by draw, the verdict of the hand-rewritten hint under the default
configuration, that it respects the rewritten meaning, and that the violation_type family of
options never changes a verdict.  Conflicting tower / override combinations must raise
BeartypeConfParamException (checked by C17's model).
"""
from __future__ import annotations

from verifkit.drivers.c01 import replay, report  # noqa: F401

LEVEL = "model_checking"


def run(rep, tier, seed):
    from verifkit.bind import semreplay
    rep.assumptions += [
        "hint_overrides is exercised with the override {A: B} (B a subclass of A) and the numeric tower; hints "
        "containing float / complex / A at every position of the bounded grammar",
        "in the model Chk(h, conf) is defined as ChkR(Rewrite(h, conf)): the design-level statement is definitional; "
        "the property is decided by the metamorphic replay on the implementation",
    ]
    semreplay.run_mutants(rep, "quick", ("map_value_vs_key",))
    rows = semreplay.build_rows(rep, tier)
    opts = {"props": {"C18"}, "entry_points": True, "spellings": 1, "seed": seed, "reject_cap": 6,
            "viol_confs": 8 if tier == "quick" else 3, "only_confs": None}
    opts["signal_table"] = semreplay.signal_table(rep)
    tot = semreplay.replay(rep, rows, opts)
    report(rep, tot, "C18")
    rep.cov["exhaustive"] = True
