"""C10 — checking never modifies or consumes the object being checked.

Shares the machinery of C09 (drivers/c09.py): recording containers, one-shot iterators,
generator-protocol objects, defaultdicts with a trapping factory and user-defined containers
are checked by is_bearable / die_if_unbearable / a decorated call; every event is validated by
trace/AccessTrace.tla, in which mutators, the defaultdict factory, next/send/throw/close on the
subject and iter() of a non-collection are simply not steps of the specification; a snapshot of
the subject (contents by identity, iterator position) before and after must be equal, and the
decorated callee must receive the identical object.  At design level TLC checks
C10_NoForbiddenOp on MC_Semantics (nothing at all is done to iterables that are not collections)
and rejects the mutant that samples them.
"""
from __future__ import annotations

from verifkit.drivers import c09
from verifkit.drivers.c09 import replay  # noqa: F401

LEVEL = "model_checking"


def run(rep, tier, seed):
    c09.run(rep, tier, seed, mode="C10")
