"""C03 — all entry points agree; every rejection is the configured, explained violation.

Rows of MC_Semantics (TLC) give the (hint, configuration, object, draw) cases; for each one
the six real entry points (is_bearable, die_if_unbearable, TypeHint.is_bearable /
.die_if_unbearable, decorated parameter and return check) must reach the same verdict for
the same draw; a rejection must surface as exactly the configured class (defaults, a custom
exception, a Warning class => one warning and the call proceeds, per-kind overrides), name
the hint, start its culprits with the rejected object, and never be a desynchronisation or
other non-violation exception.  Signal selection is modelled in Signal.tla.

The explanation path itself (beartype/_check/error) is transcribed a second time in Cause.tla;
TLC decides on MC_Cause that every rejection of the generated check is explained (no "no cause",
no failure of the finder) for every hint kind, with containers that hold non-collection iterables
beside the violating item; the rows are replayed and the path named by the real message is
compared with the model's.
"""
from __future__ import annotations

from verifkit.drivers.c01 import replay, report  # noqa: F401

LEVEL = "model_checking"


def run(rep, tier, seed):
    from verifkit.bind import semreplay
    rep.assumptions += [
        "cases (hint, configuration, object, draw residue) come from the MC_Semantics case table; agreement is "
        "relational between the real entry points, the expected signal class follows the option lattice",
        "culprits[0] may be repr(obj) for objects that cannot be weakly referenced (documented)",
    ]
    semreplay.run_mutants(rep, "quick", ("map_value_vs_key",))
    rows = semreplay.build_rows(rep, tier)
    opts = {"props": {"C03"}, "entry_points": True, "spellings": 2 if tier == "quick" else 3, "seed": seed,
            "reject_cap": 16 if tier == "quick" else 48, "viol_confs": 6 if tier == "quick" else 2}
    opts["signal_table"] = semreplay.signal_table(rep)
    tot = semreplay.replay(rep, rows, opts)
    report(rep, tot, "C03")
    # the explanation path: Cause.tla / MC_Cause.tla (hostile neighbours, every hint kind), TLC decides
    # Cause_Explains, the rows carry the path that the real message must name
    # (the L = 2 instance in both tiers: the thorough tier replays more of its rejections, see reject_cap)
    crows = semreplay.build_cause_rows(rep, "quick")
    tot2 = semreplay.replay(rep, crows, {**opts, "spellings": 1, "reject_cap": 64 if tier == "quick" else 200,
                                         "viol_confs": 0})
    report(rep, tot2, "C03")
    rep.add("explanation_paths_compared", tot2.get("cause_n", 0))
    rep.add("explanation_paths_equal_to_model", tot2.get("cause_ok", 0))
    if tot2.get("cause_drift"):
        rep.cov["explanation_path_drift"] = tot2["cause_drift"]
        rep.note(f"SPEC-DRIFT: {tot2['cause_drift']} of {tot2.get('cause_n', 0)} explained rejections name another path "
                 f"than Cause.tla (message wording is not part of the property): {tot2['drift_ex'][:3]}")
    rep.cov["exhaustive"] = False
