"""C03 — all entry points agree; every rejection is the configured, explained violation.

Rows of MC_Semantics (TLC) give the (hint, configuration, object, draw) cases; for each one
the six real entry points (is_bearable, die_if_unbearable, TypeHint.is_bearable /
.die_if_unbearable, decorated parameter and return check) must reach the same verdict for
the same draw; a rejection must surface as exactly the configured class (defaults, a custom
exception, a Warning class => one warning and the call proceeds, per-kind overrides), name
the hint, start its culprits with the rejected object, and never be a desynchronisation or
other non-violation exception.  Signal selection is modelled in Signal.tla.
"""
from __future__ import annotations

from verifkit.drivers.c01 import replay, report  # noqa: F401

LEVEL = "model_checking"


def run(rep, tier, seed):
    from verifkit.bind import semreplay
    rep.assumptions += [
        "cases (hint, configuration, object, draw residue) come from the MC_Semantics case table; agreement is "
        "relational between the real entry points, the expected signal class follows the option lattice",
        "culprits[0] may be repr(obj) for objects that cannot be weakly referenced (documented)",
    ]
    semreplay.run_mutants(rep, "quick", ("map_value_vs_key",))
    rows = semreplay.build_rows(rep, tier)
    opts = {"props": {"C03"}, "entry_points": True, "spellings": 2 if tier == "quick" else 3, "seed": seed,
            "reject_cap": 16 if tier == "quick" else 48, "viol_confs": 6 if tier == "quick" else 2}
    opts["signal_table"] = semreplay.signal_table(rep)
    tot = semreplay.replay(rep, rows, opts)
    report(rep, tot, "C03")
    rep.cov["exhaustive"] = False
