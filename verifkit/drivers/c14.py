"""C14 — answers do not depend on what was asked before (memoisation is invisible).

R1  TLC checks spec/Door.tla: the *intended* keying disciplines (Legacy = {}) satisfy
    ReturnFresh / NoStickyFailure / HitIsFirstTime on every slice of the universe; the 0.23.0
    disciplines ("repr_dedup", "id_unvalidated", "registry_wiped") and four further wrong designs are run as spec
    mutants and must be rejected (non-vacuity).  The counter-examples of the faithful model are the
    first replay targets.
R2  every edge of the dumped state graphs of the *faithful* model (a superset of the intended
    behaviours: it also contains every address-reuse choice) and `-simulate` behaviours of the whole
    universe are rendered as histories of public-API operations and executed in a forked interpreter
    that has only imported beartype.  Every answer is compared with
      (i)  Fresh(q) as computed by TLC (field last.fresh of the target state), and
      (ii) the same query in a FRESH INTERPRETER (a subprocess) that builds only the objects the
           query needs (class definitions / redefinitions, the decorated callable) -- the oracle the
           property names.
    answer != (ii) is a violation; (i) != (ii) means the model's semantics of the hint is wrong
    (drift, reported, not a violation).  Address reuse cannot be forced: histories whose model path
    takes a stale id-keyed hit are run with increasing provocation (many same-size wrappers freed at
    once), reuse is DETECTED by comparing id()s of the operands of TypeHint.is_subhint/__eq__, and a
    history whose reuse never happened is counted as not exercised, never as passed.
"""
from __future__ import annotations

import hashlib
import json
import os
import random
import re
import subprocess
import sys
import time
from concurrent.futures import ThreadPoolExecutor

LEVEL = "model_checking"

# ====================================================================== catalogue
# descriptor name -> (shape, class name, spelling); mirrors HD in Door.tla (the driver only needs the
# shape to pick a concrete expression; every expected value comes from TLC)
DESC = {
    "cA": ("cls", "A", 0), "cB": ("cls", "B", 0), "cD": ("cls", "D", 0),
    "lA": ("list", "A", 0), "lB": ("list", "B", 0), "lD": ("list", "D", 0),
    "uA0": ("uni", "A", 0), "uA1": ("uni", "A", 1),
    "aA": ("ann", "A", 0), "aB": ("ann", "B", 0),
    "rA": ("ref", "A", 0), "rU": ("ref", "U", 0),
    "ob": ("obj", "-", 0), "fl": ("flt", "-", 0), "b1": ("bad", "-", 0), "bT": ("bad", "-", 1),
    "eA0": ("eqv", "A", 0), "eA1": ("eqv", "A", 1), "L1": ("lit", "1", 0), "LT": ("lit", "T", 0),
    # an uncacheable child (forward reference) among cacheable siblings; xF2: the same hint asked from a second module
    "xF": ("mxF", "A", 0), "xF2": ("mxF", "A", 1), "xL": ("mxL", "A", 0), "xM": ("mxM", "A", 0),
    "xD": ("mxD", "A", 0), "xN": ("mxN", "A", 0),
    # type['W']: class-valued subjects, issubclass() against the forward-reference proxy; 'W' for contrast
    "tW": ("tref", "W", 0), "rW": ("ref", "W", 0),
}
DECORATED = ("D", "W")        # classes that are themselves @beartype-decorated (mirrors Decorated in Door.tla)
# mixed hints: (hint expression, the probe container around an instance I)
MIX = {"mxF": ("tuple['A', int]", "(%s, 1)"), "mxL": ("tuple[int, 'A']", "(1, %s)"), "mxM": ("tuple[int, 'A', int]", "(1, %s, 1)"),
       "mxD": ("dict['A', int]", "{%s: 1}"), "mxN": ("tuple['A', list[int]]", "(%s, [1])")}


def asked_from_b(d):
    """forward-reference descriptors with spelling 1 are asked from the second module (whose `A` is the model's E)."""
    return d is not None and (DESC[d][0] in MIX or DESC[d][0] == "ref") and DESC[d][2] == 1
# probe names per scope: mirrors ProbeNames in Door.tla
PROBE_NAMES = {"repr": ["A"], "reprT": ["A"], "misc": ["A"], "conf": [], "reprD": ["D"], "fail": ["A", "U"],
               "mix": ["A", "E"], "mixB": ["A"], "tref": ["W"], "all": ["A", "D", "U", "E"], "id": [], "idT": [], "idC": []}

# themes: what "a name bound to an object, later rebound to a distinct object with the same repr" is
# made of.  `kind` words enter the violation keys.
THEMES = {
    # theme: (noun, definitions per generation, probe expression for an instance of generation g)
    "class": "class", "newtype": "NewType", "enum": "Enum", "validator": "validator",
}
# container variants of the "list" shape (hint expression around X, probe expression around an instance I)
CONTAINERS = {
    "list": ("list[%s]", "[%s]"),
    "tuple": ("tuple[%s, ...]", "(%s,)"),
    "dict": ("dict[str, %s]", "{'k': %s}"),
    "set": ("frozenset[%s]", "frozenset({%s})"),
}

PRELUDE = """
import enum
from typing import Annotated, Literal, NewType, Optional, Union
from beartype import beartype, BeartypeConf
from beartype.door import TypeHint, die_if_unbearable, is_bearable, is_subhint
from beartype.vale import Is
def _mk_validator(k):
    return Annotated[str, Is[lambda x: len(x) % 2 == k]]
class Base0: pass
class Base1: pass
CONF = {'c0': BeartypeConf(), 'c1': BeartypeConf(is_pep484_tower=True)}
# the door resolves a stringified hint against the module of its caller: the calls are made from this module
def _bear(obj, hint, conf):
    return is_bearable(obj, hint, conf=conf)
def _die(obj, hint, conf):
    return die_if_unbearable(obj, hint, conf=conf)
def _sub(a, b):
    return is_subhint(a, b)
@beartype
class K9Clear: pass
"""


def class_def(theme, n, g):
    """source text binding name n to its generation-g object."""
    if n in DECORATED:
        return f"@beartype\nclass {n}: pass"
    if theme == "class" or n != "A":
        return f"class {n}: pass"
    if theme == "newtype":
        return f"{n} = NewType('{n}', Base{g})"
    if theme == "enum":
        return f"class {n}(enum.Enum):\n    X = 1"
    if theme == "validator":
        return f"{n} = _mk_validator({g})"
    raise KeyError(theme)


def inst_expr(theme, n, g):
    """expression of a fresh object satisfying exactly generation g of name n (alias N__g holds the class)."""
    if theme == "class" or n != "A":
        return f"{n}__{g}()"
    if theme == "newtype":
        return f"Base{g}()"
    if theme == "enum":
        return f"{n}__{g}.X"
    if theme == "validator":
        return "'ab'" if g == 0 else "'abc'"
    raise KeyError(theme)


def hint_expr(d, theme="class", container="list"):
    sh, n, sp = DESC[d]
    base = n
    if theme == "enum" and n == "A":
        base = f"Literal[{n}.X]"
    if sh in MIX:
        return MIX[sh][0]
    if sh == "tref":
        return f"type[{n!r}]"
    if sh == "cls":
        return base
    if sh == "list":
        return CONTAINERS[container][0] % base
    if sh == "uni":
        return f"{base} | None" if sp == 0 else f"None | {base}"
    if sh == "ann":
        return f"Annotated[{base}, []]"
    if sh == "eqv":
        return f"Annotated[{base}, {'1' if sp == 0 else 'True'}]"
    if sh == "ref":
        return repr(n)
    if sh == "obj":
        return "object"
    if sh == "flt":
        return "float"
    if sh == "bad":
        return "1" if sp == 0 else "True"
    if sh == "lit":
        return "Literal[1]" if n == "1" else "Literal[True]"
    raise KeyError(d)


# ====================================================================== child side: one history in one interpreter
class _Spy:
    """Observes the operands of the two id-keyed methods.  A call whose (id(self), id(other)) was seen
    before with DIFFERENT objects is an address reuse: detected by comparing id()s, nothing else."""

    def __init__(self):
        import weakref
        from beartype.door import TypeHint
        self.weakref = weakref
        self.uid = {}          # id(obj) -> (uid, weakref|None, hashable, repr)
        self.n = 0
        self.seen = {}         # (kind, id1, id2) -> (uid1, uid2, op index)
        self.events = []
        self.opidx = 0
        self.calls = 0
        orig_sub = TypeHint.__dict__["is_subhint"]
        orig_eq = TypeHint.__dict__["__eq__"]
        spy = self

        def is_subhint(self, other):
            spy.note("is_subhint", self, other)
            return orig_sub(self, other)

        def __eq__(self, other):
            spy.note("__eq__", self, other)
            return orig_eq(self, other)

        TypeHint.is_subhint = is_subhint
        TypeHint.__eq__ = __eq__

    def _uid(self, o):
        i = id(o)
        ent = self.uid.get(i)
        if ent is not None and (ent[1] is None or ent[1]() is o):
            return ent
        self.n += 1
        hint = getattr(o, "_hint", None)
        try:
            hash(hint)
            hashable = True
        except TypeError:
            hashable = False
        try:
            ref = self.weakref.ref(o)
        except TypeError:
            ref = None
        ent = (self.n, ref, hashable, repr(hint)[:60])
        self.uid[i] = ent
        return ent

    def note(self, kind, a, b):
        self.calls += 1
        ea, eb = self._uid(a), self._uid(b)
        key = (kind, id(a), id(b))
        prev = self.seen.get(key)
        if prev is not None and (prev[0], prev[1]) != (ea[0], eb[0]):
            self.events.append({"table": kind, "op": self.opidx, "made_at": prev[2], "old": prev[3],
                                "new": [ea[3], eb[3]], "old_hashable": prev[4]})
        self.seen[key] = (ea[0], eb[0], self.opidx, [ea[3], eb[3]], ea[2] and eb[2])

    def take(self):
        ev, self.events = self.events, []
        return ev

    def dead_keyed_ids(self):
        """addresses that occur in a recorded key and whose object is gone."""
        out = set()
        for (_kind, i1, i2) in self.seen:
            for i in (i1, i2):
                ent = self.uid.get(i)
                if ent is not None and ent[1] is not None and ent[1]() is None:
                    out.add(i)
        return out


def _category(ex):
    from beartype import roar
    for name, cat in (("BeartypeCallHintForwardRefException", "fwdref"), ("BeartypeDecorHintNonpepException", "nonpep"),
                      ("BeartypeDoorNonpepException", "doornonpep")):
        cls = getattr(roar, name, None)
        if cls is not None and isinstance(ex, cls):
            return cat
    return type(ex).__name__


class _World:
    def __init__(self, theme, container, probe_names, spy=True, name="c14world"):
        import types
        import warnings
        warnings.simplefilter("ignore")
        self.theme, self.container, self.probe_names = theme, container, probe_names
        self.mod = types.ModuleType(name)
        sys.modules[name] = self.mod
        self.g = self.mod.__dict__
        self.spy = None
        exec(compile(PRELUDE, "<c14 prelude>", "exec", dont_inherit=True), self.g)
        if spy is True:
            self.spy = _Spy()
        elif spy:
            self.spy = spy
        self.gen = {"A": -1, "B": -1, "U": -1, "D": -1, "E": 0, "W": -1}
        for n in ("A", "B", "D"):
            self.define(n)
        # a second module binding the name "A" to a class of its own (the model's E); questions "asked from module b"
        # are put by functions defined there, so that 'A' resolves against it
        self.modb = types.ModuleType(name + "_b")
        sys.modules[name + "_b"] = self.modb
        self.gb = self.modb.__dict__
        exec(compile(PRELUDE + "\nclass A: pass\n", "<c14 prelude b>", "exec", dont_inherit=True), self.gb)
        self.g["E__0"] = self.gb["A"]
        self.funcs = []
        self.junk_kind = "plain"
        self.used = []          # hashable hint expressions used in id-keyed queries (amplifier material)
        self.nfill = 0

    def run(self, src):
        exec(compile(src, "<c14 history>", "exec", dont_inherit=True), self.g)

    def ev(self, expr):
        return eval(compile(expr, "<c14 history>", "eval", dont_inherit=True), self.g)

    def define(self, n):
        g = self.gen[n] + 1
        self.run(class_def(self.theme, n, g))
        self.g[f"{n}__{g}"] = self.g[n]
        self.gen[n] = g

    def hint(self, d):
        return self.ev(hint_expr(d, self.theme, self.container))

    def probes(self, d=None):
        out = []
        for n in self.probe_names:
            for g in range(self.gen[n] + 1):
                i = inst_expr(self.theme, n, g)
                out.append((f"bare:{n}:{g}", i))
                out.append((f"list:{n}:{g}", CONTAINERS[self.container][1] % i))
                if d is not None and DESC[d][0] in MIX:
                    out.append((f"mix:{n}:{g}", MIX[DESC[d][0]][1] % i))
                if d is not None and DESC[d][0] == "tref":
                    out.append((f"type:{n}:{g}", f"{n}__{g}"))         # the class object itself
        out += [("none", "None"), ("int", "1"), ("true", "True"), ("float", "1.5")]
        return [(pid, self.ev(e)) for pid, e in out]

    # ---- queries: each returns {probe id | "_": outcome}
    def vector(self, fn, viol, d=None):
        from beartype import roar
        res = {}
        for pid, obj in self.probes(d):
            try:
                r = fn(obj)
                res[pid] = "F" if r is False else "T"
            except Exception as ex:  # noqa
                res[pid] = "F" if isinstance(ex, getattr(roar, viol)) else _category(ex)
        return res

    def scalar(self, fn):
        try:
            r = fn()
            return {"_": "T" if r is True else "F" if r is False else "ok" if r is None else repr(r)[:40]}
        except Exception as ex:  # noqa
            return {"_": _category(ex)}

    def note_used(self, *ds):
        for d in ds:
            if DESC[d][0] in ("cls", "obj", "list"):
                e = hint_expr(d, self.theme, self.container)
                if e not in self.used:
                    self.used.append(e)

    def amplify_pairs(self, k):
        """before a clear: make the id-keyed tables dense over the wrappers that are about to be freed."""
        g = self.g
        while self.nfill < k:
            base = f"Fill{self.nfill - 1}" if self.nfill else "object"
            self.run(f"class Fill{self.nfill}({base}): pass")
            self.nfill += 1
        exprs = list(self.used) + [f"Fill{i}" for i in range(k)]
        hints = [self.ev(e) for e in exprs]
        sub = g["is_subhint"]
        for x in hints:
            for y in hints:
                try:
                    sub(x, y)
                except Exception:  # noqa
                    pass

    def amplify_transient(self, a_expr, b_expr, k):
        """after is_subhint(<unhashable>, b): k more wrappers of the same hint, compared, then freed at once."""
        TypeHint = self.g["TypeHint"]
        try:
            wb = TypeHint(self.ev(b_expr))
            ws = [TypeHint(self.ev(a_expr)) for _ in range(k)]
            for w in ws:
                w.is_subhint(wb)
        except Exception:  # noqa
            pass

    def provoke(self, op, nxt, amp):
        """extra public-API operations between two steps of the history that make address reuse likely:
        after is_subhint(<unhashable>, b) many more wrappers of the same hint are compared and freed at once;
        before a clear the id-keyed tables are made dense over the wrappers that are about to be freed."""
        import gc
        if not amp:
            return
        if op["op"] == "subhint" and DESC[op["a"]][0] == "ann":
            self.amplify_transient(hint_expr(op["a"], self.theme, self.container),
                                   hint_expr(op["b"], self.theme, self.container), amp)
            gc.collect()
        if nxt is not None and (nxt["op"] == "clear" or (nxt["op"] == "redefine" and nxt["n"] in DECORATED)):
            self.amplify_pairs(max(4, amp // 4))

    def steer(self, n, budget=20000):
        """allocate same-size objects until n of them sit on addresses of dead, keyed wrappers, then free exactly
        those: CPython hands the most recently freed blocks to the next allocations of that size.  Nothing is
        forced -- whether the reuse happened is decided afterwards from the id()s the spy saw."""
        import gc
        targets = self.spy.dead_keyed_ids() if self.spy else set()
        self.junk = []
        if not targets:
            return
        # which same-size objects: a plain class, or the type of a wrapper itself (then also the inline attribute
        # values are allocated the way a wrapper's are); which one works depends on what the query allocates first
        kind = self.junk_kind
        cls = self.g.get("_C14Junk_" + kind)
        if cls is None:
            if kind == "plain":
                cls = type("_C14Junk", (), {})
            elif kind == "cls":
                cls = type(self.g["TypeHint"](int))
            else:
                cls = type(self.g["TypeHint"](self.ev("Annotated[int, []]")))
            self.g["_C14Junk_" + kind] = cls
        found = []
        gc.disable()
        try:
            for _ in range(budget):
                o = object.__new__(cls)
                if id(o) in targets:
                    found.append(o)
                    if len(found) >= n:
                        break
                else:
                    self.junk.append(o)
            del o
            while found:
                found.pop()
        finally:
            gc.enable()

    def do(self, op, amp=0):
        import gc
        g = self.g
        k = op["op"]
        if k == "redefine":
            self.define(op["n"])
            return None
        if k == "clear":
            # a decorated class is redefined -> clear_caches().  Twice: clear_caches() also forgets which OTHER decorated
            # classes exist, so after an earlier clear the first execution may only re-register the name
            self.run("@beartype\nclass K9Clear: pass")
            self.run("@beartype\nclass K9Clear: pass")
            gc.collect()
            return None
        if k in ("bearable", "die"):
            h = self.hint(op["d"])
            conf = g["CONF"][op["conf"]]
            ga = self.gb if asked_from_b(op["d"]) else g
            if k == "bearable":
                return self.vector(lambda o: ga["_bear"](o, h, conf), "BeartypeDoorHintViolation", op["d"])
            return self.vector(lambda o: ga["_die"](o, h, conf), "BeartypeDoorHintViolation", op["d"])
        if k == "decorate":
            name = f"f{len(self.funcs) + 1}"
            src = (f"@beartype(conf=CONF[{op['conf']!r}])\ndef {name}(x: {hint_expr(op['d'], self.theme, self.container)}):\n"
                   f"    return None")
            ga = self.gb if asked_from_b(op["d"]) else g
            r = self.scalar(lambda: exec(compile(src, "<c14 history>", "exec", dont_inherit=True), ga))
            if r["_"] == "ok":
                self.funcs.append((ga[name], op["d"]))
            return r
        if k == "call":
            f, fd = self.funcs[op["i"] - 1]
            return self.vector(f, "BeartypeCallHintParamViolation", fd)
        if k == "subhint":
            self.note_used(op["a"], op["b"])
            ea, eb = (hint_expr(op[x], self.theme, self.container) for x in "ab")
            try:
                ha, hb = self.ev(ea), self.ev(eb)
            except Exception as ex:  # noqa
                return {"_": _category(ex)}
            if amp:
                self.steer(3)
            return self.scalar(lambda: g["_sub"](ha, hb))
        if k == "theq":
            self.note_used(op["a"], op["b"])
            TypeHint = g["TypeHint"]
            ha, hb = self.hint(op["a"]), self.hint(op["b"])
            if amp:
                self.steer(2)
            return self.scalar(lambda: TypeHint(ha) == TypeHint(hb))
        if k == "hold":
            g["held"] = g["TypeHint"](self.hint(op["d"]))
            return None
        if k == "drop":
            del g["held"]
            gc.collect()
            return None
        if k == "leheld":
            self.note_used(op["b"])
            TypeHint = g["TypeHint"]
            hb = self.hint(op["b"])
            if amp:
                self.steer(2)
            return self.scalar(lambda: g["held"] <= TypeHint(hb))
        raise KeyError(k)


def run_batch(jobs):
    """several histories one after the other in ONE interpreter, each in a module of its own (so their classes have
    distinct reprs): the concatenation is itself a history of public-API operations, and every answer in it must
    still equal the fresh interpreter's.  Used to screen; whatever deviates or needs address reuse is re-run alone."""
    spy = _Spy()
    return [run_history(j, spy=spy, name=f"c14world{i}") for i, j in enumerate(jobs)]


def run_history(job, spy=None, name="c14world"):
    """job = {ops, theme, container, probes, amp}; returns [{ans, reuse}] per op."""
    w = _World(job.get("theme", "class"), job.get("container", "list"), job["probes"],
               spy=spy if spy is not None else job.get("spy", True), name=name)
    w.junk_kind = job.get("junk", "plain")
    out = []
    ops = job["ops"]
    earlier = []
    for i, op in enumerate(ops):
        if w.spy:
            w.spy.opidx = i
        ans = w.do(op, job.get("amp", 0))
        w.junk = []
        ev = w.spy.take() if w.spy else []
        # "earlier": the last reuse seen before this step (also among the provoking operations): an answer can be
        # wrong because an EARLIER stale hit was stored under the current objects' own key
        out.append({"ans": ans, "reuse": ev, "earlier": earlier[-1:]})
        earlier += ev
        w.provoke(op, ops[i + 1] if i + 1 < len(ops) else None, job.get("amp", 0))
        if w.spy:
            earlier += w.spy.take()     # reuse among the provoking operations is not attributed to a step
    return out


def render(job):
    """human-readable Python rendering of a history (goes into replay files and reports)."""
    theme, cont = job.get("theme", "class"), job.get("container", "list")
    lines = ["from beartype import beartype, BeartypeConf", "from beartype.door import *",
             class_def(theme, "A", 0), "class B: pass", "@beartype\nclass D: pass"]
    gen = {"A": 0, "B": 0, "D": 0, "U": -1, "W": -1}
    nf = 0
    for op in job["ops"]:
        k = op["op"]
        if k == "redefine":
            gen[op["n"]] += 1
            lines.append(class_def(theme, op["n"], gen[op["n"]]) + f"        # generation {gen[op['n']]}")
        elif k == "clear":
            lines.append("clear_caches()        # by re-executing '@beartype class K9Clear: pass'")
        elif k in ("bearable", "die"):
            fn = "is_bearable" if k == "bearable" else "die_if_unbearable"
            lines.append(f"[{fn}(p, {hint_expr(op['d'], theme, cont)}, conf={op['conf']}) for p in PROBES]"
                         + ("        # asked from module b, which has its own class A" if asked_from_b(op["d"]) else ""))
        elif k == "decorate":
            nf += 1
            lines.append(f"@beartype(conf={op['conf']})\ndef f{nf}(x: {hint_expr(op['d'], theme, cont)}): ..."
                         + ("        # defined in module b, which has its own class A" if asked_from_b(op["d"]) else ""))
        elif k == "call":
            lines.append(f"[f{op['i']}(p) for p in PROBES]")
        elif k == "subhint":
            lines.append(f"is_subhint({hint_expr(op['a'], theme, cont)}, {hint_expr(op['b'], theme, cont)})")
        elif k == "theq":
            lines.append(f"TypeHint({hint_expr(op['a'], theme, cont)}) == TypeHint({hint_expr(op['b'], theme, cont)})")
        elif k == "hold":
            lines.append(f"held = TypeHint({hint_expr(op['d'], theme, cont)})")
        elif k == "drop":
            lines.append("del held")
        elif k == "leheld":
            lines.append(f"held <= TypeHint({hint_expr(op['b'], theme, cont)})")
    return "\n".join(lines)


# ====================================================================== fresh-interpreter oracle
def fresh_ops(ops, k):
    """the objects query k needs: every (re)definition before it, its own callable / held wrapper."""
    q = ops[k]
    keep = []
    need_func = q["i"] if q["op"] == "call" else None
    nfun = 0
    hold_at = None
    if q["op"] == "leheld":
        hold_at = max(i for i in range(k) if ops[i]["op"] == "hold")
    for i in range(k):
        o = ops[i]
        if o["op"] == "redefine":
            keep.append(o)
        elif o["op"] == "decorate":
            # decorations that raised created no callable: the model's numbering counts successes only
            if DESC[o["d"]][0] != "bad":
                nfun += 1
                if nfun == need_func:
                    keep.append(o)
        elif i == hold_at:
            keep.append(o)
    q2 = dict(q)
    if q["op"] == "call":
        q2["i"] = 1
    return keep + [q2]


def _fresh_main():
    job = json.loads(sys.stdin.read())
    job["spy"] = False
    res = run_history(job)
    sys.stdout.write("C14FRESH " + json.dumps(res[-1]["ans"], sort_keys=True) + "\n")


class FreshOracle:
    def __init__(self, rep):
        self.rep = rep
        self.cache = {}

    @staticmethod
    def key(job):
        return json.dumps([job["ops"], job.get("theme", "class"), job.get("container", "list"), job["probes"]], sort_keys=True)

    def _one(self, key):
        ops, theme, cont, probes = json.loads(key)
        env = dict(os.environ)
        cp = subprocess.run([sys.executable, "-W", "ignore", "-m", "verifkit.drivers.c14", "--fresh"],
                            input=json.dumps({"ops": ops, "theme": theme, "container": cont, "probes": probes}),
                            capture_output=True, text=True, env=env, timeout=600)
        m = re.search(r"^C14FRESH (.*)$", cp.stdout, re.M)
        if not m:
            return {"_error": (cp.stderr or cp.stdout)[-400:]}
        return json.loads(m.group(1))

    def resolve(self, jobs):
        keys = sorted({self.key(j) for j in jobs} - set(self.cache))
        if keys:
            with ThreadPoolExecutor(16) as ex:
                for k, r in zip(keys, ex.map(self._one, keys)):
                    if r is not None and "_error" in r:
                        self.rep.machinery(f"fresh-interpreter oracle failed: {r['_error']}")
                    self.cache[k] = r
            self.rep.add("fresh_interpreters", len(keys))

    def get(self, job):
        return self.cache[self.key(job)]


# ====================================================================== spec side
CFG = """SPECIFICATION Spec
CONSTANTS
  Legacy = %s
  Scope = "%s"
  MaxOps = %d
%s
CHECK_DEADLOCK FALSE
"""
PROPS = ["ReturnFresh", "NoStickyFailure", "HitIsFirstTime", "NoStaleIdHit", "NoForeignDedup", "TypeOK"]
FAITHFUL = ["repr_dedup", "id_unvalidated", "registry_wiped"]


def _cfg(d, legacy, scope, maxops, invs):
    from verifkit.util import write_file
    tag = hashlib.sha1(json.dumps([legacy, scope, maxops, invs]).encode()).hexdigest()[:10]
    return write_file(d, f"door_{scope}_{tag}.cfg",
                      CFG % ("{" + ", ".join('"%s"' % x for x in legacy) + "}", scope, maxops,
                             "\n".join("INVARIANT " + i for i in invs)))


CACHE = os.path.join(os.path.dirname(os.path.dirname(os.path.dirname(os.path.abspath(__file__)))), ".scratch", "c14")


def _tlc(args):
    """one TLC run.  What TLC computes from Door.tla and a configuration does not depend on the implementation, so
    results (and dumped graphs) are kept under /verif/.scratch keyed by the hash of specification + configuration +
    options, like the Semantics rows; they are rebuilt whenever absent or when the specification changes."""
    import pickle
    import shutil
    from verifkit import tlc
    d, legacy, scope, maxops, invs, kw = args
    cfg = _cfg(d, legacy, scope, maxops, invs)
    spec = open(os.path.join(tlc.SPEC_DIR, "Door.tla")).read()
    kw = dict(kw)
    dump = kw.pop("dump_dot", None)
    key = hashlib.sha1(json.dumps([spec, open(cfg).read(), sorted(kw.items()), bool(dump), "v1"]).encode()).hexdigest()[:20]
    cdir = os.path.join(CACHE, key)
    pk = os.path.join(cdir, "result.pkl")
    if os.environ.get("VERIF_C14_NOCACHE") != "1" and os.path.exists(pk):
        try:
            res = pickle.load(open(pk, "rb"))
            if dump:
                shutil.copyfile(os.path.join(cdir, "graph.dot"), dump + ".dot")
            res.cmd = "(cached) " + res.cmd
            return res
        except Exception:  # noqa  (a damaged cache entry is simply rebuilt)
            pass
    res = tlc.run_tlc("Door.tla", cfg, dump_dot=dump, keep_output=False, **kw)
    try:
        tmp = cdir + f".tmp{os.getpid()}"
        os.makedirs(tmp, exist_ok=True)
        res.output = res.output[-3000:]
        pickle.dump(res, open(os.path.join(tmp, "result.pkl"), "wb"))
        if dump:
            shutil.copyfile(dump + ".dot", os.path.join(tmp, "graph.dot"))
        if os.path.exists(cdir):
            shutil.rmtree(tmp, ignore_errors=True)
        else:
            os.rename(tmp, cdir)
    except OSError:
        pass
    return res


def _simulate(cfg, num, depth, seed):
    import pickle
    from verifkit import tlc
    spec = open(os.path.join(tlc.SPEC_DIR, "Door.tla")).read()
    key = hashlib.sha1(json.dumps([spec, open(cfg).read(), num, depth, seed, "sim-v1"]).encode()).hexdigest()[:20]
    pk = os.path.join(CACHE, key + ".sim.pkl")
    if os.environ.get("VERIF_C14_NOCACHE") != "1" and os.path.exists(pk):
        try:
            return pickle.load(open(pk, "rb"))
        except Exception:  # noqa
            pass
    res, behs = tlc.simulate("Door.tla", cfg, num=num, depth=depth, seed=seed)
    res.output = res.output[-2000:]
    try:
        os.makedirs(CACHE, exist_ok=True)
        tmp = pk + f".tmp{os.getpid()}"
        pickle.dump((res, behs), open(tmp, "wb"))
        os.replace(tmp, pk)
    except OSError:
        pass
    return res, behs


def _ans_model(op, rec, gen, scope):
    """spec answer record [exc, acc] -> the driver's {probe|_: outcome} form."""
    k = op["op"]
    if k in ("bearable", "die", "call"):
        ids = []
        mix = op.get("d") is not None and DESC[op["d"]][0] in MIX
        typ = op.get("d") is not None and DESC[op["d"]][0] == "tref"
        for n in PROBE_NAMES[scope]:
            for g in range(gen[n] + 1):
                ids += [f"bare:{n}:{g}", f"list:{n}:{g}"] + ([f"mix:{n}:{g}"] if mix else []) + ([f"type:{n}:{g}"] if typ else [])
        ids += ["none", "int", "true", "float"]
        if rec["exc"] != "none":
            return {i: rec["exc"] for i in ids}
        acc = set()
        for p in rec["acc"]:
            p = dict(p)
            acc.add(p["w"] if p["n"] == "-" else f"{p['w']}:{p['n']}:{p['g']}")
        return {i: ("T" if i in acc else "F") for i in ids}
    if rec["exc"] != "none":
        return {"_": rec["exc"]}
    if k == "decorate":
        return {"_": "ok"}
    return {"_": "T" if rec["acc"] else "F"}


_OPMAP = {"Bearable": "bearable", "Die": "die", "Decorate": "decorate", "Subhint": "subhint", "ThEq": "theq",
          "Hold": "hold", "LeHeld": "leheld", "Redefine": "redefine"}


def _op_of(label):
    from verifkit import tlc
    name, args = tlc.parse_action(label)
    if name in ("Bearable", "Die", "Decorate"):
        return {"op": _OPMAP[name], "d": args[0], "conf": args[1]}
    if name == "Call":
        return {"op": "call", "i": int(args[0])}
    if name in ("Subhint", "ThEq"):
        return {"op": _OPMAP[name], "a": args[0], "b": args[1]}
    if name == "Hold":
        return {"op": "hold", "d": args[0]}
    if name == "LeHeld":
        return {"op": "leheld", "b": args[0]}
    if name == "Redefine":
        return {"op": "redefine", "n": args[0]}
    if name == "Drop":
        return {"op": "drop"}
    if name == "ClearCaches":
        return {"op": "clear"}
    raise KeyError(label)


class History:
    """one behaviour of the model: ops + the spec's record of every step."""

    def __init__(self, scope, steps, origin):
        self.scope, self.origin = scope, origin
        self.ops = [s[0] for s in steps]
        self.last = [s[1]["last"] for s in steps]
        for o, l in zip(self.ops, self.last):
            if o["op"] == "call":
                o["d"] = l["a"]          # the descriptor of the callable's hint (decides which probes are built)
        self.gen = [dict(s[1]["gen"]) for s in steps]
        # the model's function numbering counts successful decorations: identical in the child
        self.needs_reuse = [i for i, l in enumerate(self.last) if l["stale"]]

    def job(self, theme="class", container="list", amp=0, junk="plain"):
        return {"ops": self.ops, "theme": theme, "container": container, "probes": PROBE_NAMES[self.scope], "amp": amp,
                "junk": junk}


def _paths_from_graph(g, max_paths, rnd):
    """paths from Init covering every edge; the quick tier replays a seeded sample of them in which the paths on
    which the faithful model deviates (foreign de-duplication, stale id hit, answer /= Fresh) come first, then those that
    ask an ==-equal question again after the heap changed or from elsewhere."""
    from verifkit import tlc
    paths = tlc.edge_cover_paths(g, max_len=64)
    total = len(paths)
    if max_paths and len(paths) > max_paths:
        def deviates(p):
            for (_s, _a, t) in p:
                l = g.nodes[t]["last"]
                if l["swap"] or l["stale"] or (l["judged"] and l["ret"] != l["fresh"]):
                    return True
            return False
        def revisits(p):
            # the pattern every memoisation defect needs: a question, then the heap changes under the tables (a name is
            # rebound, the caches are cleared) or the question comes from elsewhere (other spelling / module), then an
            # ==-equal question again
            seen = []
            for (_s, a, t) in p:
                o = _op_of(a)
                d = o.get("d") or (g.nodes[t]["last"]["a"] if o["op"] == "call" else None)
                if o["op"] in ("redefine", "clear"):
                    seen = [(e, sp, True) for (e, sp, _c) in seen]
                elif d in DESC:
                    e, sp = DESC[d][:2], DESC[d][2]
                    if any(e0 == e and (changed or sp0 != sp) for (e0, sp0, changed) in seen):
                        return True
                    seen.append((e, sp, False))
            return False
        dev = [p for p in paths if deviates(p)]
        rev = [p for p in paths if not deviates(p) and revisits(p)]
        rest = [p for p in paths if not deviates(p) and not revisits(p)]
        rnd.shuffle(dev)
        rnd.shuffle(rev)
        rnd.shuffle(rest)
        dev = dev[:max_paths // 2]
        rev = rev[:max(max_paths // 3, max_paths - len(dev) - len(rest))]
        paths = dev + rev + rest[:max(0, max_paths - len(dev) - len(rev))]
    return paths, total


# ====================================================================== judging
SHAPE_WORD = {"list": "list[%s]", "tuple": "tuple[%s, ...]", "dict": "dict[str, %s]", "set": "frozenset[%s]"}


def _history_class(h, k, theme, container, events):
    """canonical (table, history class) of a violation at step k."""
    op = h.ops[k]
    last = h.last[k]
    noun = THEMES[theme]
    if events:
        ev = events[0]
        table = f"TypeHint.{ev['table']} (method_cached_arg_by_id, id-keyed)"
        cleared = any(o["op"] == "clear" or (o["op"] == "redefine" and o["n"] in DECORATED) for o in h.ops[ev["made_at"]:k + 1])
        if not ev["old_hashable"]:
            return table, "wrapper of an unhashable hint freed after its call, address reused by a later wrapper"
        if cleared:
            return table, "clear_caches() frees the cached wrappers, their addresses are reused by later wrappers"
        return table, "wrapper freed, address reused by a later wrapper"
    # the checker pipeline: did the model take the foreign de-duplication on this query (or when the callable was decorated)?
    swap_step = None
    if last["swap"]:
        swap_step = k
    elif op["op"] == "call":
        nf = 0
        for i in range(k):
            if h.ops[i]["op"] == "decorate" and DESC[h.ops[i]["d"]][0] != "bad":
                nf += 1
                if nf == op["i"]:
                    swap_step = i if h.last[i]["swap"] else None
    else:
        # a checker cached under the new hint's key by an earlier query that took the swap
        for i in range(k):
            # (== ignores the spelling: the checker cached for `A | None` also answers `None | A`)
            if (h.ops[i]["op"] == op["op"] and "d" in h.ops[i] and "d" in op and DESC[h.ops[i]["d"]][:2] == DESC[op["d"]][:2]
                    and h.last[i]["swap"] and h.gen[i] == h.gen[k]):
                swap_step = i
    if swap_step is not None:
        d = h.ops[swap_step]["d"]
        sh = DESC[d][0]
        new = "New" + (DESC[d][1] if noun == "class" or DESC[d][1] != "A" else noun)
        form = (SHAPE_WORD[container] % new) if sh == "list" else (f"{new} | None" if DESC[d][2] == 0 else f"None | {new}")
        what = {"class": "class", "NewType": "NewType", "Enum": "Enum (Literal member)", "validator": "validator closure (equal lambda source)"}[noun]
        if DESC[d][1] == "D":
            what = "@beartype-decorated class whose registration an earlier clear_caches() forgot"
        return "_hint_repr_to_hint", f"redefine same-named {what}, query {form}"
    return "unexplained", "ops: " + json.dumps([_short(o) for o in h.ops[:k + 1]])


def _short(o):
    return " ".join(str(v) for v in o.values())


class Judge:
    def __init__(self, rep, oracle):
        self.rep, self.oracle = rep, oracle
        self.deferred = {}
        self.stats = {"histories": 0, "queries": 0, "hit_queries": 0, "reuse_detected": 0, "stale_steps_model": 0,
                      "stale_steps_exercised": 0, "not_exercised": 0, "unjudged": 0, "violating_answers": 0, "model_deviation_not_observed": 0}

    def fresh_jobs(self, h, theme, container):
        jobs = []
        for k, op in enumerate(h.ops):
            if h.last[k]["judged"]:
                jobs.append((k, {"ops": fresh_ops(h.ops, k), "theme": theme, "container": container,
                                 "probes": PROBE_NAMES[h.scope]}))
        return jobs

    def screen(self, h, theme, container, result):
        """first execution of a history (inside a batch): count, compare (i) with (ii), return the deviating steps."""
        rep = self.rep
        bad = []
        for k, (op, last, res) in enumerate(zip(h.ops, h.last, result)):
            if op["op"] in ("redefine", "clear", "hold", "drop"):
                continue
            if not last["judged"]:
                self.stats["unjudged"] += 1
                continue
            fresh_real = self.oracle.get({"ops": fresh_ops(h.ops, k), "theme": theme, "container": container,
                                          "probes": PROBE_NAMES[h.scope]})
            fresh_spec = _ans_model(op, last["fresh"], h.gen[k], h.scope)
            rep.count()
            self.stats["queries"] += 1
            self.stats["hit_queries"] += bool(last["hit"])
            if fresh_spec != fresh_real:
                rep.spec_drift(f"Fresh(q) of Door.tla differs from the fresh interpreter for {_short(op)} "
                               f"(theme {theme}/{container}): spec {fresh_spec} real {fresh_real}")
            if res["ans"] != fresh_real:
                bad.append(k)
            elif _ans_model(op, last["ret"], h.gen[k], h.scope) != fresh_spec:
                # the 0.23.0 disciplines deviate here but the tree answered as a fresh interpreter does: the reuse did
                # not happen (yet), or the tree no longer has that discipline (informational)
                self.stats["model_deviation_not_observed"] += 1
        return bad

    def judge(self, h, theme, container, amp, result, final):
        """compare one history executed alone; returns the stale steps that were exercised and whether it violated."""
        rep = self.rep
        exercised = set()
        self.violated = False
        for k, (op, last, res) in enumerate(zip(h.ops, h.last, result)):
            if res["reuse"]:
                self.stats["reuse_detected"] += 1
                exercised.add(k)
            if op["op"] in ("redefine", "clear", "hold", "drop"):
                continue
            if not last["judged"]:
                continue
            real = res["ans"]
            fresh_real = self.oracle.get({"ops": fresh_ops(h.ops, k), "theme": theme, "container": container,
                                          "probes": PROBE_NAMES[h.scope]})
            fresh_spec = _ans_model(op, last["fresh"], h.gen[k], h.scope)
            ret_spec = _ans_model(op, last["ret"], h.gen[k], h.scope)
            if real != fresh_real:
                self.violated = True
                events = res["reuse"] or (res.get("earlier", []) if op["op"] in ("subhint", "theq", "leheld") else [])
                table, hclass = _history_class(h, k, theme, container, events)
                key = {"table": table, "history": hclass}
                self.stats["violating_answers"] += 1
                job = h.job(theme, container, amp[0], amp[1])
                if table == "unexplained":
                    # not one of the deviations the faithful model knows: shrink the history first (after the replay)
                    ck = json.dumps([h.ops[:k + 1], theme, container])
                    if ck not in self.deferred:
                        self.deferred[ck] = ({**job, "ops": h.ops[:k + 1]}, h.origin)
                    continue
                diff = {p: (real.get(p), fresh_real.get(p)) for p in sorted(set(real) | set(fresh_real))
                        if real.get(p) != fresh_real.get(p)}
                rep.violation(key,
                              f"after the history below, `{render({**job, 'ops': [op]}).splitlines()[-1]}` answers "
                              f"{diff} (after history, in a fresh interpreter); table {table}; history class: {hclass}\n"
                              + render({**job, "ops": h.ops[:k + 1]}),
                              {"job": {**job, "ops": h.ops[:k + 1]}, "step": k, "real": real, "fresh_interpreter": fresh_real,
                               "fresh_spec": fresh_spec, "faithful_model": ret_spec, "reuse_events": res["reuse"],
                               "origin": h.origin})
        return exercised


def _violates(job, oracle, pool):
    """(real answer, fresh answer) of the last op of a job if they differ, else None."""
    k = len(job["ops"]) - 1
    fj = {"ops": fresh_ops(job["ops"], k), "theme": job["theme"], "container": job["container"], "probes": job["probes"]}
    oracle.resolve([fj])
    fresh = oracle.get(fj)
    real = pool.map(run_history, [job])[0][-1]["ans"]
    return (real, fresh) if real != fresh else None


def _removable(ops, i):
    o = ops[i]
    later = ops[i + 1:]
    if o["op"] == "decorate":
        return not any(x["op"] in ("call", "decorate") for x in later)
    if o["op"] == "hold":
        return not any(x["op"] in ("leheld", "drop", "hold") for x in later)
    if o["op"] == "drop":
        return not any(x["op"] == "hold" for x in later)
    if o["op"] == "redefine":
        # the first definition of U is needed by everything that builds a hint from the name
        return o["n"] != "U"
    return True


def _shrink(job, oracle, pool, budget=40):
    """greedy one-at-a-time removal of earlier operations while the last answer still differs from a fresh interpreter."""
    ops = list(job["ops"])
    i = 0
    while i < len(ops) - 1 and budget > 0:
        if _removable(ops, i):
            cand = ops[:i] + ops[i + 1:]
            budget -= 1
            try:
                bad = _violates({**job, "ops": cand}, oracle, pool)
            except Exception:  # noqa
                bad = None
            if bad:
                ops = cand
                continue
        i += 1
    return ops


def _report_deferred(rep, judge, oracle, pool, limit=24):
    for n, (ck, (job, origin)) in enumerate(sorted(judge.deferred.items())):
        if n >= limit:
            rep.note(f"{len(judge.deferred) - limit} more unexplained violating histories not shrunk")
            break
        ops = _shrink(job, oracle, pool)
        bad = _violates({**job, "ops": ops}, oracle, pool)
        if not bad:
            ops, bad = job["ops"], _violates(job, oracle, pool)
        if not bad:
            rep.note(f"a violating history did not reproduce when re-run: {[_short(o) for o in job['ops']]}")
            continue
        real, fresh = bad
        diff = {p: (real.get(p), fresh.get(p)) for p in sorted(set(real) | set(fresh)) if real.get(p) != fresh.get(p)}
        mini = {**job, "ops": ops}
        rep.violation({"table": "unexplained (not a deviation of the faithful Door.tla model)",
                       "history": "minimal ops: " + json.dumps([_short(o) for o in ops]),
                       "theme": [job["theme"], job["container"]]},
                      f"after the (shrunk) history below the last query answers {diff} (after history, in a fresh "
                      f"interpreter)\n" + render(mini),
                      {"job": mini, "step": len(ops) - 1, "real": real, "fresh_interpreter": fresh, "origin": origin})


# ====================================================================== run
def _check_tlc(rep, res, label, expect_ok, must_violate=None):
    rep.tlc(res, label)
    if expect_ok and res.violated:
        rep.machinery(f"Door.tla {label}: the intended design violates {res.violated}; the specification itself is wrong")
    if not expect_ok:
        if not res.violated:
            rep.machinery(f"Door.tla {label}: spec mutant not rejected by TLC (vacuous model)")
        if must_violate and res.violated not in must_violate:
            rep.machinery(f"Door.tla {label}: rejected by {res.violated}, expected one of {must_violate}")
        rep.add("spec_mutants_killed")


def run(rep, tier, seed):
    from verifkit import tlc
    from verifkit.util import ForkPool, scratch
    rep.assumptions += [
        "hint objects are immutable and no table is keyed by a hint's address: Door.tla identifies a hint object with "
        "its value (shape, captured class generation, spelling); TypeHint wrappers have identity and address",
        "Door.tla's Fresh(q) covers the shapes of its catalogue (unrelated classes, list/union/Annotated/forward "
        "reference/float/Literal); is_subhint between two Annotated hints is left to C19",
        "a decorated callable annotated by a forward reference that was resolved before the name was rebound is not "
        "judged (whether it follows the name or the object is C07's question)",
        "address reuse is provoked, not forced: histories whose model path needs a reuse that never occurred are "
        "counted in coverage.not_exercised",
    ]
    rep.rule = ("a case is one query of a TLC-generated history executed on the real code and compared with the fresh "
                "interpreter; non-trivial = distinct (operation, descriptor, path taken: hit/miss/stale/swap, theme)")
    quick = tier == "quick"
    rnd = random.Random(seed)
    import beartype.door  # noqa: F401  children fork from a parent that has only imported beartype
    import beartype.vale  # noqa: F401
    t0 = time.time()
    with scratch("c14-") as d, ForkPool(16) as pool:
        # ------------------------------------------------------------------ R1
        D = 4 if quick else 5
        runs = []
        for scope, mo in (("repr", D), ("reprT", D + 1), ("reprD", D + 1), ("idT", D - 1), ("idC", D), ("fail", D), ("conf", D), ("misc", D - 1),
                          ("mix", D), ("mixB", D), ("tref", D + 1)):
            runs.append((f"intended {scope}", (d, [], scope, mo, PROPS, {"workers": 4}), True, None))
        runs += [
            ("faithful repr (F4a)", (d, FAITHFUL, "repr", D, ["ReturnFresh"], {"workers": 2}), False, ["ReturnFresh"]),
            ("faithful reprT NoForeignDedup", (d, FAITHFUL, "reprT", D, ["NoForeignDedup"], {"workers": 2}), False, ["NoForeignDedup"]),
            ("faithful idT (F4b transient)", (d, FAITHFUL, "idT", D - 1, ["ReturnFresh"], {"workers": 2}), False, ["ReturnFresh"]),
            ("faithful idC (F4b clear)", (d, FAITHFUL, "idC", D, ["ReturnFresh"], {"workers": 2}), False, ["ReturnFresh"]),
            ("faithful idC HitIsFirstTime", (d, FAITHFUL, "idC", D, ["HitIsFirstTime"], {"workers": 2}), False, ["HitIsFirstTime"]),
            # a decorated class that is redefined clears the caches: 0.23.0 gets that history right ...
            ("repr_dedup alone holds on reprD", (d, ["repr_dedup"], "reprD", D, PROPS, {"workers": 2}), True, None),
            # ... unless an earlier clear_caches() made decortype.py forget the class
            ("faithful reprD (registry wiped)", (d, FAITHFUL, "reprD", D, ["ReturnFresh"], {"workers": 2}), False, ["ReturnFresh"]),
            ("mutant clear_forgets_dedup", (d, ["repr_dedup", "clear_forgets_dedup"], "reprD", D, ["ReturnFresh"], {"workers": 2}), False, None),
            ("mutant tester_noconf", (d, ["tester_noconf"], "conf", D, ["ReturnFresh"], {"workers": 2}), False, None),
            ("mutant cache_uncacheable", (d, ["cache_uncacheable"], "fail", D, ["ReturnFresh"], {"workers": 2}), False, None),
            ("mutant cache_fwd_exc", (d, ["cache_uncacheable", "cache_fwd_exc"], "fail", D, ["NoStickyFailure"], {"workers": 2}), False,
             ["NoStickyFailure"]),
            # is_check_expr_cacheable = the last child's instead of the conjunction: tuple['A', int] asked from two modules,
            # dict['A', int] asked again after A is redefined
            ("mutant cacheable_last_child (two modules)", (d, ["cacheable_last_child"], "mix", D, ["ReturnFresh"], {"workers": 2}), False,
             ["ReturnFresh"]),
            # clear_caches() forgets the proxies' issubclass() table: decorate f(x: type['W']), define W, call, redefine the
            # decorated W (clears), call
            ("mutant clear_forgets_reftype", (d, ["clear_forgets_reftype"], "tref", D + 1, ["ReturnFresh"], {"workers": 2}), False,
             ["ReturnFresh"]),
            ("mutant cacheable_last_child (redefinition)", (d, ["cacheable_last_child"], "mixB", D, ["ReturnFresh"], {"workers": 2}), False,
             ["ReturnFresh"]),
        ]
        # graphs of the faithful model for the edge replay (no property: the whole graph is wanted)
        G = 3 if quick else 4
        graph_scopes = [("repr", G), ("reprT", G + 1), ("reprD", G + 1), ("idT", G), ("idC", G), ("fail", G), ("conf", G), ("misc", G),
                        ("mix", G), ("mixB", G), ("tref", G + 2)]
        for scope, mo in graph_scopes:
            runs.append((f"graph {scope}", (d, FAITHFUL, scope, mo, ["TypeOK"],
                                            {"workers": 2, "dump_dot": os.path.join(d, f"g_{scope}")}), True, None))
        with ThreadPoolExecutor(8) as ex:
            results = list(ex.map(_tlc, [r[1] for r in runs]))
        targets = []
        for (label, args, expect_ok, must), res in zip(runs, results):
            _check_tlc(rep, res, label, expect_ok, must)
            # the counter-examples of the faithful model are what 0.23.0 does; those of the wrong designs are the histories
            # on which an implementation with that design would answer wrongly: both are replayed first
            if label.startswith(("faithful", "mutant")) and res.violated:
                steps = [(_op_of(a), st) for a, st in res.error_trace[1:]]
                targets.append(History(args[2], steps, f"TLC counter-example: {label}"))
        rep.note(f"R1 done in {time.time() - t0:.0f}s: {len(runs)} TLC runs, {len(targets)} counter-examples to replay first")

        # ------------------------------------------------------------------ R2: histories
        hists = list(targets)
        taken, ante = {}, {}
        per_scope = 80 if quick else 500
        for scope, mo in graph_scopes:
            g = tlc.parse_dot(os.path.join(d, f"g_{scope}.dot"))
            # reprT is concretised under every theme of the catalogue in the thorough tier: fewer paths, nine variants each
            paths, total = _paths_from_graph(g, per_scope if (quick or scope != "reprT") else per_scope // 5, rnd)
            rep.add("graph_edges", len(g.edges))
            rep.add("graph_paths_total", total)
            rep.add("graph_paths_replayed", len(paths))
            for p in paths:
                steps = [(_op_of(a), g.nodes[t]) for (s, a, t) in p]
                hists.append(History(scope, steps, f"edge cover of the faithful Door.tla graph, scope {scope}"))
            # vacuity: which actions TLC took and which antecedents it made true, read off its state graph
            # (-coverage triples the run time; guards do not depend on Legacy, so the graph of the faithful model
            # covers the action coverage of the intended runs over the same constants)
            for (s_, a, t) in g.edges:
                nm = tlc.parse_action(a)[0]
                taken[nm] = taken.get(nm, 0) + 1
            for st in g.nodes.values():
                l = st["last"]
                for flag in ("judged", "hit", "stale", "swap"):
                    if l[flag]:
                        ante[flag] = ante.get(flag, 0) + 1
                if l["judged"] and l["fresh"]["exc"] != "none":
                    ante["failing_query"] = ante.get("failing_query", 0) + 1
                if l["judged"] and l["hit"] and not l["stale"]:
                    ante["legit_hit"] = ante.get("legit_hit", 0) + 1
        never = sorted(a for a in ("Bearable", "Die", "Decorate", "Call", "Subhint", "ThEq", "Hold", "Drop", "LeHeld",
                                   "Redefine", "ClearCaches") if not taken.get(a))
        if never:
            rep.machinery(f"vacuous TLC runs: actions never taken {never}")
        missing = [f for f in ("judged", "hit", "legit_hit", "stale", "swap", "failing_query") if not ante.get(f)]
        if missing:
            rep.machinery(f"vacuous TLC runs: antecedents never true {missing}")
        rep.cov["actions_taken"] = taken
        rep.cov["antecedents_true"] = ante
        nsim, dsim = (40, 9) if quick else (400, 14)
        cfg = _cfg(d, FAITHFUL, "all", dsim, ["TypeOK"])
        sres, behs = _simulate(cfg, nsim, dsim + 1, seed + 1)
        rep.tlc(sres, "simulate faithful all")
        for b in behs:
            steps = [(_op_of(a), st) for a, st in b[1:]]
            if steps:
                hists.append(History("all", steps, f"tlc -simulate, scope all, seed {seed + 1}"))
        rep.add("simulated_behaviours", len(behs))
        _replay_all(rep, pool, hists, quick, rnd)
    rep.cov["exhaustive"] = not quick


VARIANTS = [("class", "list"), ("newtype", "list"), ("enum", "list"), ("validator", "list"), ("class", "tuple"),
            ("class", "dict"), ("class", "set"), ("newtype", "tuple"), ("validator", "dict")]


def _variants(h, quick, idx):
    """(theme, container) pairs under which a history is concretised: scope reprT is the part of the model that
    every theme of the catalogue instantiates (distinct objects that Door.tla calls repr-equal and ==-unequal)."""
    if h.scope != "reprT":
        return [("class", "list")]
    if h.origin.startswith("TLC counter-example") or not quick:
        return VARIANTS
    return [VARIANTS[idx % len(VARIANTS)]]


# provocation schedule: (how many extra wrappers are made and freed, which objects probe the allocator)
AMPS = [(0, "plain"), (16, "plain"), (16, "cls"), (16, "ann"), (64, "plain"), (64, "cls")]


def _replay_all(rep, pool, hists, quick, rnd):
    oracle = FreshOracle(rep)
    judge = Judge(rep, oracle)
    items = []          # (history, theme, container)
    for idx, h in enumerate(hists):
        for theme, cont in _variants(h, quick, idx):
            items.append((h, theme, cont))
    # fresh-interpreter answers for every judged query (cached by the objects the query needs)
    fj = []
    for h, theme, cont in items:
        fj += [j for _, j in judge.fresh_jobs(h, theme, cont)]
    t0 = time.time()
    oracle.resolve(fj)
    rep.note(f"fresh-interpreter oracle: {len(oracle.cache)} distinct queries in {time.time() - t0:.0f}s")
    # phase A -- screening: several histories per interpreter (a fork costs far more than a history here)
    t0 = time.time()
    B = 8 if quick else 12
    # histories in one interpreter must not share reprs: classes and NewTypes carry their module's name, but two
    # Enum members / validator closures of different modules print alike -- at most one history per such theme and batch
    nb = (len(items) + B - 1) // B
    batches = [[] for _ in range(nb)]
    # ... and a stringified forward reference is the same hint in every module: per batch at most one history
    # referring to a given name by a string
    def bkey(i):
        h, theme, cont = items[i]
        if theme in ("enum", "validator"):
            return frozenset([(theme, cont)])
        names = set()
        for o in h.ops:
            for f in ("d", "a", "b"):
                if o.get(f) in DESC and (DESC[o[f]][0] in ("ref", "tref") or DESC[o[f]][0] in MIX):
                    names.add(("forward reference", DESC[o[f]][1]))
        return frozenset(names) or None
    bkeys = [bkey(i) for i in range(len(items))]
    special = [i for i in range(len(items)) if bkeys[i] is not None]
    plain = [i for i in range(len(items)) if bkeys[i] is None]
    ptr = 0
    for i in special:
        key = bkeys[i]
        for off in range(len(batches) + 1):
            if off == len(batches):
                batches.append([i])
                break
            b = batches[(ptr + off) % len(batches)]
            if len(b) < B and all(bkeys[j] is None or not (bkeys[j] & key) for j in b):
                b.append(i)
                ptr = (ptr + off + 1) % len(batches)
                break
    bi = 0
    for i in plain:
        while bi < len(batches) and len(batches[bi]) >= B:
            bi += 1
        if bi == len(batches):
            batches.append([])
        batches[bi].append(i)
    batches = [b for b in batches if b]
    bres = pool.map(run_batch, [[items[i][0].job(items[i][1], items[i][2], 0) for i in b] for b in batches], chunksize=1)
    alone, batch_bad = set(), {}
    for bi, (b, rs) in enumerate(zip(batches, bres)):
        for i, res in zip(b, rs):
            h, theme, cont = items[i]
            bad = judge.screen(h, theme, cont, res)
            if bad:
                batch_bad[i] = (bi, bad, res)
            if bad or h.needs_reuse or h.origin.startswith("TLC counter-example"):
                alone.add(i)
    rep.add("interpreters_batched", len(batches))
    rep.note(f"screened {len(items)} histories in {len(batches)} interpreters in {time.time() - t0:.0f}s; "
             f"{len(alone)} re-run alone (deviating: {len(batch_bad)})")
    # phase B -- alone, with increasing provocation of address reuse where the model's path needs one
    pending = sorted(alone)
    done_ex = {i: set() for i in range(len(items))}
    violated_alone = set()
    for attempt, (amp, junk) in enumerate(AMPS):
        if not pending:
            break
        jobs = [items[i][0].job(items[i][1], items[i][2], amp, junk) for i in pending]
        results = pool.map(run_history, jobs)
        nxt = []
        for i, res in zip(pending, results):
            h, theme, cont = items[i]
            ex = judge.judge(h, theme, cont, (amp, junk), res, final=(attempt == 0))
            done_ex[i] |= ex
            if judge.violated:
                violated_alone.add(i)
            if any(k not in done_ex[i] for k in h.needs_reuse):
                nxt.append(i)
        pending = nxt
        rep.add("interpreters_alone", len(jobs))
    for i, (bi, bad, res) in sorted(batch_bad.items()):
        if i not in violated_alone:
            # deviates only after the other histories of its batch: still a history of public-API operations.  The usual
            # cause: wrappers of EARLIER histories died and this history's wrappers took their addresses -- unprovoked.
            h, theme, cont = items[i]
            b = batches[bi]
            k = bad[0]
            ev = (res[k]["reuse"] or res[k].get("earlier", [])) if h.ops[k]["op"] in ("subhint", "theq", "leheld") else []
            if ev:
                key = {"table": f"TypeHint.{ev[0]['table']} (method_cached_arg_by_id, id-keyed)",
                       "history": ("wrapper of an unhashable hint freed after its call, address reused by a later wrapper"
                                   if not ev[0]["old_hashable"] else
                                   "clear_caches() frees the cached wrappers, their addresses are reused by later wrappers")}
            else:
                key = {"table": "unexplained (only after other histories in the same interpreter)",
                       "history": "ops: " + json.dumps([_short(o) for o in h.ops[:k + 1]]), "theme": [theme, cont]}
            judge.stats["violating_answers"] += 1
            rep.violation(key,
                          f"the answer of step {bad[0]} of the history below differs from a fresh interpreter only when it "
                          f"runs after {b.index(i)} other histories in one interpreter\n" + render(h.job(theme, cont)),
                          {"batch": [items[j][0].job(items[j][1], items[j][2], 0) for j in b[:b.index(i) + 1]],
                           "job": h.job(theme, cont), "step": bad[0], "origin": h.origin})
    for i, (h, theme, cont) in enumerate(items):
        judge.stats["histories"] += 1
        judge.stats["stale_steps_model"] += len(h.needs_reuse)
        judge.stats["stale_steps_exercised"] += sum(1 for k in h.needs_reuse if k in done_ex[i])
        if any(k not in done_ex[i] for k in h.needs_reuse):
            judge.stats["not_exercised"] += 1
        rep.add("traces_validated_against_impl")
        for k, (op, last) in enumerate(zip(h.ops, h.last)):
            if last["judged"]:
                rep.nontrivial((op["op"], op.get("d", op.get("a", "")), op.get("b", ""), bool(last["hit"]), bool(last["stale"]),
                                bool(last["swap"]), theme, cont))
    if judge.deferred:
        _report_deferred(rep, judge, oracle, pool)
    rep.note(f"replayed {len(items)} concretised histories in {time.time() - t0:.0f}s: {judge.stats}")
    for k, v in judge.stats.items():
        rep.cov[k] = v
    if judge.stats["queries"] == 0:
        rep.machinery("no query was replayed")
    if judge.stats["stale_steps_model"] and not judge.stats["stale_steps_exercised"]:
        rep.machinery("no address reuse could be provoked at all: the id-keyed tables were not exercised")
    if hists:
        mid = hists[len(hists) // 2]
        rep.sample({"origin": mid.origin, "history": render(mid.job())})
        rep.sample({"origin": hists[0].origin, "history": render(hists[0].job())})


def replay(rep, path):
    from verifkit.util import fork_map
    import beartype.door  # noqa
    import beartype.vale  # noqa
    case = json.load(open(path))["case"]
    job = case["job"]
    print(render(job))
    if "batch" in case:
        # the deviation was seen only after other histories in the same interpreter: re-run that whole interpreter
        oracle = FreshOracle(rep)
        k = case["step"]
        fj = {"ops": fresh_ops(job["ops"], k), "theme": job["theme"], "container": job["container"], "probes": job["probes"]}
        oracle.resolve([fj])
        fresh = oracle.get(fj)
        res = fork_map(run_batch, [case["batch"]])[0][-1]
        print(f"step {k}: fresh interpreter {fresh}; after the {len(case['batch']) - 1} earlier histories: {res[k]['ans']}; "
              f"reuse detected: {bool(res[k]['reuse'])}")
        if res[k]["ans"] != fresh:
            rep.violations.append({"key": json.load(open(path))["key"], "what": "reproduced", "replay": path})
            print("REPRODUCED: the answer after the history differs from the fresh interpreter")
        return
    oracle = FreshOracle(rep)
    k = len(job["ops"]) - 1
    fj = {"ops": fresh_ops(job["ops"], k), "theme": job["theme"], "container": job["container"], "probes": job["probes"]}
    oracle.resolve([fj])
    fresh = oracle.get(fj)
    print("fresh interpreter:", fresh)
    tries = [(job.get("amp", 0), job.get("junk", "plain"))] + [a for a in AMPS if a != (job.get("amp", 0), job.get("junk", "plain"))]
    for amp, junk in tries:
        res = fork_map(run_history, [{**job, "amp": amp, "junk": junk}])[0]
        print(f"after the history (provocation {amp}/{junk}):", res[-1]["ans"], "reuse detected:", bool(res[-1]["reuse"]))
        if res[-1]["ans"] != fresh:
            rep.violations.append({"key": json.load(open(path))["key"], "what": "reproduced", "replay": path})
            print("REPRODUCED: the answer after the history differs from the fresh interpreter")
            break


if __name__ == "__main__":
    if "--fresh" in sys.argv:
        _fresh_main()
