"""C05 — the import hook preserves program meaning and equals writing the checks by hand.

R1  TLC checks spec/ClawAst.tla: every module tree of four bounded grammars ("slices") is
    grown node by node, walked by the implementation-shaped transformer model and compared
    with the declarative Rule (Walk = Rule, scope stack = lexical scopes, decorated exactly
    once, import placement, decorator index, line preservation, EvalCount = 1).  The 0.23.0
    deviations (Legacy) and six wrong designs (Mutant) must be rejected.
R2  the emitted case table (program tree, configuration, Rule edits, Legacy-walk edits,
    evaluation counts) is bound to the code by three observations per program:
    SHAPE (real BeartypeNodeTransformer, AST diff = spec edits, locations kept, compiles),
    MEANING (unhooked / hooked / by-hand reference written from the spec's edits, fresh
    interpreters, side-effect counters), RESILIENCE (poisoned definition => warning only).
R3  the repository's own claw data packages are abstracted to spec trees, TLC computes
    their edit sets (slice "given"), the real transformer must produce exactly those.
"""
from __future__ import annotations

import ast
import json
import os
import random
import subprocess
import sys
import time
from concurrent.futures import ThreadPoolExecutor

LEVEL = "model_checking"
SPEC = "ClawAst.tla"
INVS = ["TypeOK", "ScopesFaithful", "WalkSubRule", "WalkEqRule", "DecoratedOnce", "ChecksWellPlaced",
        "LinePreserved", "ImportPlaced", "DecoIndexOK", "EvalOnce", "ScopeBalanced"]
LEGACY = ["async_no_scope", "copy_subexprs"]
# spec mutant -> (slice, MaxNodes, MaxDepth)
MUTANTS = {"no_pop_nested_class": ("scope", 4, 3), "class_body_checked": ("scope", 3, 3),
           "import_before_future": ("prefix", 3, 2), "method_decorated": ("scope", 3, 3),
           "first_is_top": ("deco", 2, 3), "subscript_checked": ("kinds", 2, 3)}
LEGACY_DEMO = {"async_no_scope": ("scope", 4, 3, "ScopesFaithful"), "copy_subexprs": ("scope", 2, 3, "EvalOnce")}
ACTIONS = ["Grow", "EnterModule", "Leave", "PlaceDecorator", "EnterClass", "EnterFunc", "VisitAnnAssign",
           "VisitImport", "VisitOther", "Finish"]

FORMS = ["arg", "ret", "kwonly", "posonly", "vararg", "kwarg"]
REF_IMPORT = "from beartype import beartype; from beartype.door import die_if_unbearable"
HOSTILE_IMPORT = "from langchain_core.runnables import chain as hostile"
STAR_MODULE = "beartype.claw._ast._clawaststar"
DATA_DIR = "beartype_test/a00_unit/data/claw"


def _repo():
    return os.environ.get("VERIF_REPO", "/repo")


# =============================================================================== tree helpers
def tree_of(prog):
    """children lists (1-based preorder indices; 0 = module) from the preorder/depth encoding."""
    kids = {0: []}
    stack = [(0, 0)]
    for i, n in enumerate(prog, 1):
        while stack[-1][1] >= n["d"]:
            stack.pop()
        kids[stack[-1][0]].append(i)
        kids[i] = []
        stack.append((i, n["d"]))
    return kids


def parents_of(prog):
    par = {}
    for p, ks in tree_of(prog).items():
        for k in ks:
            par[k] = p
    return par


def scope_class(prog, i):
    """(nearest lexical scope kind, nearest enclosing scope that is not an async function):
    facts about the tree used to classify a deviating node (not a rule)."""
    par = parents_of(prog)

    def kind(j):
        if j == 0:
            return "module"
        n = prog[j - 1]
        return "class" if n["k"] == "class" else ("afunc" if n["asy"] else "func")

    chain = []
    j = par.get(i, 0) if i else 0
    while True:
        if j == 0 or prog[j - 1]["k"] in ("func", "class"):
            chain.append(kind(j))
        if j == 0:
            break
        j = par[j]
    nearest = chain[0]
    outer = next(c for c in chain if c != "afunc")
    return nearest, outer


def node_class(prog, i):
    if not i:
        return {"node": "module"}
    n = prog[i - 1]
    near, outer = scope_class(prog, i)
    d = {"node": n["k"], "nearest_scope": near, "nearest_non_async_scope": outer}
    if n["k"] == "ann":
        d["target"] = n["tgt"]
    if n["k"] == "func":
        d["async"] = n["asy"]
    return d


# =============================================================================== renderer
class Meta:
    """Where every spec node ended up in the source text."""

    def __init__(self):
        self.lines = []
        self.line_of = {}        # node -> line of its statement (the def/class line for definitions)
        self.node_at_line = {}   # statement line -> node
        self.aux_at_line = {}    # line of a harness statement (call of a definition, break, ...) -> node
        self.sites = []          # nodes with a good/bad value
        self.counters = {}       # counter key -> (node, part)
        self.refmap = {}         # reference line -> original line (only for reference renderings)
        self.top = []            # top-level nodes in order


def render(prog, bad=(), uid=0, seed=0, edits=None, orig=None, poison=()):
    """Render the tree as Python source.  With ``edits`` (a spec edit set) the by-hand reference is
    written instead: explicit import, @beartype decorators and die_if_unbearable calls."""
    kids = tree_of(prog)
    par = parents_of(prog)
    m = Meta()
    m.top = kids[0]
    bad = set(bad)
    imp = [e for e in (edits or ()) if e["kind"] == "import"]
    decs = {}
    chks = {}
    for e in (edits or ()):
        if e["kind"] == "decorate":
            decs.setdefault(e["at"], []).append(e)
        elif e["kind"] == "check":
            chks.setdefault(e["at"], []).append(e)
    state = {"orig": 0}

    def out(text, node=None, aux=None, inserted_for=None):
        m.lines.append(text)
        ln = len(m.lines)
        if inserted_for is not None:
            m.refmap[ln] = orig.line_of[inserted_for] if orig else 0
            return ln
        state["orig"] += 1
        m.refmap[ln] = state["orig"]
        if node is not None:
            m.line_of[node] = ln
            m.node_at_line[ln] = node
        if aux is not None:
            m.aux_at_line[ln] = aux
        return ln

    def tick(i, part, val):
        key = f"{i}.{part}"
        m.counters[key] = (i, part)
        return f'_t("{key}", {val})'

    def value(i):
        return "'bad'" if i in bad else "1"

    def is_method(i):
        p = par[i]
        while p and prog[p - 1]["k"] == "block":
            p = par[p]
        return bool(p) and prog[p - 1]["k"] == "class"

    def form_of(i):
        n = prog[i - 1]
        return FORMS[(i + seed) % len(FORMS)] if n["ann"] else "none"

    def conf_kw(e):
        return "conf=_CONF" if e["conf"] else ""

    def emit_decorators(i, ind):
        n = prog[i - 1]
        texts = []
        for k, dk in enumerate(n["decs"], 1):
            if dk == "p":
                key = f"{i}.dec{k}"
                m.counters[key] = (i, "dec")
                texts.append((f'@_d("{key}")', None))
            else:
                texts.append(("@hostile", None))
        for e in decs.get(i, ()):
            pos = min(e["pos"], len(texts))
            kw = conf_kw(e)
            texts.insert(pos, (f"@beartype({kw})" if kw else "@beartype", e["line"]))
        for t, ins in texts:
            out(ind + t, inserted_for=ins)

    def emit(i, ind):
        n = prog[i - 1]
        k = n["k"]
        if k == "func":
            emit_decorators(i, ind)
            form = form_of(i)
            hint = "42" if i in poison else "int"
            h = tick(i, "ann", hint) if n["ann"] else ""
            slf = "self, " if is_method(i) else ""
            sig = {"none": f"({slf}a=None)", "arg": f"({slf}a: {h})", "ret": f"({slf}a) -> {h}",
                   "kwonly": f"({slf}*, a: {h})", "posonly": f"(a: {h}, /)" if not slf else f"(self, a: {h}, /)",
                   "vararg": f"({slf}*a: {h})", "kwarg": f"({slf}**a: {h})"}[form]
            out(f"{ind}{'async ' if n['asy'] else ''}def f{i}{sig}:", node=i)
            for c in kids[i]:
                emit(c, ind + "    ")
            if form == "ret":
                out(f"{ind}    return a", aux=i)
            if n["ann"]:
                m.sites.append(i)
            if not is_method(i):
                out(f'{ind}_call(f{i}, "{form}", {value(i)})', aux=i)
        elif k == "class":
            emit_decorators(i, ind)
            out(f"{ind}class C{i}_{uid}:", node=i)
            for c in kids[i]:
                emit(c, ind + "    ")
            plan = []

            def methods(j):
                for c in kids[j]:
                    if prog[c - 1]["k"] == "func":
                        plan.append(f'"f{c}": ("{form_of(c)}", {value(c)})')
                    elif prog[c - 1]["k"] == "block":
                        methods(c)
            methods(i)
            out(f"{ind}_callm(C{i}_{uid}, {{{', '.join(plan)}}})", aux=i)
        elif k == "ann":
            hint = "42" if i in poison else "int"
            a = tick(i, "ann", hint)
            tgt = {"name": f"x{i}", "attr": f"_o.x{i}", "attrcall": f"{tick(i, 'base', '_o')}.x{i}",
                   "subscript": f'{tick(i, "base", "_m")}["x{i}"]'}[n["tgt"]]
            if n["val"]:
                out(f"{ind}{tgt}: {a} = {tick(i, 'val', value(i))}", node=i)
                m.sites.append(i)
            else:
                out(f"{ind}{tgt}: {a}", node=i)
            for e in chks.get(i, ()):
                kw = conf_kw(e)
                out(f"{ind}die_if_unbearable({tgt}, {a}{', ' + kw if kw else ''})", inserted_for=e["line"])
        elif k == "block":
            bk = n["bk"]
            inner = ind + "    "
            if bk == "if":
                out(f"{ind}if {tick(i, 'cond', 'True')}:", node=i)
            elif bk == "for":
                out(f"{ind}for _v{i} in {tick(i, 'cond', '(0,)')}:", node=i)
            elif bk == "while":
                out(f"{ind}while {tick(i, 'cond', 'True')}:", node=i)
            elif bk == "try":
                out(f"{ind}try:", node=i)
            elif bk == "with":
                out(f"{ind}with {tick(i, 'cond', '_cm')}:", node=i)
            elif bk == "match":
                out(f"{ind}match {tick(i, 'cond', '0')}:", node=i)
                out(f"{ind}    case _:")
                inner = ind + "        "
            for c in kids[i]:
                emit(c, inner)
            if bk == "while":
                out(f"{inner}break", aux=i)
            elif bk == "try":
                out(f"{ind}finally:")
                out(f"{ind}    pass", aux=i)
        elif k == "doc":
            out(f'{ind}"""doc {i}"""', node=i)
        elif k == "future":
            out(f"{ind}from __future__ import division", node=i)
        elif k == "import":
            out(f"{ind}{HOSTILE_IMPORT}", node=i)
        elif k == "expr":
            out(f"{ind}{tick(i, 'e', 'None')}", node=i)
        elif k == "pass":
            out(f"{ind}pass", node=i)
        else:
            raise ValueError(k)

    for idx, i in enumerate(kids[0]):
        for e in imp:
            if e["pos"] == idx:
                out(REF_IMPORT, inserted_for=e["line"])
        emit(i, "")
    m.src = "\n".join(m.lines) + "\n"
    return m


# =============================================================================== SHAPE
_LOC = ("lineno", "col_offset", "end_lineno", "end_col_offset")


def _is_bt_decorator(d):
    if isinstance(d, ast.Call):
        d = d.func
    return isinstance(d, ast.Name) and d.id == "__beartype__"


def _has_loc(sub):
    for n in ast.walk(sub):
        if isinstance(n, (ast.expr, ast.stmt, ast.keyword, ast.alias)) and getattr(n, "lineno", None) is None:
            return False
    return True


class ShapeDiff:
    """Diff of the transformed AST against a fresh parse of the same source, in spec terms."""

    def __init__(self, node_at_line):
        self.nal = node_at_line
        self.edits = []
        self.problems = []

    def node(self, line):
        return self.nal.get(line, -1)

    def stmts(self, a_list, t_list, owner, is_module=False):
        ai = 0
        prev = None
        prev_was_orig = False
        for ti, t in enumerate(t_list):
            a = a_list[ai] if ai < len(a_list) else None
            if a is not None and type(a) is type(t) and (a.lineno, a.col_offset) == (t.lineno, t.col_offset) \
                    and not self._inserted_import(t, a):
                self.generic(a, t)
                prev, prev_was_orig = a, True
                ai += 1
                continue
            # an inserted statement
            if not _has_loc(t):
                self.problems.append(f"inserted statement without location at index {ti}")
            if isinstance(t, ast.ImportFrom) and t.module == STAR_MODULE and [x.name for x in t.names] == ["*"]:
                if not is_module:
                    self.problems.append("import inserted outside the module body")
                self.edits.append({"kind": "import", "at": 0, "pos": ti, "line": self.node(t.lineno), "conf": False,
                                   "reeval": []})
            elif (isinstance(t, ast.Expr) and isinstance(t.value, ast.Call) and isinstance(t.value.func, ast.Name)
                  and t.value.func.id == "__die_if_unbearable_beartype__"):
                if not (prev_was_orig and isinstance(prev, ast.AnnAssign)):
                    self.problems.append(f"check inserted not directly after an annotated assignment (line {t.lineno})")
                    at = -1
                else:
                    at = self.node(prev.lineno)
                re = []
                call = t.value
                if isinstance(prev, ast.AnnAssign) and len(call.args) == 2:
                    if ast.dump(call.args[1]) == ast.dump(prev.annotation):
                        re.append("ann")
                    tg = prev.target
                    if isinstance(tg, ast.Attribute) and not isinstance(tg.value, ast.Name) \
                            and isinstance(call.args[0], ast.Attribute) \
                            and ast.dump(call.args[0].value) == ast.dump(tg.value):
                        re.append("base")
                    # the checked object must be the assigned target
                    want = ast.dump(ast.Name(tg.id, ast.Load())) if isinstance(tg, ast.Name) else \
                        ast.dump(ast.Attribute(tg.value, tg.attr, ast.Load())) if isinstance(tg, ast.Attribute) else None
                    if want != ast.dump(call.args[0]):
                        self.problems.append(f"check at line {t.lineno} does not test the assigned target")
                else:
                    self.problems.append(f"check call at line {t.lineno} has unexpected arguments")
                self.edits.append({"kind": "check", "at": at, "pos": 1, "line": self.node(t.lineno),
                                   "conf": any(k.arg == "conf" for k in call.keywords), "reeval": sorted(re)})
                prev_was_orig = False
            else:
                self.problems.append(f"unexpected inserted {type(t).__name__} at line {getattr(t, 'lineno', '?')}")
                prev_was_orig = False
        if ai != len(a_list):
            self.problems.append(f"original statement(s) dropped or reordered under {type(owner).__name__}")

    @staticmethod
    def _inserted_import(t, a):
        return isinstance(t, ast.ImportFrom) and t.module == STAR_MODULE and not (
            isinstance(a, ast.ImportFrom) and a.module == STAR_MODULE)

    def decorators(self, a_list, t_list, a):
        ins = [k for k, d in enumerate(t_list) if _is_bt_decorator(d)]
        ins = [k for k in ins if not (len(a_list) == len(t_list))]
        rest = [d for k, d in enumerate(t_list) if k not in ins]
        if len(ins) > 1:
            self.problems.append(f"definition at line {a.lineno} decorated {len(ins)} times")
        for k in ins:
            d = t_list[k]
            if not _has_loc(d):
                self.problems.append(f"inserted decorator without location (line {a.lineno})")
            isc = isinstance(d, ast.Call)
            ck = isc and any(kw.arg == "conf" for kw in d.keywords)
            if isc and not ck:
                self.problems.append(f"inserted decorator call without conf= (line {a.lineno})")
            self.edits.append({"kind": "decorate", "at": self.node(a.lineno), "pos": k,
                               "line": self.node(getattr(d, "lineno", -1)), "conf": bool(ck), "reeval": []})
        if len(rest) != len(a_list):
            self.problems.append(f"decorator list of line {a.lineno} changed beyond one insertion")
            return
        for x, y in zip(a_list, rest):
            self.generic(x, y)

    def generic(self, a, t):
        if type(a) is not type(t):
            self.problems.append(f"node type changed at line {getattr(a, 'lineno', '?')}: "
                                 f"{type(a).__name__} -> {type(t).__name__}")
            return
        for at in a._attributes:
            if at in _LOC and getattr(a, at, None) != getattr(t, at, None):
                self.problems.append(f"{type(a).__name__}.{at} changed: {getattr(a, at, None)} -> {getattr(t, at, None)}")
        for f in a._fields:
            x, y = getattr(a, f, None), getattr(t, f, None)
            if f == "decorator_list":
                self.decorators(x, y, a)
            elif isinstance(x, list):
                if x and isinstance(x[0], ast.stmt) or (y and isinstance(y[0], ast.stmt)):
                    self.stmts(x, y, a, is_module=isinstance(a, ast.Module))
                elif len(x) != len(y):
                    self.problems.append(f"{type(a).__name__}.{f} length changed at line {getattr(a, 'lineno', '?')}")
                else:
                    for p, q in zip(x, y):
                        if isinstance(p, ast.AST):
                            self.generic(p, q)
                        elif p != q:
                            self.problems.append(f"{type(a).__name__}.{f} changed")
            elif isinstance(x, ast.AST):
                self.generic(x, y) if isinstance(y, ast.AST) else self.problems.append(f"{type(a).__name__}.{f} removed")
            elif x != y:
                self.problems.append(f"{type(a).__name__}.{f} changed: {x!r} -> {y!r}")


_CONFS = {}


def real_conf(c, hookable=None):
    """The BeartypeConf for a spec configuration; other=TRUE is the hookable variant the loader gets."""
    key = (c["pep"], c["pf"], c["pt"], c["other"] if hookable is None else hookable)
    if key not in _CONFS:
        from beartype import BeartypeConf, BeartypeDecorPlace as P
        pl = {"FIRST": P.FIRST, "LAST": P.LAST, "LBH": P.LAST_BEFORE_DECOR_HOSTILE}
        cf = BeartypeConf(claw_is_pep526=c["pep"], claw_decor_place_func=pl[c["pf"]], claw_decor_place_type=pl[c["pt"]])
        if key[3]:
            from beartype.claw._package._clawpkgmake import make_conf_hookable
            cf = make_conf_hookable(cf)
        _CONFS[key] = cf
    return _CONFS[key]


def shape(src, node_at_line, conf, modname="c05shape.m", path="<c05>"):
    """Run the real transformer exactly as the loader's source_to_code does and diff."""
    from beartype.claw._ast.clawastmain import BeartypeNodeTransformer
    flags = ast.PyCF_ONLY_AST
    orig = compile(src, path, "exec", flags, dont_inherit=True, optimize=-1)
    tree = compile(src, path, "exec", flags, dont_inherit=True, optimize=-1)
    new = BeartypeNodeTransformer(module_name=modname, conf=conf).visit(tree)
    sd = ShapeDiff(node_at_line)
    if not isinstance(new, ast.Module):
        sd.problems.append("transformer did not return a module")
        return sd
    sd.generic(orig, new)
    try:
        compile(new, path, "exec", dont_inherit=True, optimize=-1)
    except Exception as ex:       # noqa
        sd.problems.append(f"transformed module does not compile: {type(ex).__name__}: {ex}")
    return sd


def canon_edit(e, with_reeval=True):
    t = (e["kind"], e["at"], e["pos"], e["line"], bool(e["conf"]))
    return t + (tuple(sorted(e["reeval"])),) if with_reeval else t


def edit_set(edits, with_reeval=True):
    return {canon_edit(e, with_reeval) for e in edits}
