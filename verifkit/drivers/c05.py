"""C05 — the import hook preserves program meaning and equals writing the checks by hand.

R1  TLC checks spec/ClawAst.tla: every module tree of four bounded grammars ("slices") is
    grown node by node, walked by the implementation-shaped transformer model and compared
    with the declarative Rule (Walk = Rule, scope stack = lexical scopes, decorated exactly
    once, import placement, decorator index, line preservation, EvalCount = 1).  The 0.23.0
    deviations (Legacy) and six wrong designs (Mutant) must be rejected.
R2  the emitted case table (program tree, configuration, Rule edits, Legacy-walk edits,
    evaluation counts) is bound to the code by three observations per program:
    SHAPE (real BeartypeNodeTransformer, AST diff = spec edits, locations kept, compiles),
    MEANING (unhooked / hooked / by-hand reference written from the spec's edits, fresh
    interpreters, side-effect counters), RESILIENCE (poisoned definition => warning only).
R3  the repository's own claw data packages are abstracted to spec trees, TLC computes
    their edit sets (slice "given"), the real transformer must produce exactly those.
"""
from __future__ import annotations

import ast
import json
import os
import random
import subprocess
import sys
import time
from concurrent.futures import ThreadPoolExecutor

LEVEL = "model_checking"
SPEC = "ClawAst.tla"
INVS = ["TypeOK", "ScopesFaithful", "WalkSubRule", "WalkEqRule", "DecoratedOnce", "ChecksWellPlaced",
        "LinePreserved", "ImportPlaced", "DecoIndexOK", "EvalOnce", "ScopeBalanced"]
LEGACY = ["copy_subexprs"]      # deviations still present in the tree under test (async_no_scope was repaired by fix b2890cb)
# spec mutant -> (slice, MaxNodes, MaxDepth)
MUTANTS = {"no_pop_nested_class": ("scope", 4, 4), "class_body_checked": ("scope", 3, 3),
           "import_before_future": ("prefix", 3, 2), "method_decorated": ("scope", 3, 3),
           "first_is_top": ("deco", 2, 3), "subscript_checked": ("kinds", 2, 3),
           "end_line_from_start": ("scope", 2, 3)}
LEGACY_DEMO = {"async_no_scope": ("scope", 4, 3, "ScopesFaithful"), "copy_subexprs": ("scope", 2, 3, "EvalOnce")}
COVERAGE_RUNS = [("scope", 3, 3), ("deco", 2, 3), ("prefix", 3, 2)]
ACTIONS = ["Grow", "EnterModule", "Leave", "PlaceDecorator", "EnterClass", "EnterFunc", "VisitAnnAssign",
           "VisitImport", "VisitOther", "Finish"]

FORMS = ["arg", "ret", "kwonly", "posonly", "vararg", "kwarg"]
REF_IMPORT = "from beartype import beartype; from beartype.door import die_if_unbearable"
HOSTILE_IMPORT = "from langchain_core.runnables import chain as hostile"
STAR_MODULE = "beartype.claw._ast._clawaststar"
DATA_DIR = "beartype_test/a00_unit/data/claw"


def _repo():
    return os.environ.get("VERIF_REPO", "/repo")


# =============================================================================== tree helpers
def tree_of(prog):
    """children lists (1-based preorder indices; 0 = module) from the preorder/depth encoding."""
    kids = {0: []}
    stack = [(0, 0)]
    for i, n in enumerate(prog, 1):
        while stack[-1][1] >= n["d"]:
            stack.pop()
        kids[stack[-1][0]].append(i)
        kids[i] = []
        stack.append((i, n["d"]))
    return kids


def parents_of(prog):
    par = {}
    for p, ks in tree_of(prog).items():
        for k in ks:
            par[k] = p
    return par


def scope_class(prog, i):
    """(nearest lexical scope kind, nearest enclosing scope that is not an async function):
    facts about the tree used to classify a deviating node (not a rule)."""
    par = parents_of(prog)

    def kind(j):
        if j == 0:
            return "module"
        n = prog[j - 1]
        return "class" if n["k"] == "class" else ("afunc" if n["asy"] else "func")

    chain = []
    j = par.get(i, 0) if i else 0
    while True:
        if j == 0 or prog[j - 1]["k"] in ("func", "class"):
            chain.append(kind(j))
        if j == 0:
            break
        j = par[j]
    nearest = chain[0]
    outer = next(c for c in chain if c != "afunc")
    return nearest, outer


def node_class(prog, i):
    if not i:
        return {"node": "module"}
    n = prog[i - 1]
    near, outer = scope_class(prog, i)
    return {"node": ("afunc" if n["asy"] else "func") if n["k"] == "func" else n["k"],
            "nearest_scope": near, "nearest_non_async_scope": outer}


# =============================================================================== renderer
class Meta:
    """Where every spec node ended up in the source text."""

    def __init__(self):
        self.lines = []
        self.line_of = {}        # node -> line of its statement (the def/class line for definitions)
        self.node_at_line = {}   # statement line -> node
        self.aux_at_line = {}    # line of a harness statement (call of a definition, break, ...) -> node
        self.sites = []          # nodes with a good/bad value
        self.counters = {}       # counter key -> (node, part)
        self.refmap = {}         # reference line -> original line (only for reference renderings)
        self.top = []            # top-level nodes in order


def render(prog, bad=(), uid=0, seed=0, edits=None, orig=None, poison=(), layout_=None):
    """Render the tree as Python source.  With ``edits`` (a spec edit set) the by-hand reference is
    written instead: explicit import, @beartype decorators and die_if_unbearable calls."""
    kids = tree_of(prog)
    par = parents_of(prog)
    m = Meta()
    m.top = kids[0]
    bad = set(bad)
    imp = [e for e in (edits or ()) if e["kind"] == "import"]
    decs = {}
    chks = {}
    for e in (edits or ()):
        if e["kind"] == "decorate":
            decs.setdefault(e["at"], []).append(e)
        elif e["kind"] == "check":
            chks.setdefault(e["at"], []).append(e)
    state = {"orig": 0}
    # layout of instrumented statements, chosen per program (seeded):
    #   0 one line each; 1 parenthesised values / trailing body statements closing at column 0;
    #   2 triple-quoted strings closing at column 0; 3 multi-line headers, decorators and values, indented
    layout = (seed // len(FORMS)) % 4 if layout_ is None else layout_
    m.layout = layout

    def out(text, node=None, aux=None, inserted_for=None):
        if "\n" in text:
            first, *rest = text.split("\n")
            ln = out(first, node=node, aux=aux, inserted_for=inserted_for)
            for t in rest:
                out(t, inserted_for=inserted_for)
            return ln
        m.lines.append(text)
        ln = len(m.lines)
        if inserted_for is not None:
            m.refmap[ln] = orig.line_of[inserted_for] if orig else 0
            return ln
        state["orig"] += 1
        m.refmap[ln] = state["orig"]
        if node is not None:
            m.line_of[node] = ln
            m.node_at_line[ln] = node
        if aux is not None:
            m.aux_at_line[ln] = aux
        return ln

    def tick(i, part, val):
        key = f"{i}.{part}"
        m.counters[key] = (i, part)
        return f'_t("{key}", {val})'

    def value(i):
        return "'bad'" if i in bad else "1"

    def is_method(i):
        p = par[i]
        while p and prog[p - 1]["k"] == "block":
            p = par[p]
        return bool(p) and prog[p - 1]["k"] == "class"

    def own_import(j):
        return any(prog[c - 1]["k"] == "import" or (prog[c - 1]["k"] == "block" and own_import(c)) for c in kids[j])

    def form_of(i):
        n = prog[i - 1]
        return FORMS[(i + seed) % len(FORMS)] if n["ann"] else "none"

    def conf_kw(e):
        return "conf=_CONF" if e["conf"] else ""

    def emit_decorators(i, ind):
        n = prog[i - 1]
        texts = []
        for k, dk in enumerate(n["decs"], 1):
            if dk == "p":
                key = f"{i}.dec{k}"
                m.counters[key] = (i, "dec")
                texts.append((f'@_d(\n{ind}    "{key}"\n{ind})' if layout == 3 else f'@_d("{key}")', None))
            else:
                texts.append(("@hostile", None))
        for e in decs.get(i, ()):
            pos = min(e["pos"], len(texts))
            kw = conf_kw(e)
            texts.insert(pos, (f"@beartype({kw})" if kw else "@beartype", e["line"]))
        for t, ins in texts:
            out(ind + t, inserted_for=ins)

    def emit(i, ind):
        n = prog[i - 1]
        k = n["k"]
        if k == "func":
            emit_decorators(i, ind)
            form = form_of(i)
            hint = "42" if i in poison else "int"
            h = tick(i, "ann", hint) if n["ann"] else ""
            slf = "self, " if is_method(i) else ""
            inner = {"none": f"{slf}a=None", "arg": f"{slf}a: {h}", "ret": f"{slf}a",
                     "kwonly": f"{slf}*, a: {h}", "posonly": f"{slf}a: {h}, /",
                     "vararg": f"{slf}*a: {h}", "kwarg": f"{slf}**a: {h}"}[form]
            arrow = f" -> {h}" if form == "ret" else ""
            sig = f"(\n{ind}    {inner},\n{ind}){arrow}" if layout == 3 and form != "posonly" else \
                f"(\n{ind}    {inner}\n{ind}){arrow}" if layout == 3 else f"({inner}){arrow}"
            out(f"{ind}{'async ' if n['asy'] else ''}def f{i}{sig}:", node=i)
            if own_import(i):
                # the hostile import would make the name local to the whole function body
                out(f"{ind}    global hostile", aux=i)
            for c in kids[i]:
                emit(c, ind + "    ")
            if form == "ret":
                out(f"{ind}    return (a\n)" if layout in (1, 2) else f"{ind}    return a", aux=i)
            elif layout in (1, 2):
                # the definition ends left of the column it starts in
                out(f"{ind}    (None,\n)" if layout == 1 else f'{ind}    """end of f{i}\n"""', aux=i)
            if n["ann"]:
                m.sites.append(i)
            if not is_method(i):
                out(f'{ind}_call(f{i}, "{form}", {value(i)})', aux=i)
        elif k == "class":
            emit_decorators(i, ind)
            out(f"{ind}class C{i}_{uid}(\n{ind}):" if layout == 3 else f"{ind}class C{i}_{uid}:", node=i)
            for c in kids[i]:
                emit(c, ind + "    ")
            if layout in (1, 2):
                out(f"{ind}    (None,\n)" if layout == 1 else f'{ind}    """end of C{i}\n"""', aux=i)
            plan = []

            def methods(j):
                for c in kids[j]:
                    if prog[c - 1]["k"] == "func":
                        plan.append(f'"f{c}": ("{form_of(c)}", {value(c)})')
                    elif prog[c - 1]["k"] == "block":
                        methods(c)
            methods(i)
            out(f"{ind}_callm(C{i}_{uid}, {{{', '.join(plan)}}})", aux=i)
        elif k == "ann":
            hint = "42" if i in poison else "int"
            a = tick(i, "ann", hint)
            if n["tgt"] == "name":
                tgt = f"x{i}"
            elif n["tgt"] == "attr":
                tgt = f"_o.x{i}"
            elif n["tgt"] == "attrcall":
                tgt = f"{tick(i, 'base', '_o')}.x{i}"
            else:
                tgt = f'{tick(i, "base", "_m")}["x{i}"]'
            if n["val"]:
                v = tick(i, "val", value(i))
                if layout == 1:
                    v = v[:-1] + "\n)"
                elif layout == 2:
                    v = f'{v} if 1 else """never\n"""'
                elif layout == 3:
                    v = v.replace(", ", f",\n{ind}        ", 1)
                out(f"{ind}{tgt}: {a} = {v}", node=i)
                m.sites.append(i)
            else:
                out(f"{ind}{tgt}: {a}", node=i)
            for e in chks.get(i, ()):
                kw = conf_kw(e)
                out(f"{ind}die_if_unbearable({tgt}, {a}{', ' + kw if kw else ''})", inserted_for=e["line"])
        elif k == "block":
            bk = n["bk"]
            inner = ind + "    "
            if bk == "if":
                out(f"{ind}if {tick(i, 'cond', 'True')}:", node=i)
            elif bk == "for":
                out(f"{ind}for _v{i} in {tick(i, 'cond', '(0,)')}:", node=i)
            elif bk == "while":
                out(f"{ind}while {tick(i, 'cond', 'True')}:", node=i)
            elif bk == "try":
                out(f"{ind}try:", node=i)
            elif bk == "with":
                out(f"{ind}with {tick(i, 'cond', '_cm')}:", node=i)
            elif bk == "match":
                out(f"{ind}match {tick(i, 'cond', '0')}:", node=i)
                out(f"{ind}    case _:")
                inner = ind + "        "
            for c in kids[i]:
                emit(c, inner)
            if bk == "while":
                out(f"{inner}break", aux=i)
            elif bk == "try":
                out(f"{ind}finally:")
                out(f"{ind}    pass", aux=i)
        elif k == "doc":
            out(f'{ind}"""doc {i}"""', node=i)
        elif k == "future":
            out(f"{ind}from __future__ import division", node=i)
        elif k == "import":
            out(f"{ind}{HOSTILE_IMPORT}", node=i)
        elif k == "expr":
            out(f"{ind}{tick(i, 'e', 'None')}", node=i)
        elif k == "pass":
            out(f"{ind}pass", node=i)
        else:
            raise ValueError(k)

    for idx, i in enumerate(kids[0]):
        for e in imp:
            if e["pos"] == idx:
                out(REF_IMPORT, inserted_for=e["line"])
        emit(i, "")
    m.src = "\n".join(m.lines) + "\n"
    return m


# =============================================================================== SHAPE
_LOC = ("lineno", "col_offset", "end_lineno", "end_col_offset")


def _is_bt_decorator(d):
    if isinstance(d, ast.Call):
        d = d.func
    return isinstance(d, ast.Name) and d.id == "__beartype__"


def _has_loc(sub):
    for n in ast.walk(sub):
        if isinstance(n, (ast.expr, ast.stmt, ast.keyword, ast.alias)) and getattr(n, "lineno", None) is None:
            return False
    return True


def _span(n):
    return (n.lineno, n.col_offset), (getattr(n, "end_lineno", None), getattr(n, "end_col_offset", None))


class ShapeDiff:
    """Diff of the transformed AST against a fresh parse of the same source, in spec terms."""

    def __init__(self, node_at_line):
        self.nal = node_at_line
        self.edits = []
        self.problems = []
        self.drift = []
        self.multiline_hosts = 0

    def anchors(self, top, host, what):
        """Full location of an inserted node against its host statement (the ORIGINAL node): every node of the
        inserted subtree must be a valid range inside the host's range.  Returns which end point of the host the
        inserted node's end line / end column were taken from (compared with the spec's eline / ecol)."""
        (hs, he) = _span(host)
        for n in ast.walk(top):
            if getattr(n, "lineno", None) is None:
                continue
            st, en = _span(n)
            if en[0] is None or en[1] is None:
                self.problems.append(f"inserted {what}: node without end position at line {st[0]}")
            elif st > en:
                self.problems.append(f"inserted {what}: location ends before it starts at line {st[0]} (column {st[1]} "
                                     f"to line {en[0]}, column {en[1]}; host statement {hs}-{he})")
            elif st < hs or en > he:
                self.problems.append(f"inserted {what}: location outside its host statement at line {hs[0]} "
                                     f"({st}-{en} not in {hs}-{he})")
        st, en = _span(top)
        if hs[0] != he[0]:
            self.multiline_hosts += 1
        el = "end" if en[0] == he[0] else "start" if en[0] == hs[0] else "other"
        ec = "end" if en[1] == he[1] else "start" if en[1] == hs[1] else "other"
        if st != hs:
            self.drift.append(f"inserted {what} does not start where its host starts: {st} vs {hs}")
        self.last_host = (hs[0] != he[0], hs[0] != he[0] and he[1] < hs[1])
        return el, ec

    def node(self, line):
        return self.nal.get(line, -1)

    def stmts(self, a_list, t_list, owner, is_module=False):
        ai = 0
        prev = None
        prev_was_orig = False
        for ti, t in enumerate(t_list):
            a = a_list[ai] if ai < len(a_list) else None
            if a is not None and type(a) is type(t) and (a.lineno, a.col_offset) == (t.lineno, t.col_offset) \
                    and not self._inserted_import(t, a):
                self.generic(a, t)
                prev, prev_was_orig = a, True
                ai += 1
                continue
            # an inserted statement
            if not _has_loc(t):
                self.problems.append(f"inserted statement without location at index {ti}")
            if isinstance(t, ast.ImportFrom) and t.module == STAR_MODULE and [x.name for x in t.names] == ["*"]:
                if not is_module:
                    self.problems.append("import inserted outside the module body")
                el, ec = self.anchors(t, a, "import") if a is not None else ("end", "end")
                self.edits.append({"kind": "import", "at": 0, "pos": ti, "line": self.node(t.lineno), "conf": False,
                                   "reeval": [], "eline": el, "ecol": ec, "host": getattr(self, "last_host", (False, False))})
            elif (isinstance(t, ast.Expr) and isinstance(t.value, ast.Call) and isinstance(t.value.func, ast.Name)
                  and t.value.func.id == "__die_if_unbearable_beartype__"):
                if not (prev_was_orig and isinstance(prev, ast.AnnAssign)):
                    self.problems.append(f"check inserted not directly after an annotated assignment (line {t.lineno})")
                    at = -1
                else:
                    at = self.node(prev.lineno)
                re = []
                call = t.value
                if isinstance(prev, ast.AnnAssign) and len(call.args) == 2:
                    if ast.dump(call.args[1]) == ast.dump(prev.annotation):
                        re.append("ann")
                    tg = prev.target
                    if isinstance(tg, ast.Attribute) and not isinstance(tg.value, ast.Name) \
                            and isinstance(call.args[0], ast.Attribute) \
                            and ast.dump(call.args[0].value) == ast.dump(tg.value):
                        re.append("base")
                    # the checked object must be the assigned target
                    want = ast.dump(ast.Name(tg.id, ast.Load())) if isinstance(tg, ast.Name) else \
                        ast.dump(ast.Attribute(tg.value, tg.attr, ast.Load())) if isinstance(tg, ast.Attribute) else None
                    if want != ast.dump(call.args[0]):
                        self.problems.append(f"check at line {t.lineno} does not test the assigned target")
                else:
                    self.problems.append(f"check call at line {t.lineno} has unexpected arguments")
                el, ec = self.anchors(t, prev, "check") if prev_was_orig else ("other", "other")
                self.edits.append({"kind": "check", "at": at, "pos": 1, "line": self.node(t.lineno),
                                   "conf": any(k.arg == "conf" for k in call.keywords), "reeval": sorted(re),
                                   "eline": el, "ecol": ec, "host": getattr(self, "last_host", (False, False))})
                prev_was_orig = False
            else:
                self.problems.append(f"unexpected inserted {type(t).__name__} at line {getattr(t, 'lineno', '?')}")
                prev_was_orig = False
        if ai != len(a_list):
            self.problems.append(f"original statement(s) dropped or reordered under {type(owner).__name__}")

    @staticmethod
    def _inserted_import(t, a):
        return isinstance(t, ast.ImportFrom) and t.module == STAR_MODULE and not (
            isinstance(a, ast.ImportFrom) and a.module == STAR_MODULE)

    def decorators(self, a_list, t_list, a):
        ins = [k for k, d in enumerate(t_list) if _is_bt_decorator(d)]
        ins = [k for k in ins if not (len(a_list) == len(t_list))]
        rest = [d for k, d in enumerate(t_list) if k not in ins]
        if len(ins) > 1:
            self.problems.append(f"definition at line {a.lineno} decorated {len(ins)} times")
        for k in ins:
            d = t_list[k]
            if not _has_loc(d):
                self.problems.append(f"inserted decorator without location (line {a.lineno})")
            isc = isinstance(d, ast.Call)
            ck = isc and any(kw.arg == "conf" for kw in d.keywords)
            if isc and not ck:
                self.problems.append(f"inserted decorator call without conf= (line {a.lineno})")
            el, ec = self.anchors(d, a, "decorator") if _has_loc(d) else ("other", "other")
            self.edits.append({"kind": "decorate", "at": self.node(a.lineno), "pos": k,
                               "line": self.node(getattr(d, "lineno", -1)), "conf": bool(ck), "reeval": [],
                               "eline": el, "ecol": ec, "host": getattr(self, "last_host", (False, False))})
        if len(rest) != len(a_list):
            self.problems.append(f"decorator list of line {a.lineno} changed beyond one insertion")
            return
        for x, y in zip(a_list, rest):
            self.generic(x, y)

    def generic(self, a, t):
        if type(a) is not type(t):
            self.problems.append(f"node type changed at line {getattr(a, 'lineno', '?')}: "
                                 f"{type(a).__name__} -> {type(t).__name__}")
            return
        for at in a._attributes:
            if at in _LOC and getattr(a, at, None) != getattr(t, at, None):
                self.problems.append(f"{type(a).__name__}.{at} changed: {getattr(a, at, None)} -> {getattr(t, at, None)}")
        for f in a._fields:
            x, y = getattr(a, f, None), getattr(t, f, None)
            if f == "decorator_list":
                self.decorators(x, y, a)
            elif isinstance(x, list):
                if x and isinstance(x[0], ast.stmt) or (y and isinstance(y[0], ast.stmt)):
                    self.stmts(x, y, a, is_module=isinstance(a, ast.Module))
                elif len(x) != len(y):
                    self.problems.append(f"{type(a).__name__}.{f} length changed at line {getattr(a, 'lineno', '?')}")
                else:
                    for p, q in zip(x, y):
                        if isinstance(p, ast.AST):
                            self.generic(p, q)
                        elif p != q:
                            self.problems.append(f"{type(a).__name__}.{f} changed")
            elif isinstance(x, ast.AST):
                self.generic(x, y) if isinstance(y, ast.AST) else self.problems.append(f"{type(a).__name__}.{f} removed")
            elif x != y:
                self.problems.append(f"{type(a).__name__}.{f} changed: {x!r} -> {y!r}")


_CONFS = {}


def real_conf(c, hookable=None):
    """The BeartypeConf for a spec configuration; other=TRUE is the hookable variant the loader gets."""
    key = (c["pep"], c["pf"], c["pt"], c["other"] if hookable is None else hookable)
    if key not in _CONFS:
        from beartype import BeartypeConf, BeartypeDecorPlace as P
        pl = {"FIRST": P.FIRST, "LAST": P.LAST, "LBH": P.LAST_BEFORE_DECOR_HOSTILE}
        cf = BeartypeConf(claw_is_pep526=c["pep"], claw_decor_place_func=pl[c["pf"]], claw_decor_place_type=pl[c["pt"]])
        if key[3]:
            from beartype.claw._package._clawpkgmake import make_conf_hookable
            cf = make_conf_hookable(cf)
        _CONFS[key] = cf
    return _CONFS[key]


def shape(src, node_at_line, conf, modname="c05shape.m", path="<c05>"):
    """Run the real transformer exactly as the loader's source_to_code does and diff."""
    from beartype.claw._ast.clawastmain import BeartypeNodeTransformer
    flags = ast.PyCF_ONLY_AST
    orig = compile(src, path, "exec", flags, dont_inherit=True, optimize=-1)
    tree = compile(src, path, "exec", flags, dont_inherit=True, optimize=-1)
    new = BeartypeNodeTransformer(module_name=modname, conf=conf).visit(tree)
    sd = ShapeDiff(node_at_line)
    if not isinstance(new, ast.Module):
        sd.problems.append("transformer did not return a module")
        return sd
    sd.generic(orig, new)
    try:
        compile(new, path, "exec", dont_inherit=True, optimize=-1)
    except Exception as ex:       # noqa
        sd.problems.append(f"transformed module does not compile: {type(ex).__name__}: {ex}")
    return sd


def canon_edit(e, with_reeval=True):
    t = (e["kind"], e["at"], e["pos"], e["line"], bool(e["conf"]))
    return t + (tuple(sorted(e["reeval"])),) if with_reeval else t


def edit_set(edits, with_reeval=True):
    return {canon_edit(e, with_reeval) for e in edits}


# =============================================================================== child (fresh interpreter)
class _State:
    def __init__(self):
        self.reset()
        self.catch = False

    def reset(self):
        self.counters = {}
        self.out = []
        self.log = []
        self.sitelog = []
        self.o = type("Obj", (), {})()
        self.m = {}


def _desc(obj):
    if isinstance(obj, type):
        return "class:" + ",".join(sorted(k for k, v in vars(obj).items()
                                          if callable(v) and hasattr(v, "__beartype_wrapper")))
    return "func:wrapped" if hasattr(obj, "__beartype_wrapper") else "func:plain"


def _describe(v, depth=0):
    import types
    if isinstance(v, type):
        return ["class", {k: _describe(x, depth + 1) for k, x in vars(v).items()
                          if not k.startswith("__")}] if depth < 3 else ["class"]
    if isinstance(v, (types.FunctionType, types.MethodType)) or hasattr(v, "__beartype_wrapper"):
        return ["func", bool(hasattr(v, "__beartype_wrapper"))]
    if v is None or isinstance(v, (int, str, bool, tuple, float)):
        return ["val", repr(v)]
    return ["obj", type(v).__name__]


def _child_setup(st, root):
    import builtins
    import contextlib
    import inspect
    os.makedirs(os.path.join(root, "langchain_core"), exist_ok=True)
    open(os.path.join(root, "langchain_core", "__init__.py"), "w").close()
    with open(os.path.join(root, "langchain_core", "runnables.py"), "w") as fh:
        fh.write("import builtins\n\ndef chain(obj):\n    return builtins._c05_hostile(obj)\n")
    sys.path.insert(0, root)

    def _t(key, val):
        st.counters[key] = st.counters.get(key, 0) + 1
        st.out.append(key)
        return val

    def _d(key):
        _t(key, None)

        def deco(obj):
            st.log.append([key, _desc(obj)])
            return obj
        return deco

    def _hostile(obj):
        st.log.append(["h", _desc(obj)])
        return obj

    def _call(fn, form="none", value=None):
        name = getattr(fn, "__name__", "?")
        try:
            if form in ("arg", "ret", "posonly", "vararg"):
                r = fn(value)
            elif form in ("kwonly", "kwarg"):
                r = fn(a=value)
            else:
                r = fn()
            if inspect.iscoroutine(r):
                try:
                    r.send(None)
                    r.close()
                except StopIteration:
                    pass
        except Exception as ex:      # noqa
            if not st.catch:
                raise
            st.sitelog.append([name, type(ex).__name__])
        else:
            st.sitelog.append([name, None])

    def _callm(cls, plan):
        inst = cls()
        for name, (form, value) in plan.items():
            _call(getattr(inst, name), form, value)

    builtins._t, builtins._d, builtins._call, builtins._callm = _t, _d, _call, _callm
    builtins._c05_hostile = _hostile
    import langchain_core.runnables as lr
    builtins.hostile = lr.chain
    builtins._cm = contextlib.nullcontext()
    return builtins


def child_main(jobfile):
    import importlib
    import traceback
    import warnings
    job = json.load(open(jobfile))
    root, mode = job["root"], job["mode"]
    st = _State()
    builtins = _child_setup(st, root)
    pkgs = {}
    confs = {}

    def pkg_for(ck, c):
        name = {"unhooked": "c05u", "reference": "c05r", "hooked": "c05h"}[mode] + ck
        if name not in pkgs:
            os.makedirs(os.path.join(root, name), exist_ok=True)
            open(os.path.join(root, name, "__init__.py"), "w").close()
            pkgs[name] = True
            if mode == "hooked":
                from beartype.claw import beartype_package
                beartype_package(name, conf=real_conf(c, hookable=False))
            elif mode == "reference":
                confs[ck] = real_conf(c, hookable=False)
        return name

    res = []
    for it in job["items"]:
        c = it["conf"]
        ck = f"{int(c['pep'])}{c['pf']}{c['pt']}"
        pkg = pkg_for(ck, c)
        path = os.path.join(root, pkg, it["mod"] + ".py")
        with open(path, "w") as fh:
            fh.write(it["src"])
        st.reset()
        st.catch = bool(it.get("catch"))
        # the attribute / subscript bases are fresh per module
        builtins._o, builtins._m = st.o, st.m
        if mode == "reference":
            builtins._CONF = confs[ck]
        ob = {"id": it["id"], "exc": None, "line": None, "msg": None}
        g = None
        with warnings.catch_warnings(record=True) as wl:
            warnings.simplefilter("always")
            try:
                mod = importlib.import_module(f"{pkg}.{it['mod']}")
                g = vars(mod)
            except BaseException as ex:      # noqa
                ob["exc"] = type(ex).__name__
                ob["msg"] = str(ex)[:300]
                for fr, ln in traceback.walk_tb(ex.__traceback__):
                    if fr.f_code.co_filename == path:
                        ob["line"] = ln
                        if fr.f_code.co_name == "<module>":
                            g = fr.f_globals
                ex.__traceback__ = None
        ob["warns"] = [[w.category.__name__, getattr(w, "lineno", 0)] for w in wl]
        ob["snap"] = {k: _describe(v) for k, v in (g or {}).items()
                      if not k.startswith("__") and k not in ("beartype", "die_if_unbearable")}
        ob["snap"]["_o"] = {k: _describe(v) for k, v in vars(st.o).items()}
        ob["snap"]["_m"] = {k: _describe(v) for k, v in st.m.items()}
        ob["out"] = st.out
        ob["counters"] = st.counters
        ob["log"] = st.log
        ob["sitelog"] = st.sitelog
        res.append(ob)
        g = None
    with open(job["out"], "w") as fh:
        json.dump(res, fh)
    return 0


def run_children(jobs, procs=16):
    """jobs: list of (mode, items).  One fresh interpreter per job.  Returns {(mode, id): observation}."""
    out = {}
    from verifkit.util import scratch
    with scratch("c05run-") as d:
        specs = []
        for n, (mode, items) in enumerate(jobs):
            root = os.path.join(d, f"j{n}")
            os.makedirs(root)
            jf = os.path.join(root, "job.json")
            with open(jf, "w") as fh:
                json.dump({"mode": mode, "root": root, "items": items, "out": os.path.join(root, "out.json")}, fh)
            specs.append((mode, jf, os.path.join(root, "out.json")))

        def one(sp):
            mode, jf, of = sp
            cp = subprocess.run([sys.executable, "-W", "ignore", "-m", "verifkit.drivers.c05", "--child", jf],
                                capture_output=True, text=True, env=dict(os.environ))
            if cp.returncode != 0 or not os.path.exists(of):
                return mode, None, (cp.stderr or cp.stdout)[-2000:]
            return mode, json.load(open(of)), None

        with ThreadPoolExecutor(procs) as ex:
            for mode, obs, err in ex.map(one, specs):
                if err is not None:
                    raise RuntimeError(f"child interpreter ({mode}) failed: {err}")
                for ob in obs:
                    out[(mode, ob["id"])] = ob
    return out



# =============================================================================== models (R1)
def _tla_set(xs):
    return "{" + ", ".join('"%s"' % x for x in xs) + "}"


def _cfg(d, name, slice_, n, depth, legacy=(), mutant=(), emit=False, invs=INVS, given=False):
    from verifkit.util import write_file
    txt = (f'CONSTANTS Slice = "{slice_}" MaxNodes = {n} MaxDepth = {depth} Legacy = {_tla_set(legacy)} '
           f'Mutant = {_tla_set(mutant)} Emit = {"TRUE" if emit else "FALSE"}\n'
           + ("CONSTANT Given <- GivenDef\n" if given else "CONSTANT Given = {}\n")
           + "INIT Init\nNEXT Next\n" + "".join(f"INVARIANT {i}\n" for i in invs))
    return write_file(d, name + ".cfg", txt)


EMIT_INVS = ["TypeOK", "LinePreserved", "ImportPlaced", "ChecksWellPlaced", "ScopeBalanced"]


def slices_of(tier):
    if tier == "quick":
        return {"scope": (5, 4), "kinds": (3, 3), "deco": (3, 3), "prefix": (4, 2)}
    return {"scope": (6, 4), "kinds": (3, 3), "kinds4": (4, 3), "deco": (4, 3), "prefix": (5, 3)}


def intended_of(tier):
    """Bounds of the intended-design runs (self-consistency of the spec: Walk = Rule etc.)."""
    if tier == "quick":
        return {"scope": (4, 4), "kinds": (2, 3), "deco": (3, 3), "prefix": (4, 2)}
    return dict(slices_of(tier), scope=(5, 4))


def rows_of(res):
    return [x for x in res.printed if isinstance(x, dict) and "prog" in x]


def _jvm(threads):
    return {"JAVA_TOOL_OPTIONS": f"-XX:ParallelGCThreads={threads} -XX:CICompilerCount=2"}


def run_models(rep, tier, d):
    """All TLC runs of one tier, concurrently.  Returns the case-table rows (from the Legacy runs)."""
    from verifkit import tlc
    sl = slices_of(tier)
    isl = intended_of(tier)
    futs = {}
    with ThreadPoolExecutor(8) as ex:
        for name, (n, depth) in sl.items():
            ni, di = isl[name]
            futs[("intended", name)] = ex.submit(
                tlc.run_tlc, SPEC, _cfg(d, f"i_{name}", name, ni, di), workers=8 if tier == "thorough" else 4, deadlock=False,
                heap="8g" if tier == "thorough" else "4g", env=_jvm(4), keep_output=False, timeout=5400)
            big = tier == "thorough" and name in ("scope", "kinds4", "deco")
            futs[("rows", name)] = ex.submit(
                tlc.run_tlc, SPEC, _cfg(d, f"r_{name}", name, n, depth, legacy=LEGACY, emit=True, invs=EMIT_INVS),
                workers=8 if big else 4, deadlock=False, heap="8g" if big else "4g", env=_jvm(4), keep_output=False,
                timeout=5400)
        for cname, cn, cd in COVERAGE_RUNS:
            futs[("coverage", cname)] = ex.submit(
                tlc.run_tlc, SPEC, _cfg(d, f"c_{cname}", cname, cn, cd), workers=1, coverage=True, deadlock=False,
                heap="512m", env=_jvm(1))
        for mu, (name, n, depth) in MUTANTS.items():
            futs[("mutant", mu)] = ex.submit(
                tlc.run_tlc, SPEC, _cfg(d, f"m_{mu}", name, n, depth, mutant=[mu]), workers=1, deadlock=False,
                heap="512m", env=_jvm(1))
        for lg, (name, n, depth, _inv) in LEGACY_DEMO.items():
            futs[("legacy", lg)] = ex.submit(
                tlc.run_tlc, SPEC, _cfg(d, f"l_{lg}", name, n, depth, legacy=[lg]), workers=1, deadlock=False,
                heap="512m", env=_jvm(1))
        res = {k: f.result() for k, f in futs.items()}
    rep.note("TLC wall per run: " + ", ".join(f"{k[0]}:{k[1]}={v.wall_s:.0f}s/{v.distinct}" for k, v in res.items()))
    cov = {}
    rows = []
    for name in sl:
        a, b = res[("intended", name)], res[("rows", name)]
        rep.tlc(a, f"ClawAst slice {name} {isl[name]}: intended design, all invariants")
        rep.tlc(b, f"ClawAst slice {name} {sl[name]}: 0.23.0 deviations (Legacy), case table emitted")
        if not a.ok:
            rep.machinery(f"ClawAst.tla (intended design, slice {name}) violates {a.violated}: the specification is wrong")
        if not b.ok:
            rep.machinery(f"ClawAst.tla (Legacy, slice {name}) violates structural invariant {b.violated}")
        rs = rows_of(b)
        if not rs or len({row_key(r) for r in rs}) != len(rs):
            rep.machinery(f"slice {name}: {len(rs)} rows emitted, not one per (program, configuration)")
        rows += rs
    for cname, _cn, _cd in COVERAGE_RUNS:
        c = res[("coverage", cname)]
        rep.tlc(c, f"ClawAst slice {cname}: action coverage")
        if not c.ok:
            rep.machinery(f"ClawAst.tla (coverage run {cname}) violates {c.violated}")
        for act, (dd, tt) in c.coverage.items():
            cov[act] = cov.get(act, 0) + tt
    zero = [x for x in ACTIONS if not cov.get(x)]
    if zero:
        rep.machinery(f"vacuous TLC runs: actions never taken: {zero}")
    for mu in MUTANTS:
        r = res[("mutant", mu)]
        rep.tlc(r, f"spec mutant {mu}")
        if r.ok or not r.violated:
            rep.machinery(f"spec mutant {mu} is not rejected by TLC")
        rep.add("spec_mutants_killed")
    for lg, (_n, _a, _b, inv) in LEGACY_DEMO.items():
        r = res[("legacy", lg)]
        rep.tlc(r, f"named deviation {lg} alone")
        if r.ok or not r.violated:
            rep.machinery(f"the named 0.23.0 deviation {lg} does not violate any invariant of the model")
        rep.add("legacy_deviations_rejected_by_model")
        rep.note(f"model: deviation {lg} violates {r.violated}")
    return rows


# =============================================================================== SHAPE over rows
_SEED = 0


def row_key(row):
    return json.dumps([row["prog"], row["conf"]], sort_keys=True)


def form_seed(ri):
    return _SEED + ri


def _shape_chunk(chunk):
    """chunk: (seed, [(row index, row)]) -> [(row index, real edits, problems)]"""
    global _SEED
    _SEED, pairs = chunk
    out = []
    for ri, row in pairs:
        m = render(row["prog"], uid=ri, seed=form_seed(ri))
        try:
            sd = shape(m.src, m.node_at_line, real_conf(row["conf"]))
            out.append((ri, sd.edits, sd.problems))
        except Exception as ex:       # noqa
            out.append((ri, None, [f"transformer raised {type(ex).__name__}: {ex}"]))
    return out


def classify_shape(prog, real, rule):
    """Violation keys for a difference between real and expected edit sets (projected, no reeval)."""
    keys = []
    for e in sorted(rule - real):
        twin = [x for x in real if x[0] == e[0] and x[1] == e[1]]
        if twin:
            t = twin[0]
            what = [f for f, a, b in zip(("pos", "line", "conf"), e[2:], t[2:]) if a != b]
            keys.append(({"obs": "shape", "diff": "differs:" + "+".join(what), "edit": e[0], "at": node_class(prog, e[1])},
                         f"expected {e}, transformer produced {t}"))
        else:
            keys.append(({"obs": "shape", "diff": "missing", "edit": e[0], "at": node_class(prog, e[1])},
                         f"expected edit {e} is missing"))
    for e in sorted(real - rule):
        if any(x[0] == e[0] and x[1] == e[1] for x in rule):
            continue
        keys.append(({"obs": "shape", "diff": "extra", "edit": e[0], "at": node_class(prog, max(e[1], 0))},
                     f"transformer produced {e}, which the rule does not demand"))
    return keys


def _problem_key(p):
    """Canonical class of a SHAPE problem: the message without positions."""
    import re
    return re.sub(r"\d+", "N", p.split(" at line")[0].split(" (line")[0])[:90]


def compare_ends(real_edits, rule_edits):
    """End anchors of inserted nodes (which end point of the host their end line / column come from) against
    the spec's.  Returns (violations, drift): a mixed or foreign pair is not a position of the host."""
    want = {(e["kind"], e["at"]): (e["eline"], e["ecol"]) for e in rule_edits}
    bad, drift = [], []
    for e in real_edits:
        w = want.get((e["kind"], e["at"]))
        got = (e.get("eline"), e.get("ecol"))
        if w is None or got == w:
            continue
        if got[0] != got[1] or "other" in got:
            bad.append(({"obs": "shape", "diff": "differs:end", "edit": e["kind"], "end_line_from": got[0],
                         "end_column_from": got[1]},
                        f"the inserted {e['kind']} node takes its end line from the host's {got[0]} and its end column "
                        f"from the host's {got[1]}; the specification says {w}"))
        else:
            drift.append(f"inserted {e['kind']} node ends at the host's {got[0]}, the model says {w[0]}")
    return bad, drift


def describe_row(row, ri=0, bad=()):
    return render(row["prog"], bad=bad, uid=ri, seed=form_seed(ri)).src


class Findings:
    """Violations by canonical key: count + first example (reported once per key)."""

    def __init__(self):
        self.by_key = {}

    def add(self, key, what, case):
        ck = json.dumps(key, sort_keys=True)
        if ck not in self.by_key:
            self.by_key[ck] = [key, what, case, 0]
        self.by_key[ck][3] += 1

    def report(self, rep):
        for ck in sorted(self.by_key):
            key, what, case, n = self.by_key[ck]
            rep.violation(key, f"{what}  [{n} case(s) of this class]", case)


def do_shape(rep, rows, finds, pool, sel=None):
    idx = list(range(len(rows))) if sel is None else sel
    n = len(idx)
    step = max(1, min(400, n // 64 + 1))
    chunks = [(_SEED, [(ri, {"prog": rows[ri]["prog"], "conf": rows[ri]["conf"]}) for ri in idx[a:a + step]])
              for a in range(0, n, step)]
    res = pool.map(_shape_chunk, chunks, chunksize=1) if pool else [_shape_chunk(c) for c in chunks]
    agree = n_ml = n_tight = 0
    for chunk in res:
        for ri, edits, problems in chunk:
            row = rows[ri]
            prog = row["prog"]
            case = {"kind": "row", "row": row, "ri": ri}
            rep.count(1)
            for p in problems:
                finds.add({"obs": "shape", "diff": "problem", "what": _problem_key(p)},
                          f"{p}\n{describe_row(row, ri)}", case)
            if edits is None:
                continue
            real = edit_set(edits, False)
            rule = edit_set(row["rule"], False)
            bad_ends, drift = compare_ends(edits, row["rule"])
            n_ml += sum(1 for e in edits if e.get("host", (0, 0))[0])
            n_tight += sum(1 for e in edits if e.get("host", (0, 0))[1])
            for key, what in bad_ends:
                finds.add(key, f"SHAPE conf={row['conf']}: {what}\n{describe_row(row, ri)}", case)
            for dmsg in drift:
                rep.spec_drift(dmsg)
            if real == rule:
                agree += 1
            else:
                for key, what in classify_shape(prog, real, rule):
                    finds.add(key, f"SHAPE conf={row['conf']}: {what}\n{describe_row(row, ri)}", case)
            if real != rule and edit_set(edits, True) != edit_set(row["walk"], True):
                real_r, walk_r = edit_set(edits, True), edit_set(row["walk"], True)
                for key, what in classify_shape(prog, {e[:5] for e in real_r}, {e[:5] for e in walk_r}) or \
                        [({"diff": "reeval"}, f"{sorted(real_r ^ walk_r)}")]:
                    key = dict(key, obs="shape-vs-0.23.0-model")
                    finds.add(key, f"SHAPE: the transformer differs from the rule AND from the model of the known "
                                   f"0.23.0 deviations: {what}\n{describe_row(row, ri)}", case)
            if len(row["rule"]) > 1:
                rep.nontrivial(row_key(row))
    rep.add("shape_rows", n)
    rep.add("inserted_nodes_with_multiline_host", n_ml)
    rep.add("inserted_nodes_whose_host_ends_left_of_its_start_column", n_tight)
    rep.add("shape_rows_equal_to_rule", agree)
    return agree


# =============================================================================== MEANING over rows
def variants_of(meta, cap=None):
    sites = sorted(meta.sites)
    vs = [("G", [])] + [(f"S{i}", [i]) for i in sites]
    if len(sites) >= 2:
        vs.append(("A", sites))
    if cap is not None and len(vs) > cap:
        vs = [vs[0]] + vs[1:cap - 1] + [vs[-1]]
    return vs


def _erase(x):
    """Snapshot without the 'is a beartype wrapper' flags (for hooked vs unhooked)."""
    if isinstance(x, list) and x and x[0] == "func":
        return ["func"]
    if isinstance(x, list):
        return [_erase(y) for y in x]
    if isinstance(x, dict):
        return {k: _erase(v) for k, v in x.items()}
    return x


def build_meaning_items(rows, sel, cap):
    """Items per mode for the selected row indices."""
    items = {"unhooked": [], "hooked": [], "reference": []}
    plan = []
    for ri in sel:
        row = rows[ri]
        prog = row["prog"]
        base = render(prog, uid=ri, seed=form_seed(ri))
        legacy_differs = edit_set(row["walk"], False) != edit_set(row["rule"], False)
        for vname, bad in variants_of(base, cap):
            m = render(prog, bad=bad, uid=ri, seed=form_seed(ri))
            r = render(prog, bad=bad, uid=ri, seed=form_seed(ri), edits=row["rule"], orig=m)
            iid = f"{ri}.{vname}"
            it = {"id": iid, "mod": f"m{ri}_{vname}", "conf": row["conf"]}
            items["hooked"].append(dict(it, src=m.src))
            items["reference"].append(dict(it, src=r.src))
            r2 = None
            if legacy_differs:
                r2 = render(prog, bad=bad, uid=ri, seed=form_seed(ri), edits=row["walk"], orig=m)
                items["reference"].append(dict(it, id=iid + ".L", mod=f"m{ri}_{vname}_L", src=r2.src))
            unh = vname != "A"
            if unh:
                items["unhooked"].append(dict(it, src=m.src))
            plan.append((ri, vname, bad, m, r, r2, unh))
    return items, plan


def batches(items, size):
    jobs = []
    for mode, its in items.items():
        for a in range(0, len(its), size):
            jobs.append((mode, its[a:a + size]))
    return jobs


def _where(prog, meta, line):
    if line is None:
        return {"node": "-"}
    n = meta.node_at_line.get(line, meta.aux_at_line.get(line))
    return node_class(prog, n) if n else {"node": "?"}


def _first_diff(a, b):
    for k in range(max(len(a), len(b))):
        x = a[k] if k < len(a) else None
        y = b[k] if k < len(b) else None
        if x != y:
            # prefer the event one side lacks
            if y is not None and a.count(y) < b.count(y):
                return y
            return x if x is not None else y
    return None


def _cmp_byhand(h, r, refmeta, meta):
    """First differing field between the hooked execution and a by-hand reference: (field, text, node)."""
    rl = refmeta.refmap.get(r["line"]) if r["line"] is not None else None

    def at(line):
        return meta.node_at_line.get(line, meta.aux_at_line.get(line)) if line is not None else None
    if h["exc"] != r["exc"]:
        return ("exception", f"hooked raised {h['exc']} ({h['msg']}), by-hand reference raised {r['exc']} ({r['msg']})",
                at(rl if r["exc"] else h["line"]))
    if h["line"] != rl:
        return ("line", f"hooked traceback line {h['line']}, by-hand reference line {rl} (reference file line {r['line']})",
                at(rl if rl is not None else h["line"]))
    if h["out"] != r["out"]:
        k = _first_diff(h["out"], r["out"])
        return "stdout", f"evaluation order/count: hooked {h['out']}, by-hand {r['out']}", int(k.split(".")[0])
    if h["snap"] != r["snap"]:
        return "snapshot", f"globals: hooked {h['snap']}, by-hand {r['snap']}", None
    if h["log"] != r["log"]:
        k = _first_diff(h["log"], r["log"])
        nd = int(k[0].split(".")[0]) if k and k[0] != "h" else None
        return "decorator-order", f"decorator application log: hooked {h['log']}, by-hand {r['log']}", nd
    return None


def compare_meaning(rep, rows, plan, obs, finds):
    n_equal = 0
    for ri, vname, bad, m, r, r2, unh in plan:
        row = rows[ri]
        prog = row["prog"]
        iid = f"{ri}.{vname}"
        h = obs[("hooked", iid)]
        rr = obs[("reference", iid)]
        case = {"kind": "row", "row": row, "ri": ri, "variant": vname}
        rep.count(1)
        src = f"\n--- module (bad sites {bad}) conf={row['conf']}:\n{m.src}"
        # the reference itself must be a sane program
        if rr["exc"] is not None and not rr["exc"].startswith("Beartype"):
            rep.machinery(f"the by-hand reference of row {ri} raised {rr['exc']}: {rr['msg']}\n{r.src}")
        d = _cmp_byhand(h, rr, r, m)
        if d is None:
            n_equal += 1
        else:
            key = {"obs": "meaning", "cmp": "hooked-vs-byhand", "field": d[0],
                   "at": node_class(prog, d[2]) if d[2] else {"node": "-"}}
            finds.add(key, f"MEANING: hooked module differs from the by-hand module written from the rule: {d[1]}{src}"
                           f"--- by-hand reference:\n{r.src}", case)
        if r2 is not None:
            d2 = _cmp_byhand(h, obs[("reference", iid + ".L")], r2, m)
        else:
            d2 = d
        if d is not None and d2 is not None:
            key = {"obs": "meaning-vs-0.23.0-model", "field": d2[0]}
            finds.add(key, f"MEANING: hooked module differs from the by-hand module of the rule AND of the model of "
                           f"the known 0.23.0 deviations: {d2[1]}{src}", case)
        # evaluation counts
        er = {(e["at"], e["part"]): e for e in row["evalRule"]}
        ew = {(e["at"], e["part"]): e for e in row["evalWalk"]}
        complete = h["exc"] is None
        for ckey, (node, part) in m.counters.items():
            got = h["counters"].get(ckey, 0)
            want, legacy = er[(node, part)], ew[(node, part)]
            over = got > want["n"]
            under = complete and got < want["n"] and want["py"] == 1
            if over or under:
                nd = prog[node - 1]
                near, _ = scope_class(prog, node)
                if part == "ann" and nd["k"] == "ann":
                    key = {"obs": "evalcount", "expr": "annotation of an annotated assignment", "nearest_scope": near,
                           "count": got}
                elif part == "base":
                    key = {"obs": "evalcount", "expr": "target base that is not a name", "target": nd["tgt"], "count": got}
                else:
                    key = {"obs": "evalcount", "expr": part, "node": nd["k"], "count": got}
                finds.add(key, f"EVALCOUNT: original expression {ckey} evaluated {got} time(s) under the hook, the "
                               f"property demands {want['n']} (plain Python: {want['py']}){src}", case)
            if (over or under) and got != legacy["n"]:
                finds.add({"obs": "evalcount-vs-0.23.0-model", "expr": part},
                          f"EVALCOUNT: {ckey} evaluated {got} time(s); rule {want['n']}, model of 0.23.0 {legacy['n']}{src}",
                          case)
        # hooked == unhooked where nothing violates
        if unh and rr["exc"] is None and h["exc"] is None:
            u = obs[("unhooked", iid)]
            if u["exc"] is not None:
                rep.machinery(f"the unhooked module of row {ri} raised {u['exc']}: {u['msg']}\n{m.src}")
            local_ann = {f"{e['at']}.ann" for e in row["evalRule"] if e["part"] == "ann" and e["py"] == 0}

            def flt(seq):
                seen, out = set(), []
                for k in seq:
                    if k in local_ann or k in seen:
                        continue
                    seen.add(k)
                    out.append(k)
                return out
            diff = None
            if flt(h["out"]) != flt(u["out"]):
                diff = ("stdout", f"hooked {h['out']}, unhooked {u['out']}")
            elif _erase(h["snap"]) != _erase(u["snap"]):
                diff = ("snapshot", f"hooked {h['snap']}, unhooked {u['snap']}")
            elif [x[0] for x in h["log"]] != [x[0] for x in u["log"]]:
                diff = ("decorator-order", f"hooked {h['log']}, unhooked {u['log']}")
            if diff:
                finds.add({"obs": "meaning", "cmp": "hooked-vs-unhooked", "field": diff[0]},
                          f"MEANING: no hint is violated, yet the hooked module differs from the unhooked one: {diff[1]}{src}",
                          case)
            rep.add("hooked_vs_unhooked_compared")
    rep.add("meaning_executions_compared", len(plan))
    rep.add("meaning_hooked_equal_byhand", n_equal)


def do_meaning(rep, rows, sel, finds, cap, batch=250):
    items, plan = build_meaning_items(rows, sel, cap)
    obs = run_children(batches(items, batch))
    compare_meaning(rep, rows, plan, obs, finds)
    n_raise = sum(1 for (mode, _), ob in obs.items() if mode == "hooked" and ob["exc"])
    rep.add("hooked_imports", len(items["hooked"]))
    rep.add("hooked_imports_raising_a_violation", n_raise)
    if plan and not n_raise:
        rep.machinery("vacuous MEANING run: no hooked import ever raised a violation")
    return obs


# =============================================================================== RESILIENCE
def covered(row, i):
    """Is function i type-checked according to the spec's edit set (own decoration or its class's)?"""
    decorated = {e["at"] for e in row["rule"] if e["kind"] == "decorate"}
    s = row["scope"][i - 1]
    return i in decorated or (s != 0 and row["prog"][s - 1]["k"] == "class" and s in decorated)


def do_resilience(rep, rows, sel, finds, batch=250):
    items, plan = [], []
    for ri in sel:
        row = rows[ri]
        prog = row["prog"]
        funcs = [i for i, n in enumerate(prog, 1) if n["k"] == "func" and n["ann"]]
        kids = tree_of(prog)

        def has_func(j):
            return any(prog[c - 1]["k"] == "func" or has_func(c) for c in kids[j])
        inner = [i for i in funcs if not has_func(i)]     # outer functions must run to define the nested ones
        for p in funcs:
            m = render(prog, bad=inner, uid=ri, seed=form_seed(ri), poison=[p])
            iid = f"{ri}.P{p}"
            items.append({"id": iid, "mod": f"p{ri}_{p}", "conf": row["conf"], "src": m.src, "catch": True})
            plan.append((ri, p, inner, m, iid))
    obs = run_children(batches({"hooked": items}, batch))
    n_warn = 0
    for ri, p, funcs, m, iid in plan:
        row = rows[ri]
        prog = row["prog"]
        h = obs[("hooked", iid)]
        case = {"kind": "resilience", "row": row, "ri": ri, "poison": p}
        src = f"\n--- module (definition f{p} has the unusable hint 42) conf={row['conf']}:\n{m.src}"
        rep.count(1)
        at = node_class(prog, p)
        if h["exc"] is not None:
            finds.add({"obs": "resilience", "what": "import broken", "at": at},
                      f"RESILIENCE: the import raised {h['exc']}: {h['msg']}{src}", case)
            continue
        warns = [w for w in h["warns"] if w[0] == "BeartypeClawDecorWarning"]
        other = [w for w in h["warns"] if w[0] != "BeartypeClawDecorWarning"]
        # a definition reached by several decorations (its own class and an enclosing class that beartype
        # decorates recursively) may be reported more than once: at least one warning iff it is covered
        want = covered(row, p)
        n_warn += len(warns)
        if bool(warns) != want or other:
            finds.add({"obs": "resilience", "what": "warnings", "at": at, "got": min(len(warns), 1), "want": int(want)},
                      f"RESILIENCE: {len(warns)} BeartypeClawDecorWarning (+{other}) emitted, expected "
                      f"{'at least one' if want else 'none'}{src}", case)
        log = dict((a, b) for a, b in h["sitelog"])
        for i in sorted(set(funcs) | {p}):
            got = log.get(f"f{i}", "never called")
            if got == "never called":
                finds.add({"obs": "resilience", "what": "definition not reached", "poisoned": at},
                          f"RESILIENCE: f{i} was never reached (an enclosing definition failed){src}", case)
                continue
            if i == p:
                if got is not None:
                    finds.add({"obs": "resilience", "what": "poisoned definition not left unchecked", "at": at},
                              f"RESILIENCE: calling the undecoratable f{p} gave {got}{src}", case)
            else:
                exp = covered(row, i)
                ok = (got is not None and got != "never called" and got.startswith("BeartypeCallHint")) if exp else got is None
                if not ok:
                    finds.add({"obs": "resilience", "what": "sibling definition", "sibling": node_class(prog, i),
                               "poisoned": at, "checked": bool(got)},
                              f"RESILIENCE: sibling f{i} called with a bad value gave {got}, the spec's edit set says "
                              f"{'checked' if exp else 'unchecked'}{src}", case)
    rep.add("resilience_programs", len(plan))
    rep.add("resilience_warnings_seen", n_warn)
    if plan and not n_warn:
        rep.machinery("vacuous RESILIENCE run: no BeartypeClawDecorWarning was ever emitted")


# =============================================================================== R3: the repository's data packages
_BLOCKS = {"If": "if", "For": "for", "AsyncFor": "for", "While": "while", "Try": "try", "TryStar": "try",
           "With": "with", "AsyncWith": "with", "Match": "match"}


def _typed(fn):
    a = fn.args
    every = a.posonlyargs + a.args + a.kwonlyargs + [x for x in (a.vararg, a.kwarg) if x]
    return bool(fn.returns) or any(x.annotation for x in every)


def abstract_module(tree):
    """Real module AST -> (spec tree in preorder, statement line -> node).  None if outside the grammar."""
    prog, nal = [], {}

    def node(k, d, **kw):
        n = {"k": k, "ann": False, "asy": False, "decs": [], "tgt": "-", "val": False, "bk": "-", "d": d}
        n.update(kw)
        prog.append(n)
        return len(prog)

    def walk(stmts, d, module_prefix=False):
        prefix = module_prefix
        for s in stmts:
            t = type(s).__name__
            if t == "TypeAlias":
                raise NotImplementedError("PEP 695 type statement")
            is_doc = isinstance(s, ast.Expr) and isinstance(s.value, ast.Constant)
            is_fut = isinstance(s, ast.ImportFrom) and s.module == "__future__"
            if prefix and (is_doc or is_fut):
                i = node("doc" if is_doc else "future", d)
            else:
                prefix = False
                if isinstance(s, (ast.FunctionDef, ast.AsyncFunctionDef)):
                    i = node("func", d, ann=_typed(s), asy=isinstance(s, ast.AsyncFunctionDef),
                             decs=["p"] * len(s.decorator_list))
                    walk(s.body, d + 1)
                elif isinstance(s, ast.ClassDef):
                    i = node("class", d, decs=["p"] * len(s.decorator_list))
                    walk(s.body, d + 1)
                elif isinstance(s, ast.AnnAssign):
                    tg = s.target
                    kind = "name" if isinstance(tg, ast.Name) else "subscript" if isinstance(tg, ast.Subscript) else \
                        ("attr" if isinstance(tg.value, ast.Name) else "attrcall")
                    i = node("ann", d, tgt=kind, val=s.value is not None)
                elif t in _BLOCKS:
                    i = node("block", d, bk=_BLOCKS[t])
                    sub = []
                    for f in ("body", "orelse", "finalbody"):
                        sub += getattr(s, f, [])
                    for hd in getattr(s, "handlers", []):
                        sub += hd.body
                    for cs in getattr(s, "cases", []):
                        sub += cs.body
                    sub.sort(key=lambda x: (x.lineno, x.col_offset))
                    walk(sub, d + 1)
                elif isinstance(s, (ast.Import, ast.ImportFrom)):
                    i = node("import", d)
                elif isinstance(s, ast.Pass):
                    i = node("pass", d)
                else:
                    i = node("expr", d)
            if s.lineno in nal:
                raise NotImplementedError("two statements on one line")
            nal[s.lineno] = i
    walk(tree.body, 1, module_prefix=True)
    return prog, nal


def _tla_node(n):
    decs = "<<" + ", ".join('"%s"' % x for x in n["decs"]) + ">>"
    b = lambda x: "TRUE" if x else "FALSE"      # noqa
    return (f'[k |-> "{n["k"]}", ann |-> {b(n["ann"])}, asy |-> {b(n["asy"])}, decs |-> {decs}, tgt |-> "{n["tgt"]}", '
            f'val |-> {b(n["val"])}, bk |-> "{n["bk"]}", d |-> {n["d"]}]')


def data_files():
    root = os.path.join(_repo(), DATA_DIR)
    out = []
    for dp, _dn, fns in sorted(os.walk(root)):
        for fn in sorted(fns):
            if fn.endswith(".py"):
                out.append(os.path.join(dp, fn))
    return out


def do_given(rep, d, finds, only=None):
    progs = {}
    skipped = []
    for path in data_files():
        if only is not None and os.path.relpath(path, _repo()) != only:
            continue
        src = open(path, encoding="utf-8").read()
        try:
            tree = ast.parse(src)
            prog, nal = abstract_module(tree)
        except (NotImplementedError, SyntaxError) as ex:
            skipped.append(f"{os.path.relpath(path, _repo())}: {ex}")
            continue
        progs.setdefault(json.dumps(prog, sort_keys=True), []).append((path, src, nal, prog))
    rows = tlc_rows_for(rep, d, [json.loads(k) for k in sorted(progs)], "given", f"abstracted from {DATA_DIR}")
    seen = 0
    for row in rows:
        for path, src, nal, prog in progs.get(json.dumps(row["prog"], sort_keys=True), []):
            rel = os.path.relpath(path, _repo())
            modname = rel[:-3].replace("/", ".")
            case = {"kind": "given", "file": rel, "conf": row["conf"]}
            try:
                sd = shape(src, nal, real_conf(row["conf"]), modname=modname, path=path)
            except Exception as ex:       # noqa
                finds.add({"obs": "shape", "diff": "problem", "what": f"transformer raised {type(ex).__name__}"},
                          f"{rel}: {ex}", case)
                continue
            seen += 1
            rep.count(1)
            for p in sd.problems:
                finds.add({"obs": "shape", "diff": "problem", "what": _problem_key(p)},
                          f"{rel}: {p}", case)
            real, rule = edit_set(sd.edits, False), edit_set(row["rule"], False)
            for key, what in compare_ends(sd.edits, row["rule"])[0]:
                finds.add(key, f"SHAPE {rel} conf={row['conf']}: {what}", case)
            rep.add("inserted_nodes_with_multiline_host", sd.multiline_hosts)
            if real != rule:
                for key, what in classify_shape(prog, real, rule):
                    finds.add(key, f"SHAPE {rel} conf={row['conf']}: {what}", case)
            if real != rule and edit_set(sd.edits, True) != edit_set(row["walk"], True):
                finds.add({"obs": "shape-vs-0.23.0-model", "file": rel},
                          f"SHAPE {rel}: {sorted(edit_set(sd.edits, True) ^ edit_set(row['walk'], True))}", case)
            rep.add("traces_validated_against_impl")
    if seen < 3 * len(progs):
        rep.machinery(f"only {seen} of {3 * len(progs)} (data module, configuration) pairs were replayed")
    rep.add("data_modules_replayed", sum(len(v) for v in progs.values()))
    for s in skipped:
        rep.assumptions.append(f"data module outside the spec grammar, not replayed: {s}")
    return rows


# =============================================================================== entry points
ASSUMPTIONS = [
    "Annotation expressions of function-local annotated assignments are resolvable: plain Python never evaluates "
    "them (PEP 526), the hook evaluates them once; their counters are excluded from hooked == unhooked.",
    "Generated __future__ imports are 'division' (a no-op feature); 'from __future__ import annotations' is not generated.",
    "The hostile decorator is langchain_core.runnables.chain (in the default beforelist) provided by a scratch package.",
    "Violation classes are compared by name; messages (exception_prefix wording) are not compared.",
    "A module-level annotated assignment whose hint beartype cannot handle raises under the hook exactly as the "
    "by-hand die_if_unbearable call does; the resilience clause is read as being about function and class definitions.",
]


# slice -> (MEANING for every program up to this size, sampling probability above it)
MEANING_PLAN = {
    "quick": {"scope": (4, 0.06), "kinds": (2, 0.3), "deco": (2, 0.4), "prefix": (4, 1.0)},
    "thorough": {"scope": (4, 0.0), "kinds": (2, 0.5), "kinds4": (3, 0.05), "deco": (3, 0.03), "prefix": (4, 0.3)},
}
# sampling probability by size for the deep scope slice of the thorough tier
SCOPE_THOROUGH = {5: 0.25, 6: 0.03}


def select_rows(rows, tier, rng):
    """Row indices for MEANING (hookable configurations only) and RESILIENCE."""
    meaning, resil = [], []
    for ri, row in enumerate(rows):
        if not row["conf"]["other"]:
            continue
        n = len(row["prog"])
        sl = row["slice"]
        full, prob = MEANING_PLAN[tier].get(sl, (3, 0.1))
        if tier == "thorough" and sl == "scope":
            prob = SCOPE_THOROUGH.get(n, 0.0)
        if n <= full or rng.random() < prob:
            meaning.append(ri)
        if sl == "scope" and row["conf"]["pep"] and n <= (3 if tier == "quick" else 4) \
                and edit_set(row["walk"], False) == edit_set(row["rule"], False) \
                and any(x["k"] == "func" and x["ann"] for x in row["prog"]):
            resil.append(ri)
    return meaning, resil


def run(rep, tier, seed):
    global _SEED
    import multiprocessing as mp
    from verifkit.util import scratch
    _SEED = seed
    rng = random.Random(seed)
    rep.assumptions.extend(ASSUMPTIONS)
    finds = Findings()
    with scratch("c05-") as d, mp.get_context("fork").Pool(16) as pool:    # forked while the parent is small
        t0 = time.time()
        rows = run_models(rep, tier, d)
        rep.note(f"TLC: {len(rows)} (program, configuration) rows in {time.time() - t0:.0f}s")
        meaning, resil = select_rows(rows, tier, rng)
        t1 = time.time()
        do_shape(rep, rows, finds, pool)
        rep.note(f"SHAPE: {len(rows)} rows in {time.time() - t1:.0f}s")
        t2 = time.time()
        do_meaning(rep, rows, meaning, finds, cap=6 if tier == "quick" else 8)
        rep.note(f"MEANING: {len(meaning)} programs in {time.time() - t2:.0f}s")
        t3 = time.time()
        do_resilience(rep, rows, resil, finds)
        rep.note(f"RESILIENCE: {len(resil)} programs in {time.time() - t3:.0f}s")
        do_given(rep, d, finds)
    # non-vacuity of the binding
    by_slice = {}
    for r in rows:
        by_slice[r["slice"]] = by_slice.get(r["slice"], 0) + 1
    rep.cov["rows_by_slice"] = by_slice
    if not rep.cov.get("inserted_nodes_whose_host_ends_left_of_its_start_column"):
        rep.machinery("vacuous SHAPE run: no instrumented statement spans several lines and ends left of its start column")
    kinds = {e["kind"] for r in rows for e in r["rule"]}
    if kinds != {"import", "decorate", "check"}:
        rep.machinery(f"vacuous case table: edit kinds {kinds}")
    mid = rows[len(rows) // 2]
    rep.sample({"program": describe_row(mid, len(rows) // 2), "conf": mid["conf"], "rule_edits": mid["rule"]})
    for r in rows[:: max(1, len(rows) // 5)][:5]:
        rep.sample({"program": describe_row(r), "conf": r["conf"], "rule_edits": r["rule"]})
    rep.cov["rule"] = ("cases = rows of the TLC case table of ClawAst.tla: every module tree of the bounded grammars "
                       "(slices scope / kinds / deco / prefix) x configuration, each rendered to source and run through "
                       "the real transformer (all rows) and through unhooked / hooked / by-hand interpreters (hookable "
                       "configurations; all small trees, a seeded sample of the largest size) with one variant per "
                       "good/bad value assignment; distinct = distinct (tree, configuration); non-trivial = the Rule "
                       "demands at least one decorator or check besides the import")
    rep.cov["exhaustive"] = False
    finds.report(rep)


def tlc_rows_for(rep, d, progs, slice_="replay", label="replay"):
    """Let TLC compute the rows (Rule and Legacy walk) of explicitly given trees."""
    from verifkit import tlc
    from verifkit.util import write_file
    body = ",\n  ".join("<<" + ", ".join(_tla_node(n) for n in pr) + ">>" for pr in progs)
    write_file(d, "ClawAstGiven.tla",
               "---- MODULE ClawAstGiven ----\nEXTENDS ClawAst\nGivenDef == {\n  " + body + "\n}\n====\n")
    cfg = _cfg(d, "given_" + slice_, slice_, 1, 1, legacy=LEGACY, emit=True, invs=EMIT_INVS, given=True)
    res = tlc.run_tlc(os.path.join(d, "ClawAstGiven.tla"), cfg, workers=4, deadlock=False, env=_jvm(2))
    rep.tlc(res, f"ClawAst slice {slice_}: {len(progs)} given tree(s) ({label})")
    if not res.ok:
        rep.machinery(f"ClawAst.tla violates {res.violated} on a given tree ({label})")
    return rows_of(res)


def replay(rep, path):
    """Re-run one reported case.  The expected edit sets are recomputed by TLC from the stored tree."""
    global _SEED
    body = json.load(open(path))
    case = body["case"]
    _SEED = body.get("seed", 0)
    rep.assumptions.extend(ASSUMPTIONS)
    finds = Findings()
    from verifkit.util import scratch
    with scratch("c05-") as d:
        if case["kind"] == "given":
            do_given(rep, d, finds, only=case["file"])
        else:
            ri = case["ri"]
            stored = case["row"]
            fresh = [r for r in tlc_rows_for(rep, d, [stored["prog"]]) if r["conf"] == stored["conf"]]
            if len(fresh) != 1:
                rep.machinery("TLC did not recompute the row of the stored case")
            row = dict(fresh[0], slice=stored["slice"])
            if edit_set(row["rule"]) != edit_set(stored["rule"]):
                rep.note("the specification now computes a different edit set than when the case was recorded")
            rows = {ri: row}
            do_shape(rep, rows, finds, None, sel=[ri])
            if row["conf"]["other"]:
                items, plan = build_meaning_items(rows, [ri], None)
                obs = run_children(batches(items, 250))
                compare_meaning(rep, rows, plan, obs, finds)
            if case["kind"] == "resilience":
                do_resilience(rep, rows, [ri], finds)
            rep.sample({"program": describe_row(row, ri), "conf": row["conf"], "rule_edits": row["rule"]})
    rep.nontrivial("replayed-case")
    rep.nontrivial("replayed-case-2")
    finds.report(rep)
    rep.note(f"replayed {case['kind']} case: {len(finds.by_key)} violation class(es), {rep.evaluations} comparison(s)")


if __name__ == "__main__":
    if len(sys.argv) == 3 and sys.argv[1] == "--child":
        sys.exit(child_main(sys.argv[2]))
