"""C11 — only beartype's own exceptions for bad hints; user exceptions pass through.

R1  TLC checks Outcomes.tla: the outcome automaton of the public API (guards, the
    memoisation fallback, the message-rewriting re-raise, the generated wrapper, the door
    functions) over the exception/warning forest *extracted from the working tree's
    beartype.roar at run time* (ndjson file read by the specification through IOEnv) over
    the grammar defect x position x entry point x user raise point (quick: one case per
    attribute class the automaton distinguishes; thorough: every case).  The declarative
    taxonomy rule of the statement (``Judge``) is the invariant.  The 0.23.0 layer
    (``Legacy = {unguarded_hash}``, F6) and five wrong designs are run as spec mutants and
    must be rejected.  The same run emits the case table (all 13k cases, both tiers).
R2  every emitted case is concretised (leaf values from a seeded generator; the hint is
    built OUTSIDE the observed region and the case is skipped and counted if ``typing``
    itself refuses to build it), run on the real API in a forked interpreter, and the
    events (Begin, Enter, UserRaise, Warn, Return with the class, its MRO, identity of the
    user exception, its traceback anchor) are logged as ndjson.
R3  trace/OutcomesTrace.tla *judges* every logged Return with ``Judge`` evaluated in TLA+
    over the extracted forest (verdict rows come back from TLC; nothing is classified in
    Python) and tries to *follow* every logged history with the intended automaton; a case
    that is within the taxonomy but cannot be followed is reported as specification drift.
"""
from __future__ import annotations

import json
import os
import random
import sys
import time

from verifkit import tlc
from verifkit.util import ForkPool, fork_map, scratch, write_file

LEVEL = "model_checking"

ENTRIES = ["decorate", "call", "is_bearable", "die_if_unbearable", "TypeHint", "is_subhint"]


# ------------------------------------------------------------------ the forest (run time)
def extract_forest():
    """Class forest of beartype.roar as found in the working tree: name -> (parents, public)."""
    import inspect
    import beartype.roar as R
    import beartype.roar._roarexc as E
    import beartype.roar._roarwarn as W
    forest = {}
    for mod in (E, W):
        for n, c in vars(mod).items():
            if inspect.isclass(c) and c.__module__ == mod.__name__ and issubclass(c, BaseException):
                forest[n] = {"parents": [b.__name__ for b in c.__bases__ if b.__module__ == mod.__name__],
                             "public": (not n.startswith("_")) and getattr(R, n, None) is c,
                             "warning": issubclass(c, Warning)}
    return forest


# ------------------------------------------------------------------ concretiser (child side)
_UNIQ = [0]


def _uniq(prefix):
    _UNIQ[0] += 1
    return f"{prefix}_{os.getpid()}_{_UNIQ[0]}"


class Skip(Exception):
    """The case cannot be concretised (python/typing refuses to build the hint)."""


class UserBoom(Exception):
    """The user's own exception class."""


class _Ctx:
    """Per-case user world: one fresh user exception, the raise hook, the event log."""

    def __init__(self, case, rnd):
        self.case = case
        self.rnd = rnd
        self.events = []
        self.exc = UserBoom(f"user-{rnd.randrange(10**6)}")
        self.exc_args = self.exc.args
        self.piths = []          # objects under test (identity)
        self.reach = 0
        self.raised = 0
        self.nth = case.get("nth", 1)
        self.later = None        # deferred definition of a forward referent ("defined_later")
        self.ref_cls = None
        # nth = 2: the first reach answers "does not satisfy", which sends beartype down its error path
        # (violation description re-walks hint and object), where the second reach raises
        self.fail = self.nth >= 2

    def on_pith(self, *objs):
        return any(any(o is p for p in self.piths) for o in objs)

    def boom(self, *objs):
        """Called from a user raise point.  Raises the user's exception on the nth reach."""
        self.reach += 1
        if self.reach < self.nth:
            return
        self.raised += 1
        self.events.append({"ev": "UserRaise", "uid": 1, "on_pith": bool(self.on_pith(*objs)), "n": self.reach})
        raise self.exc


def _leaf(rnd, kind):
    if kind == "int":
        return rnd.choice([0, 1, 7, -3, 2 ** 40])
    if kind == "float":
        return rnd.choice([1.5, -0.0, 2.25, 1e300])
    if kind == "bytes":
        return rnd.choice([b"x", b"", b"int"])
    if kind == "name":
        return "NoSuch" + "".join(rnd.choice("ABCDEFGHXYZ") for _ in range(6))
    raise KeyError(kind)


def build_defect(ctx, kind, var):
    """-> the defective object D (to be put at a position) ; may raise Skip."""
    import typing as T
    import collections.abc as CA
    rnd = ctx.rnd
    k = (kind, var)
    try:
        if kind == "nonhint":
            if var == "int":
                return _leaf(rnd, "int")
            if var == "float":
                return _leaf(rnd, "float")
            if var == "bytes":
                return _leaf(rnd, "bytes")
            if var == "module":
                return rnd.choice([sys, os, json])
            if var == "instance":
                return type(_uniq("Plain"), (), {})()
            if var == "lambda":
                return lambda x: x
            if var == "bool":
                return rnd.choice([True, False])
            if var == "notimplemented":
                return NotImplemented
            if var == "typetuple":
                return (int, str)
        if kind == "unhashable":
            if var == "list":
                return rnd.choice([[], [int], [1, 2]])
            if var == "dict":
                return rnd.choice([{}, {"a": int}])
            if var == "set":
                return rnd.choice([set(), {int}])
            if var == "bytearray":
                return bytearray(b"ab")
            if var == "userobj":
                return type(_uniq("Unhash"), (), {"__hash__": None, "__eq__": lambda s, o: s is o})()
        if kind == "arity":
            if var == "dict1":
                return dict[int]
            if var == "dict3":
                return dict[int, str, bytes]
            if var == "list2":
                return list[int, str]
            if var == "tuple_mid_ellipsis":
                return tuple[int, ..., str]
            if var == "tuple_lead_ellipsis":
                return tuple[..., int]
            if var == "tuple_only_ellipsis":
                return tuple[...]
            if var == "type2":
                return type[int, str]
            if var == "callable1":
                return CA.Callable[int]
            if var == "callable3":
                return CA.Callable[[int], str, bytes]
            if var == "generator1":
                return CA.Generator[int]
            if var == "typing_dict1":
                return T.Dict[int]
            if var == "typing_callable_bad":
                return T.Callable[int, str]
            if var == "frozenset2":
                return frozenset[int, str]
            if var == "mapping1":
                return CA.Mapping[int]
            if var == "empty_tuple_args":
                return list[()]
        if kind == "unsupported":
            if var == "typeguard_param":
                return T.TypeGuard[int]
            if var == "paramspec":
                return T.ParamSpec(_uniq("P"))
            if var == "paramspec_args":
                return T.ParamSpec(_uniq("P")).args
            if var == "concatenate":
                return T.Concatenate[int, T.ParamSpec(_uniq("P"))]
            if var == "unpack":
                return T.Unpack[tuple[int, str]]
            if var == "typevartuple":
                return T.TypeVarTuple(_uniq("Ts"))
            if var == "required":
                return T.Required[int]
            if var == "classvar":
                return T.ClassVar[int]
            if var == "final":
                return T.Final[int]
            if var == "self_outside":
                return T.Self
            if var == "noreturn_param":
                return T.NoReturn
            if var == "never":
                return T.Never
            if var == "bare_generic":
                return T.Generic
            if var == "bare_protocol":
                return T.Protocol
            if var == "bare_literal":
                return T.Literal
            if var == "bare_annotated":
                return T.Annotated
            if var == "bare_union":
                return T.Union
            if var == "bare_optional":
                return T.Optional
            if var == "bare_classvar":
                return T.ClassVar
            if var == "typealias":
                return T.TypeAlias
            if var == "newtype_of_bad":
                return T.NewType(_uniq("NT"), 7)
            if var == "typeddict_inst":
                return T.TypedDict(_uniq("TD"), {"a": 7})
            if var == "namedtuple_bad":
                return T.NamedTuple(_uniq("NTu"), [("a", 7)])
            if var == "typevar_bad_bound":
                return T.TypeVar(_uniq("Tv"), bound="NoSuchBound" + _leaf(rnd, "name"))
            if var == "generic_alias_of_instance":
                import types
                return types.GenericAlias(7, (int,))
            if var == "generic_alias_origin_str":
                import types
                return types.GenericAlias("list", (int,))
            if var == "union_type_call":
                import types
                return types.UnionType
            if var == "literalstring":
                return T.LiteralString
        if kind == "malformed":
            if var == "list_int_inst":
                return list[_leaf(rnd, "int")]
            if var == "list_float":
                return list[_leaf(rnd, "float")]
            if var == "dict_ints":
                return dict[1, 2]
            if var == "type_int_inst":
                return type[_leaf(rnd, "int")]
            if var == "tuple_int_inst":
                return tuple[1, ...]
            if var == "callable_bad_params":
                return CA.Callable[[1], 2]
            if var == "callable_params_not_list":
                return CA.Callable[1, 2]
            if var == "set_lambda":
                return set[lambda: 0]
            if var == "list_module":
                return list[sys]
            if var == "iter_bytes":
                return CA.Iterable[b"x"]
            if var == "userclass_subscript":
                C = type(_uniq("Sub"), (), {"__class_getitem__": classmethod(lambda c, i: ("junk", i))})
                return C[int]
            if var == "fake_origin":
                C = type(_uniq("FakeAlias"), (), {})
                o = C()
                o.__origin__ = list
                o.__args__ = (int,)
                return o
            if var == "fake_origin_badargs":
                C = type(_uniq("FakeAlias"), (), {})
                o = C()
                o.__origin__ = list
                o.__args__ = 7
                return o
            if var == "fake_typing_module":
                C = type(_uniq("FakeTyping"), (), {"__module__": "typing"})
                return C()
            if var == "fake_typing_repr":
                C = type(_uniq("FakeRepr"), (), {"__repr__": lambda s: "typing.List[int]"})
                return C()
            if var == "getattr_raises_attrerr":
                # an object whose every attribute lookup fails the usual way
                C = type(_uniq("NoAttrs"), (), {"__slots__": ()})
                return C()
        if kind == "string":
            if var == "unresolvable":
                return _leaf(rnd, "name")
            if var == "unresolvable_dotted":
                return "os." + _leaf(rnd, "name")
            if var == "unresolvable_module":
                return _leaf(rnd, "name").lower() + ".Thing"
            if var == "syntax_binop":
                return "1 +"
            if var == "syntax_open_bracket":
                return "list["
            if var == "syntax_two_names":
                return "int int"
            if var == "empty":
                return ""
            if var == "blank":
                return "  "
            if var == "expr_int":
                return "1 + 1"
            if var == "expr_call":
                return "print"
            if var == "sub_unresolvable":
                return "list[" + _leaf(rnd, "name") + "]"
            if var == "sub_bad":
                return "dict[int]"
            if var == "lambda":
                return "lambda: 0"
            if var == "dunder":
                return "__import__('os')"
            if var == "nonascii":
                return "éè"
            if var == "newline":
                return "int\n"
            if var == "fwdref_obj_bad":
                return T.ForwardRef(_leaf(rnd, "name"))
            if var == "fwdref_obj_syntax":
                return T.ForwardRef("list[int")
        if kind == "fwdref":
            # a dotted forward reference into a fresh module; what the name means when first looked up
            import types
            mod = types.ModuleType(_uniq("c11_fwd_mod"))
            sys.modules[mod.__name__] = mod
            ref_cls = type(_uniq("RefCls"), (), {})
            if var == "nonclass_alias":
                mod.Ref = rnd.choice([list[str], dict[str, int], tuple[int, ...]])     # a valid hint, not a class
            elif var == "nonhint_int":
                mod.Ref = _leaf(rnd, "int")
            elif var == "valid_class":
                mod.Ref = ref_cls
            elif var == "defined_later":
                ctx.later = lambda: setattr(mod, "Ref", ref_cls)     # run after the first call / query
            elif var != "undefined":
                raise KeyError(k)
            ctx.ref_cls = ref_cls
            return mod.__name__ + ".Ref"
        if kind == "annotated":
            from beartype.vale import Is, IsAttr, IsEqual, IsInstance, IsSubclass
            def always(x):
                return True
            always.__name__ = always.__qualname__ = _uniq("always")
            v = Is[always]
            if var == "validator_then_foreign":
                return T.Annotated[int, v, "foreign"]
            if var == "foreign_then_validator":
                return T.Annotated[int, "foreign", v]
            if var == "foreign_between":
                return T.Annotated[int, v, 3.5, IsEqual[1]]
            if var == "factory_unsubscripted":
                return T.Annotated[int, Is]
            if var == "factory_isattr_unsubscripted":
                return T.Annotated[int, IsAttr]
            if var == "only_foreign_unhashable":
                return T.Annotated[int, []]
            if var == "validator_and_unhashable":
                return T.Annotated[int, v, {}]
            if var == "nested_mixed":
                return T.Annotated[T.Annotated[int, "foreign"], v]
            if var == "metahint_bad":
                return T.Annotated["NoSuch" + _leaf(rnd, "name"), v]
            if var == "validator_negated_mixed":
                return T.Annotated[int, ~v, object()]
            if var == "isinstance_mixed":
                return T.Annotated[object, IsInstance[int], "foreign"]
            if var == "issubclass_mixed":
                return T.Annotated[type, "foreign", IsSubclass[int]]
        if kind == "literal":
            if var == "list":
                return T.Literal[[]]
            if var == "dict":
                return T.Literal[{}]
            if var == "set":
                return T.Literal[set()]
            if var == "userobj":
                return T.Literal[type(_uniq("Unhash"), (), {"__hash__": None, "__eq__": lambda s, o: s is o})()]
            if var == "float":
                return T.Literal[_leaf(rnd, "float")]
            if var == "object":
                return T.Literal[type(_uniq("Obj"), (), {})()]
            if var == "type":
                return T.Literal[int]
            if var == "empty":
                return T.Literal[()]
            if var == "nested_tuple_unhashable":
                return T.Literal[(1, [])]
            if var == "mixed_ok_unhashable":
                return T.Literal[1, []]
            if var == "ellipsis":
                return T.Literal[...]
        if kind == "noneellipsis":
            if var == "ellipsis_root":
                return ...
            if var == "list_ellipsis":
                return list[...]
            if var == "dict_ellipsis_key":
                return dict[..., int]
            if var == "type_none":
                return type[None]
            if var == "type_ellipsis":
                return type[...]
            if var == "callable_none":
                return CA.Callable[None, None]
            if var == "callable_ellipsis_ret":
                return CA.Callable[..., ...]
            if var == "none_none":
                return T.Optional[type(None)]
            if var == "nonetype_subscript":
                import types
                return types.GenericAlias(type(None), (int,))
            if var == "tuple_none_ellipsis":
                return tuple[None, ...]
            if var == "notimplemented_child":
                return list[NotImplemented]
        if kind == "recursive":
            if var == "list_in_itself":
                a = []
                a.append(a)
                return a
            if var == "alias_args_cycle":
                import types
                a = []
                g = types.GenericAlias(list, (a,))
                a.append(g)
                return g
            if var == "pep695_self":
                ns = {}
                exec(f"type {_uniq('Rec')} = list[{'Rec_%d_%d' % (os.getpid(), _UNIQ[0])}]\nX = {'Rec_%d_%d' % (os.getpid(), _UNIQ[0])}", ns)
                return ns["X"]
            if var == "pep695_direct":
                ns = {}
                name = _uniq("RecD")
                exec(f"type {name} = {name}\nX = {name}", ns)
                return ns["X"]
            if var == "pep695_mutual":
                ns = {}
                a, b = _uniq("RA"), _uniq("RB")
                exec(f"type {a} = {b} | int\ntype {b} = list[{a}]\nX = {a}", ns)
                return ns["X"]
            if var == "pep695_bad_value":
                ns = {}
                a = _uniq("RBad")
                exec(f"type {a} = 7\nX = {a}", ns)
                return ns["X"]
            if var == "pep695_raises":
                ns = {}
                a = _uniq("RRaise")
                exec(f"type {a} = NoSuchThingAtAll\nX = {a}", ns)
                return ns["X"]
            if var == "string_self":
                return "list['list[int]']"
            if var == "newtype_cycle":
                nt = T.NewType(_uniq("NTc"), int)
                nt.__supertype__ = nt
                return nt
            if var == "typevar_bound_self":
                tv = T.TypeVar(_uniq("TvS"))
                try:
                    tv.__bound__ = tv
                except Exception as ex:
                    raise Skip(str(ex))
                return tv
        if kind == "deep":
            shape, n = var.rsplit("_", 1)
            n = int(n) + rnd.randrange(0, 7)
            if shape == "list_nest":
                h = int
                for _ in range(n):
                    h = list[h]
                return h
            if shape == "union_nest":
                h = int
                for _ in range(n):
                    h = list[h] | None
                return h
            if shape == "tuple_nest":
                h = int
                for _ in range(n):
                    h = tuple[h, str]
                return h
            if shape == "string_nest":
                return "list[" * n + "int" + "]" * n
            if shape == "annotated_nest":
                h = int
                for i in range(n):
                    h = T.Annotated[list[h], i]
                return h
            if shape == "wide_union":
                return T.Union[tuple(T.Literal[i] for i in range(n))]
            if shape == "wide_tuple":
                return tuple[tuple(int for _ in range(n))]
            if shape == "wide_literal":
                return T.Literal[tuple(range(n))]
    except Skip:
        raise
    except BaseException as ex:     # python refused to build the defect itself
        raise Skip(f"{type(ex).__name__}: {ex}"[:120])
    raise KeyError(k)


def build_raiser(ctx, rp):
    """-> (hint R whose checking reaches the user raise point, value that reaches it)."""
    import typing as T
    if rp == "validator":
        from beartype.vale import Is

        def check(x):
            ctx.boom(x)
            return not ctx.fail
        check.__name__ = check.__qualname__ = _uniq("check")     # beartype de-duplicates hints by repr
        v = 11
        ctx.piths.append(v)
        return T.Annotated[int, Is[check]], v
    if rp == "instancecheck":
        class Meta(type):
            def __instancecheck__(cls, inst):
                ctx.boom(inst)
                return False if ctx.fail else type.__instancecheck__(cls, inst)
        C = Meta(_uniq("InstChk"), (), {})
        v = C()
        ctx.piths.append(v)
        return C, v
    if rp == "subclasscheck":
        class Meta(type):
            def __subclasscheck__(cls, sub):
                ctx.boom(sub)
                return False if ctx.fail else type.__subclasscheck__(cls, sub)
        C = Meta(_uniq("SubChk"), (), {})
        v = Meta(_uniq("SubChkChild"), (C,), {})
        ctx.piths.append(v)
        return type[C], v
    if rp == "eq":
        import enum

        class E(enum.Enum):
            A = 1
            B = 2

            def __eq__(self, other):
                ctx.boom(other)
                return False if ctx.fail else self is other

            def __hash__(self):
                return hash(self.name)
        E.__name__ = E.__qualname__ = _uniq("EqEnum")
        v = E.A
        ctx.piths.append(v)
        return T.Literal[E.A], v
    if rp in ("len", "getitem", "iter"):
        import collections.abc as CA

        class Box(CA.Sequence):
            def __init__(self, items):
                self._i = list(items)

            def __len__(self):
                if rp == "len":
                    ctx.boom(self)
                return len(self._i)

            def __getitem__(self, i):
                if rp == "getitem":
                    ctx.boom(self)
                return self._i[i]

            def __iter__(self):
                if rp == "iter":
                    ctx.boom(self)
                return iter(self._i)
        Box.__name__ = Box.__qualname__ = _uniq("Box")
        v = Box(["x", "y", "z"] if ctx.fail else [1, 2, 3])
        ctx.piths.append(v)
        if rp == "iter":
            return CA.Collection[int], v
        return CA.Sequence[int], v
    raise KeyError(rp)


def apply_position(ctx, pos, D, dval):
    """Put hint/object D at ``pos`` of a well-formed hint -> (hint, a value whose check reaches D)."""
    import typing as T
    try:
        if pos == "root":
            return D, dval
        if pos == "child":
            v = [dval]
            return list[D], v
        if pos == "union":
            return T.Union[D, str], dval
        if pos == "union604":
            return D | str, dval
        if pos == "key":
            return dict[D, int], {dval: 1}
        if pos == "value":
            return dict[str, D], {"k": dval}
        if pos == "tuplepos":
            return tuple[int, D], (1, dval)
        if pos == "tuplevar":
            return tuple[D, ...], (dval,)
        if pos == "metahint":
            if T.get_origin(D) is T.Annotated:
                raise Skip("typing flattens nested Annotated: not this position")
            return T.Annotated[D, "meta"], dval
        if pos == "typearg":
            return type[D], dval
        if pos == "optional":
            return T.Optional[D], dval
    except BaseException as ex:
        raise Skip(f"{pos}: {type(ex).__name__}: {ex}"[:120])
    raise KeyError(pos)


def build_case(ctx):
    """-> (hint, value).  Everything here happens BEFORE beartype is entered."""
    c = ctx.case
    defect, rp = c["defect"], c["rp"]
    if rp in ("none", "callable") and defect == "none":
        hint, val = apply_position(ctx, c["pos"], int, 3)
        return hint, val
    if defect == "none":
        R, v = build_raiser(ctx, rp)
        if c["pos"] == "typearg" and not isinstance(R, type):
            raise Skip("type[...] of a non-class is not a well-formed hint: not this position")
        hint, val = apply_position(ctx, c["pos"], R, v)
        return hint, val
    D = build_defect(ctx, defect, c["var"])
    dval = ctx.rnd.choice([0, "s", None, (1,), 2.5])
    if defect == "fwdref":
        # type['Ref'] is checked with issubclass(): pass a class; elsewhere an instance of the (eventual) class
        dval = ctx.rnd.choice([int, str, ctx.ref_cls]) if c["pos"] == "typearg" else ctx.ref_cls()
    hint, val = apply_position(ctx, c["pos"], D, dval)
    if rp in ("none", "callable"):
        return hint, val
    # defect AND raise point: a fixed 2-tuple with the raiser first
    R, v = build_raiser(ctx, rp)
    try:
        return tuple[R, hint], (v, val)
    except BaseException as ex:
        raise Skip(f"combine: {type(ex).__name__}"[:120])


def _mro_names(cls):
    out = []
    for k in cls.__mro__:
        mod = getattr(k, "__module__", "")
        if mod.startswith("beartype.roar"):
            out.append(k.__name__)
        elif mod == "builtins":
            out.append("py:" + k.__name__)
        else:
            out.append("ext:" + k.__name__)
    return out


def _clsname(cls):
    return _mro_names(cls)[0]


def _tb_funcs(ex):
    out = []
    tb = ex.__traceback__
    while tb is not None:
        out.append(tb.tb_frame.f_code.co_name)
        tb = tb.tb_next
    return out


def _site(ex):
    """innermost beartype frame of the traceback: where the leak comes from (reporting only)."""
    tb, site = ex.__traceback__, ""
    while tb is not None:
        fn = tb.tb_frame.f_code.co_filename
        if "/beartype/" in fn:
            site = fn.split("/beartype/", 1)[1] + ":" + tb.tb_frame.f_code.co_name
        tb = tb.tb_next
    return site


def _observe(ctx, phase, thunk):
    """Run thunk() as one observed API entry; log Enter / UserRaise* / Warn* / Return in real order."""
    import warnings
    ev = ctx.events
    ev.append({"ev": "Enter", "phase": phase})
    r0 = ctx.raised
    result = None

    def show(message, category, filename, lineno, file=None, line=None):
        ev.append({"ev": "Warn", "cls": _clsname(category), "mro": _mro_names(category),
                   "msg": str(message)[:200]})
    with warnings.catch_warnings():
        warnings.simplefilter("always")
        warnings.showwarning = show
        try:
            result = thunk()
            out = {"ev": "Return", "kind": "ok", "cls": "", "mro": []}
        except _Timeout:
            raise
        except BaseException as ex:      # noqa
            if ex is ctx.exc:
                funcs = _tb_funcs(ex)
                out = {"ev": "Return", "kind": "user", "cls": "ext:UserBoom", "mro": [], "uid": 1,
                       "tb_anchor": funcs[-1:] == ["boom"],
                       "args_same": ex.args is ctx.exc_args or ex.args == ctx.exc_args,
                       "chain_same": ex.__cause__ is None and ex.__context__ is None}
            else:
                wrapped = any(x is ctx.exc for x in (ex.__cause__, ex.__context__))
                out = {"ev": "Return", "kind": "exc", "cls": _clsname(type(ex)), "mro": _mro_names(type(ex)),
                       "wraps_user": wrapped, "msg": f"{type(ex).__name__}: {ex}"[:300], "site": _site(ex)}
    out["raised_here"] = ctx.raised - r0
    ev.append(out)
    return out, result


class _Timeout(BaseException):
    pass


def _after_first(ctx, i):
    """between the first and the second invocation: a referent "defined only later" appears now."""
    if i == 0 and ctx.later is not None:
        ctx.later()
        ctx.events.append({"ev": "Note", "what": "referent defined"})


def run_case(case):
    """Child: concretise and run one case; return {'skip': why} or {'events': [...]}."""
    sys.setrecursionlimit(1000)
    rnd = random.Random(case["seed"] * 100003 + case["id"])
    ctx = _Ctx(case, rnd)
    try:
        hint, val = build_case(ctx)
    except Skip as s:
        return {"skip": str(s)}
    from beartype import beartype
    from beartype.door import TypeHint, die_if_unbearable, is_bearable, is_subhint
    entry, rp, rept = case["entry"], case["rp"], case.get("rept", 1)
    try:
        hrepr = repr(hint)[:160]
    except BaseException as ex:     # noqa
        hrepr = f"<unreprable {type(ex).__name__}>"
    ctx.events.append({"ev": "Begin", "id": case["id"], "entry": entry, "rp": rp, "defect": case["defect"],
                       "pos": case["pos"], "hint": hrepr})
    if entry in ("decorate", "call"):
        slot = case.get("slot", "param")

        # the wrapped callable is a plain module-level function of a fresh module (no closure, no "<locals>"
        # in its qualified name): beartype resolves stringified hints against that module's globals
        import types
        fmod = types.ModuleType(_uniq("c11_func_mod"))
        sys.modules[fmod.__name__] = fmod
        fname = _uniq("wrapped")
        fmod.__dict__.update({"ctx": ctx, "rp": rp})
        exec(f"def {fname}(x):\n    if rp == 'callable':\n        ctx.boom()\n    return x\n", fmod.__dict__)
        f = fmod.__dict__[fname]
        f.__annotations__ = {"x": hint} if slot == "param" else {"return": hint}

        def decorate():
            return beartype(f)
        out, g = _observe(ctx, "decor", decorate)
        if entry == "call" and out["kind"] == "ok":
            if rept > 1:
                # the SAME wrapper called again with the SAME object: memoised failures show from call 2 on
                for i in range(rept):
                    _observe(ctx, "call", lambda: g(val))
                    _after_first(ctx, i)
            else:
                _observe(ctx, "call", lambda: g(val))
                if case["defect"] != "none" and rp == "none":
                    # a second value of another shape: reach other branches of the generated code
                    _observe(ctx, "call", lambda: g(object()))
    elif entry == "is_bearable":
        for i in range(rept):
            _observe(ctx, "door", lambda: is_bearable(val, hint))
            _after_first(ctx, i)
    elif entry == "die_if_unbearable":
        if rept > 1:
            for i in range(rept):
                _observe(ctx, "door", lambda: die_if_unbearable(val, hint))
                _after_first(ctx, i)
        else:
            _observe(ctx, "door", lambda: die_if_unbearable(val, hint))
            if case["defect"] != "none" and rp == "none":
                _observe(ctx, "door", lambda: die_if_unbearable(object(), hint))
    elif entry == "TypeHint":
        out, th = _observe(ctx, "hint", lambda: TypeHint(hint))
        if out["kind"] == "ok":
            # the documented object API of a wrapper: these are part of "TypeHint"
            # (hash(th) is not observed: TypeError is python's own protocol for unhashable content)
            _observe(ctx, "hint", lambda: (repr(th), len(th), list(th), th == th, th.is_ignorable,
                                           th.hint, th.args))
            for i in range(rept):
                _observe(ctx, "door", lambda: th.is_bearable(val))
                _after_first(ctx, i)
    elif entry == "is_subhint":
        if rept > 1:
            for i in range(rept):
                _observe(ctx, "hint", lambda: is_subhint(hint, object))
                _after_first(ctx, i)
        else:
            _observe(ctx, "hint", lambda: is_subhint(hint, object))
            _observe(ctx, "hint", lambda: is_subhint(int, hint))
            _observe(ctx, "hint", lambda: is_subhint(hint, hint))
    else:
        raise KeyError(entry)
    return {"events": ctx.events, "reach": ctx.reach}


CASE_CPU_S = 4          # CPU seconds (user+sys of the child) one case may take before it is abandoned


def run_shard(cases):
    """Child (one fresh fork per shard): run the cases one after the other, each under a CPU timer."""
    import signal

    def on_timer(*_a):
        raise _Timeout()
    signal.signal(signal.SIGPROF, on_timer)
    out = []
    for case in cases:
        signal.setitimer(signal.ITIMER_PROF, CASE_CPU_S)
        t0 = time.process_time()
        try:
            out.append(run_case(case))
        except _Timeout:
            out.append({"skip": f"timeout: more than {CASE_CPU_S}s CPU", "timeout": True})
        except RecursionError:
            out.append({"skip": "harness recursion limit while building the case", "timeout": False})
        finally:
            signal.setitimer(signal.ITIMER_PROF, 0)
        out[-1]["cpu"] = round(time.process_time() - t0, 3)
    return out


# ------------------------------------------------------------------ spec side
KINDS = ["nonhint", "unhashable", "arity", "unsupported", "malformed", "string", "fwdref", "annotated", "literal",
         "noneellipsis", "recursive", "deep"]

CFG = """SPECIFICATION Spec
CONSTANTS
  Legacy = {legacy}
  Emit = {emit}
  Combos = TRUE
  Reps = {reps}
  KindsOn = {kinds}
  MaxCalls = {maxcalls}
  Abstract = {abstract}
INVARIANT TypeOK
INVARIANT NoForeignException
INVARIANT NoPrivateException
INVARIANT OnlyBeartypeSubtree
INVARIANT PhaseSplit
INVARIANT UserPassesThrough
INVARIANT OnlyBeartypeWarnings
INVARIANT NothingSwallowed
CHECK_DEADLOCK FALSE
"""

ACTIONS = ["Decorate", "Call", "DoorCheck", "MakeTypeHint", "IsSubhint", "MemoProbe", "Sanify", "CodeGen", "Warn",
           "Unwind", "Quiet", "ArgCheck", "ArgCheck2", "Body", "Report", "Wrap", "Compare", "ReturnOk", "Escape"]

# (deviation switched on, focus kinds, invariant that must break)
MUTANTS = [
    ("unguarded_hash", ["unhashable"], "NoForeignException"),        # what 0.23.0 does (F6)
    ("unguarded_recursion", ["deep"], "NoForeignException"),
    ("private_default", ["nonhint"], "NoPrivateException"),
    ("report_wraps_user", ["nonhint"], "UserPassesThrough|NoPrivateException"),
    ("decor_class_at_call", ["string"], "PhaseSplit"),
    ("reraise_copies", ["nonhint"], "NoForeignException"),
    ("cache_unvalidated_referent", ["fwdref"], "NoForeignException"),     # seeded into fwdrefmeta (C11b)
]


def _tla_bool(b):
    return "TRUE" if b else "FALSE"


def _tla_strset(xs):
    return "{" + ", ".join('"%s"' % x for x in xs) + "}"


def _cfg(d, name, legacy=(), emit=False, reps=True, kinds=KINDS, maxcalls=3, abstract=True):
    return write_file(d, name, CFG.format(legacy=_tla_strset(legacy), emit=_tla_bool(emit), reps=_tla_bool(reps),
                                          kinds=_tla_strset(kinds), maxcalls=maxcalls,
                                          abstract=_tla_bool(abstract)))


def _write_forest(d, forest):
    p = os.path.join(d, "forest.ndjson")
    with open(p, "w") as fh:
        for n in sorted(forest):
            fh.write(json.dumps({"name": n, "parents": forest[n]["parents"], "public": forest[n]["public"]}) + "\n")
    return p


def _model(rep, d, fpath, tier):
    """R1: the intended design satisfies the taxonomy; the same run emits the case table."""
    # quick: one case per attribute class the automaton distinguishes, one class per layer.
    # thorough: every enumerated case.  One representative class per layer in both tiers: with every class
    # of every layer the graph has > 10^7 states (sets of warning classes x exception classes) and adds nothing;
    # membership of every real class is evaluated by TLC in the trace validation.
    cfg = _cfg(d, "outcomes.cfg", emit=True, abstract=(tier == "quick"), reps=True)
    res = tlc.run_tlc("Outcomes.tla", cfg, coverage=True, env={"C11_FOREST": fpath})
    rep.tlc(res, "Outcomes intended design" + (" (one case per attribute class)" if tier == "quick" else
                                               " (every case)"))
    if res.violated:
        rep.machinery(f"Outcomes.tla (intended design) violates {res.violated}: the specification itself is wrong")
    dead = [a for a in ACTIONS if res.coverage.get(a, (0, 0))[1] == 0]
    if dead:
        rep.machinery(f"vacuous TLC run: actions never taken: {dead}")
    cases = []
    for row in res.printed:
        if isinstance(row, str) and row.startswith("case|"):
            _, entry, kind, var, pos, rp, nth, slot, rept = row.split("|")
            cases.append({"entry": entry, "defect": kind, "var": var, "pos": pos, "rp": rp, "nth": int(nth),
                          "slot": slot, "rept": int(rept)})
    if len(cases) < 1000:
        rep.machinery(f"TLC emitted only {len(cases)} cases")
    # identifiers seed the leaf values: the cases of the first grammar (single invocation, no forward-reference
    # kind) keep the identifiers they always had; cases of later dimensions are numbered after them
    def first_grammar(c):
        return c["rept"] == 1 and c["defect"] != "fwdref"
    cases.sort(key=lambda c: (not first_grammar(c), c["defect"], c["var"], c["pos"], c["entry"], c["rp"], c["nth"],
                              c["slot"], c["rept"]))
    for i, c in enumerate(cases):
        c["id"] = i + 1
    rep.add("cases_enumerated_by_tlc", len(cases))
    return cases


def _mutant_run(d, fpath, mutant):
    legacy, kinds, _want = mutant
    cfg = _cfg(d, f"mut_{legacy}.cfg", legacy=[legacy], kinds=kinds)
    return tlc.run_tlc("Outcomes.tla", cfg, workers=2, env={"C11_FOREST": fpath})


def _mutants_check(rep, results):
    for (legacy, _kinds, want), res in zip(MUTANTS, results):
        rep.tlc(res, f"Outcomes mutant {legacy}")
        if not res.violated or res.violated not in want.split("|"):
            rep.machinery(f"spec mutant Legacy={{{legacy}}} is not rejected by {want} (got {res.violated}): "
                          f"the model is vacuous")
        rep.add("spec_mutants_killed")


# ------------------------------------------------------------------ selection, replay, judgement
def _select(cases, tier, seed):
    if tier != "quick":
        return list(cases)

    def pick(subset, rnd):
        groups = {}
        for c in subset:
            if c["defect"] != "none" and c["rp"] == "none":
                key = ("d", c["defect"], c["var"], c["entry"])
            elif c["defect"] == "none":
                key = ("r", c["rp"], c["entry"], c["nth"], c["pos"])
            else:
                key = ("c", c["defect"], c["rp"], c["entry"])
            groups.setdefault(key, []).append(c)
        out = []
        for key in sorted(groups):
            g = groups[key]
            if key[0] == "d" and key[1] == "fwdref":       # every position a forward reference is documented for
                out += [c for c in g if c["pos"] in ("root", "child", "typearg", "union", "optional")]
            elif key[0] == "d":
                root = [c for c in g if c["pos"] == "root" and c["slot"] == "param"]
                rest = [c for c in g if not (c["pos"] == "root" and c["slot"] == "param")]
                out += root + rnd.sample(rest, min(1, len(rest)))
            elif key[0] == "r":
                out += [c for c in g if c["rept"] == 1 or c["pos"] in ("root", "child", "typearg", "union")]
            else:
                out += rnd.sample(g, min(2, len(g)))
        return out
    # two independent streams: adding a dimension to the grammar does not reshuffle the sample of the others
    first = [c for c in cases if c["rept"] == 1 and c["defect"] != "fwdref"]
    later = [c for c in cases if not (c["rept"] == 1 and c["defect"] != "fwdref")]
    return pick(first, random.Random(seed)) + pick(later, random.Random(seed * 7919 + 1))


EVENT_DEFAULTS = {"id": 0, "entry": "", "defect": "", "var": "", "pos": "", "rp": "", "nth": 1, "slot": "",
                  "rept": 1, "next": 0, "phase": "", "uid": 0, "on_pith": False, "cls": "", "mro": [], "kind": "",
                  "tb_anchor": True, "args_same": True, "chain_same": True, "ret_cls": ""}


def _write_log(path, results):
    """results: [(case, events)] -> ndjson with uniform records; returns line number -> (case, event)."""
    lines, index = [], {}
    for case, events in results:
        start = len(lines)
        for e in events:
            if e["ev"] == "Note":           # harness bookkeeping, not an observation
                continue
            rec = dict(EVENT_DEFAULTS)
            for k in EVENT_DEFAULTS:
                if k in e:
                    rec[k] = e[k]
            rec["ev"] = e["ev"]
            rec["id"] = case["id"]
            if e["ev"] == "Begin":
                rec.update({"entry": case["entry"], "defect": case["defect"], "var": case["var"], "pos": case["pos"],
                            "rp": case["rp"], "nth": case["nth"], "slot": case["slot"],
                            "rept": case.get("rept", 1)})
            lines.append(rec)
            index[len(lines)] = (case, e)
        lines[start]["next"] = len(lines) + 1
        nxt = ""
        for rec in reversed(lines[start:]):          # class of the next Return at or after each event
            if rec["ev"] == "Return":
                nxt = rec["cls"]
            rec["ret_cls"] = nxt
    with open(path, "w") as fh:
        for rec in lines:
            fh.write(json.dumps(rec) + "\n")
    return index, len(lines)


def _clause_what(cl):
    return {
        "foreign_exception": "an exception that is not a beartype exception (and not the user's own object) escapes",
        "private_exception": "an underscore-prefixed internal beartype exception escapes",
        "not_a_beartype_exception": "a beartype.roar class outside the BeartypeException tree is raised",
        "phase_split": "the exception is on the wrong side of the decoration-time / call-time split",
        "user_exception_replaced": "user code raised while checking the object, but its exception did not come out",
        "user_exception_altered": "the user's exception came out with its traceback / args / chain changed",
        "user_exception_not_raised": "a user exception object came out that was not raised in this entry",
        "foreign_warning": "a warning that is not a public BeartypeWarning subclass is emitted",
    }.get(cl, cl)


def _replay_and_judge(rep, d, fpath, cases, seed, pool, label="replay"):
    """R2 + R3 for a list of cases.  Returns the per-case verdicts."""
    for c in cases:
        c["seed"] = seed
    # contiguous shards (their composition is part of the history: beartype's caches live as long as the shard's
    # process), submitted most expensive first so that the deep / self-referential ones are not the long pole
    shards = [cases[i:i + 24] for i in range(0, len(cases), 24)]
    order = sorted(range(len(shards)), key=lambda i: -sum(c["defect"] in ("deep", "recursive") for c in shards[i]))
    outs_o = pool.map(run_shard, [shards[i] for i in order], chunksize=1)
    outs = [None] * len(shards)
    for i, o in zip(order, outs_o):
        outs[i] = o
    flat = [r for sh in outs for r in sh]
    results, skipped, timeouts = [], 0, 0
    for c, r in zip(cases, flat):
        if "skip" in r:
            skipped += 1
            timeouts += 1 if r.get("timeout") else 0
            rep.add("skip_reasons_" + ("timeout" if r.get("timeout") else "python_refused_to_build_the_hint"))
            continue
        results.append((c, r["events"]))
    rep.add("cases_skipped_unbuildable_or_timeout", skipped)
    rep.add("cases_run", len(results))
    if not results:
        rep.machinery("no case could be run")
    log = os.path.join(d, f"outcomes_{label}.ndjson")
    index, nlines = _write_log(log, results)
    rep.add("trace_events", nlines)
    cfg = write_file(d, f"trace_{label}.cfg", open(os.path.join(tlc.SPEC_DIR, "trace", "OutcomesTrace.cfg")).read())
    res = tlc.run_tlc("trace/OutcomesTrace.tla", cfg, workers=1, env={"C11_FOREST": fpath, "TRACE_FILE": log})
    rep.tlc(res, f"OutcomesTrace {label}")
    if res.violated:
        rep.machinery(f"OutcomesTrace did not consume the log ({res.violated}): "
                      f"{[r for r in res.printed if isinstance(r, dict) and 'rejected_at' in r][-1:]}")
    judged, followed, summaries = [], set(), {}
    for row in res.printed:
        if not isinstance(row, dict):
            continue
        if "judged" in row:
            judged.append(row["judged"])
        elif "followed" in row:
            followed.add(row["followed"])
        elif "summary" in row:
            summaries[row["summary"]["id"]] = row["summary"]
    n_returns = sum(1 for c, evs in results for e in evs if e["ev"] == "Return")
    if len(summaries) != len(results) or sum(s["returns"] for s in summaries.values()) != n_returns:
        rep.machinery(f"trace validation judged {sum(s['returns'] for s in summaries.values())} of {n_returns} "
                      f"outcomes in {len(summaries)} of {len(results)} cases")
    rep.count(n_returns)
    rep.add("outcomes_judged_by_tlc", n_returns)
    rep.add("traces_validated_against_impl", len(results))
    rep.add("cases_followed_by_intended_automaton", len(followed))
    # what was exercised
    reached = 0
    for c, evs in results:
        kinds = sorted({(e.get("phase") or "") for e in evs if e["ev"] == "Enter"})
        outs_ = sorted({e["cls"] or e["kind"] for e in evs if e["ev"] == "Return"})
        rep.nontrivial(json.dumps([c["defect"], c["var"], c["pos"], c["entry"], c["rp"], c["nth"], outs_]))
        if any(e["ev"] == "UserRaise" for e in evs):
            reached += 1
    rep.add("cases_where_user_code_raised", reached)
    # violations: exactly the rows TLC judged
    verdicts = {}
    for row in judged:
        case, e = index[row["at"]]
        clauses = sorted(row["clauses"])
        if "forest_mismatch" in clauses:
            rep.machinery(f"class {e.get('cls')} has MRO {e.get('mro')} but the extracted forest disagrees")
        for cl in clauses:
            leak = row["cls"] if cl != "foreign_warning" else ",".join(sorted(
                w for w in row["warns"]))
            # canonical key: defect kind, position, entry point (and its phase), clause, leaked class --
            # never the concrete leaf values; the raise point only where the clause is about user code
            key = {"defect": case["defect"], "pos": case["pos"], "entry": case["entry"], "phase": row["phase"],
                   "rp": case["rp"] if cl.startswith("user_") else "-", "clause": cl, "leak": leak}
            verdicts.setdefault(json.dumps(key, sort_keys=True), []).append((case, e, row))
    leaks = {}
    for k in sorted(verdicts):
        key = json.loads(k)
        _c, _e, _r = verdicts[k][0]
        lk = (key["clause"], key["leak"], _e.get("site", ""))
        ent = leaks.setdefault(lk, {"clause": lk[0], "leak": lk[1], "site": lk[2], "keys": 0, "defects": set(),
                                    "entries": set(), "example": f"{_hint_of(_c, results)} via {key['entry']}: "
                                                                 f"{_e.get('msg', '')[:140]}"})
        ent["keys"] += 1
        ent["defects"].update(f"{c['defect']}:{c['var']}" for c, _e2, _r2 in verdicts[k])
        ent["entries"].add(f"{key['entry']}/{key['phase']}")
    summary = rep.cov.setdefault("leak_classes", [])
    for lk in sorted(leaks):
        ent = leaks[lk]
        ent["defects"], ent["entries"] = sorted(ent["defects"]), sorted(ent["entries"])
        summary.append(ent)
    # one violation per LEAK SITE: (violated clause, leaked class, innermost beartype call site).  The
    # fine-grained (defect, position, entry point) combinations reaching that site are listed in the
    # replay case and in evidence coverage.leak_classes.
    by_site = {}
    for k in sorted(verdicts):
        key = json.loads(k)
        case, e, row = verdicts[k][0]
        site = e.get("site", "")
        if key["leak"] == "py:RecursionError":
            # where the interpreter stack happens to run out depends on sharding, caches and sampling: the
            # finding is identified by the kind of hint that exhausts the stack, not by the frame
            site = "defect:" + key["defect"]
        by_site.setdefault((key["clause"], key["leak"], site), []).append((key, case, e, row, k))
    for (cl, leak, site), items in sorted(by_site.items()):
        key0, case, e, row, _k = items[0]
        combos = sorted({f"{k_['entry']}/{k_['defect']}@{k_['pos']}" for k_, _c, _e, _r, _kk in items})
        rep.violation({"clause": cl, "leak": leak, "site": site},
                      f"{_clause_what(cl)}: {leak} [{e.get('msg', '')[:160]}] from {site or '?'}; e.g. "
                      f"{key0['entry']} ({row['phase']} phase), defect {key0['defect']} at position {key0['pos']}, "
                      f"hint {_hint_of(case, results)[:120]}; {len(items)} (defect, position, entry) combinations: "
                      f"{combos[:8]}",
                      {"cases": [c for _k2, c, _e, _r, _kk in items][:6], "seed": seed, "event": e,
                       "combinations": combos[:60]})
    # cases the intended automaton cannot follow although nothing in them breaks the property: drift
    bad_ids = {index[row["at"]][0]["id"] for row in judged}
    for c, evs in results:
        if c["id"] not in followed and c["id"] not in bad_ids:
            rep.spec_drift(f"case {c['entry']}/{c['defect']}:{c['var']}/{c['pos']}/{c['rp']}#{c['nth']}: outcomes "
                           f"{[(e.get('phase') or e.get('cls') or e.get('kind')) for e in evs if e['ev'] in ('Enter', 'Return')]} "
                           f"are within the taxonomy but are not a behaviour of the intended automaton")
    return results, judged, followed


def _hint_of(case, results):
    for c, evs in results:
        if c is case:
            return evs[0].get("hint", "?")
    return "?"


def run(rep, tier, seed):
    rep.assumptions += [
        "the public API is beartype.beartype (decoration, then calls of the decorated callable) and "
        "beartype.door.{is_bearable, die_if_unbearable, is_subhint, TypeHint} (wrapper construction, its "
        "documented methods, TypeHint.is_bearable), default configuration",
        "the decoration/call phase split is demanded for @beartype only; the door functions may raise any public "
        "BeartypeException subclass; type-check violations (BeartypeCallHintViolation subtree) count as 'works'",
        "exceptions raised by python/typing while the hint is being BUILT (before beartype is entered) are not "
        "attributed to beartype: such cases are skipped and counted",
        "user exceptions must come back by identity only when user code raised while checking the object under test "
        "(call time); user code run by decoration-time probes (isinstance(None, cls)) may be reported as a public "
        "beartype exception",
        "the class forest (name, parents, public) is extracted from the working tree's beartype.roar at run time; "
        "class membership is evaluated by TLC over it",
    ]
    import beartype  # noqa: F401
    import beartype.door  # noqa: F401
    import beartype.vale  # noqa: F401
    forest = extract_forest()
    with scratch("c11-") as d, ForkPool(16) as pool:
        fpath = _write_forest(d, forest)
        rep.add("forest_classes", len(forest))
        cases = _model(rep, d, fpath, tier)
        from concurrent.futures import ThreadPoolExecutor
        with ThreadPoolExecutor(len(MUTANTS)) as tp:        # the mutant runs are independent JVMs
            futs = [tp.submit(_mutant_run, d, fpath, m) for m in MUTANTS]
            chosen = _select(cases, tier, seed)
            rep.add("cases_selected", len(chosen))
            results, judged, followed = _replay_and_judge(rep, d, fpath, chosen, seed, pool)
            _mutants_check(rep, [f.result() for f in futs])
        if tier == "thorough":
            # other leaf values
            for s2 in (seed + 1,):
                sub = [dict(c) for c in _select(cases, "quick", s2)]
                _replay_and_judge(rep, d, fpath, sub, s2, pool, label=f"seed{s2}")
        for c, evs in results[:: max(1, len(results) // 6)]:
            rep.sample({"case": {k: c[k] for k in ("entry", "defect", "var", "pos", "rp", "nth", "slot", "rept")},
                        "events": [{k: v for k, v in e.items() if k in ("ev", "phase", "kind", "cls", "hint")}
                                   for e in evs]})
    rep.cov["exhaustive"] = tier == "thorough"


def replay(rep, path):
    """Re-run the recorded cases (same seed), let TLC judge them again, report what still breaks."""
    body = json.load(open(path))
    case = body["case"]
    import beartype  # noqa
    import beartype.door  # noqa
    import beartype.vale  # noqa
    cs = [dict(c) for c in case["cases"]]
    forest = extract_forest()
    with scratch("c11-replay-") as d, ForkPool(4) as pool:
        fpath = _write_forest(d, forest)
        results, judged, followed = _replay_and_judge(rep, d, fpath, cs, case.get("seed", 0), pool, label="replay")
    for c, evs in results:
        print({k: c[k] for k in ("entry", "defect", "var", "pos", "rp", "nth", "slot", "rept")})
        for e in evs:
            print("   ", {k: v for k, v in e.items() if k not in ("mro",)})
    print(f"judged by TLC as breaking the property: {len(judged)} outcome(s)")
    rep.level = "exploration"
