"""C16 — hooked and unhooked bytecode caches never mix; cached bytecode is never stale.

R1  TLC checks PycCache.tla: the intended designs (marker encodes the AST-relevant options;
    global patched under a lock, or not at all) satisfy I1/I2/I3 with two threads and nested
    imports; the disciplines of beartype 0.23.0 ("v0230" marker, "unlocked" patch) and a
    never-restored patch ("leaky") are run as spec mutants and must be rejected.
R2  sequential: every run sequence of the faithful model (dumped state graph) is executed as
    REAL interpreter runs over a scratch package tree (PYTHONDONTWRITEBYTECODE removed,
    os.utime for source edits); after each run the __pycache__ files are projected (name ->
    marker, header -> source version, unmarshalled code -> body) and the module's behaviour is
    compared with the same run on an empty cache.
    concurrent: two-thread schedules taken from TLC (counterexamples of I1 first, then paths
    of the dumped graph) are replayed deterministically with gates at the control points of
    get_code.
R3  every real run records Lookup / Patch / Path / Read / Compile / Write / Restore / Done
    events (wrappers installed from outside); trace/PycCacheTrace.tla validates the logs.

The child side (``child_main``) must not import beartype before its wrappers are installed and
keeps its imports light: this module only imports the kit lazily.
"""
from __future__ import annotations

import json
import os
import random
import sys
import time

LEVEL = "model_checking"

T0 = 1_500_000_000            # source mtime of version v is T0 + 10 * v
PKG = {"a": "pa", "b": "pb"}
STUB = "celery"               # a name on beartype's list of decorator-hostile packages
RESULT_TAG = "C16RESULT "

ALL_CONFS = ["default", "vt", "nopep", "ffirst", "flast", "tfirst", "tlbdh"]
# the concretiser: configuration name of PycCache.tla -> BeartypeConf keyword arguments
CONF_KW = {
    "default": {},
    "vt": {"violation_type": "ValueError"},
    "nopep": {"claw_is_pep526": False},
    "ffirst": {"claw_decor_place_func": "FIRST"},
    "flast": {"claw_decor_place_func": "LAST"},
    "tfirst": {"claw_decor_place_type": "FIRST"},
    "tlbdh": {"claw_decor_place_type": "LAST_BEFORE_DECOR_HOSTILE"},
}
PLACE_ABBR = {"LAST_BEFORE_DECOR_HOSTILE": "LBDH", "FIRST": "FIRST", "LAST": "LAST"}
PLACE_FULL = {v: k for k, v in PLACE_ABBR.items()}
NOKEY = {"p526": False, "pf": "-", "pt": "-", "dflt": False}
PLAIN_BODY = {"hooked": False, "key": dict(NOKEY)}

# stand-in for a package on beartype's list of decorator-hostile decorators (celery.Celery.task):
# what it returns hides the decorated object behind something with other annotations
STUB_SRC = '''class Celery:
    def task(self, fn):
        if isinstance(fn, type):
            def n(self, x):
                return x
            n.__annotations__ = {'x': int}
            return type(fn.__name__, (fn,), {'n': n})
        def t(x: str):
            return fn(x)
        return t
'''

# One module text serves every module of a tree.  What each definition is for:
#   g       annotated function                  -> "is the module hooked at all", violation type
#   assign  PEP 526 assignment in a function    -> claw_is_pep526
#   h       two decorators, the upper one "decorator-hostile" -> the three claw_decor_place_func
#   C       two class decorators, each adding an annotated method, the upper one
#           "decorator-hostile"                               -> the three claw_decor_place_type
MOD_SRC = '''VERSION = @VER@
from celery import Celery
app = Celery()
def deco(f):
    def w(*a, **k):
        return f(*a, **k)
    return w
def addm(cls):
    def m(self, x):
        return x
    m.__annotations__ = {'x': int}
    cls.m = m
    return cls
def g(x: int) -> int:
    return x
@app.task
@deco
def h(x: int):
    return x
@app.task
@addm
class C:
    pass
def assign():
    v: int = 'bad'
    return v
'''


def module_source(ver: int) -> str:
    return MOD_SRC.replace("@VER@", str(ver)) + "#" * ver + "\n"


# =====================================================================================
# projection: code object -> body   (shared by child and parent; part of the trusted base)
# =====================================================================================
_INJECTED = ("__beartype__", "__die_if_unbearable_beartype__", "__claw_state_beartype__")


def _walk_code(code):
    yield code
    for c in code.co_consts:
        if hasattr(c, "co_code"):
            yield from _walk_code(c)


def _decor_order(code, target, decos):
    """Names among ``decos`` + the beartype decorator, in the order in which the module code
    loads them before creating the function/class named ``target`` (= top to bottom)."""
    import dis
    seq = []
    for ins in dis.get_instructions(code):
        op = ins.opname
        if op == "STORE_NAME":
            seq = []
        elif op in ("LOAD_NAME", "LOAD_GLOBAL", "LOAD_ATTR", "LOAD_METHOD"):
            seq.append(ins.argval)
        elif op == "LOAD_CONST" and hasattr(ins.argval, "co_code") and ins.argval.co_name == target:
            return [n for n in seq if n in decos or n == "__beartype__"]
    return None


def project_code(code):
    """body = {"hooked": bool, "key": {"p526", "pf", "pt", "dflt"}} of a module code object."""
    names = set()
    for c in _walk_code(code):
        names.update(c.co_names)
    hooked = any(n in names for n in _INJECTED) or "beartype.claw._ast._clawaststar" in names
    if not hooked:
        return {"hooked": False, "key": dict(NOKEY)}
    key = {"p526": "__die_if_unbearable_beartype__" in names, "pf": "-", "pt": "-",
           "dflt": "__claw_state_beartype__" not in names}
    oh = _decor_order(code, "h", ("task", "deco"))
    if oh is not None and "__beartype__" in oh and len(oh) == 3:
        key["pf"] = ("LAST", "LBDH", "FIRST")[oh.index("__beartype__")]
    oc = _decor_order(code, "C", ("task", "addm"))
    if oc is not None and "__beartype__" in oc and len(oc) == 3:
        key["pt"] = ("LAST", "LBDH", "FIRST")[oc.index("__beartype__")]
    return {"hooked": True, "key": key}


def parse_pyc(data):
    """(source mtime stamped in the header, body) of timestamp-based .pyc bytes."""
    import marshal
    flags = int.from_bytes(data[4:8], "little")
    mtime = int.from_bytes(data[8:12], "little")
    if flags & 1:
        mtime = -1
    return mtime, project_code(marshal.loads(data[16:]))


def marker_of_path(path):
    base = os.path.basename(path)
    if ".opt-" in base:
        return base.split(".opt-", 1)[1].rsplit(".pyc", 1)[0]
    return ""


def behaviour_key(b):
    """behaviour vector -> the body it shows (inverse of the module text above)."""
    if b.get("g") is None:
        return {"hooked": False, "key": dict(NOKEY)}
    h1, hs = b.get("h1"), b.get("hs")
    pf = "LAST" if h1 and not hs else "FIRST" if hs and not h1 else "LBDH" if not h1 and not hs else "?"
    cm, cn = b.get("cm"), b.get("cn")
    pt = "LAST" if cn and not cm else "LBDH" if cm and not cn else "FIRST" if not cm and not cn else "?"
    return {"hooked": True, "key": {"p526": b.get("assign") is not None, "pf": pf, "pt": pt, "dflt": False}}


# =====================================================================================
# child side: one interpreter run
# =====================================================================================
class _Sched:
    """Deterministic two-thread scheduler: a scheduled thread blocks at every gate until the
    controller (main thread), walking the schedule produced by TLC, grants it one step."""

    def __init__(self, steps, timeout=60.0):
        import threading
        self.steps = steps
        self.cv = threading.Condition()
        self.at = {}          # thread -> gate name | "done" | None (running)
        self.grant = {}
        self.free = False
        self.timeout = timeout
        self.problem = None

    def arrive(self, t, gate):
        with self.cv:
            if self.free:
                return
            self.at[t] = gate
            self.cv.notify_all()
            end = time.time() + self.timeout
            while not self.grant.get(t) and not self.free:
                if not self.cv.wait(max(0.0, end - time.time())) and time.time() >= end:
                    self.problem = self.problem or f"thread {t} starved at gate {gate}"
                    self.free = True
                    self.cv.notify_all()
                    return
            self.grant[t] = False
            self.at[t] = None

    def done(self, t):
        with self.cv:
            self.at[t] = "done"
            self.cv.notify_all()

    _GATE = {"Lookup": "Lookup", "Patch": "Patch", "ComputePath": "ComputePath", "ReadCache": "Fetch",
             "Compile": "Fetch", "WriteCache": "Write", "Restore": "Restore"}

    def _wait_parked(self, t):
        end = time.time() + self.timeout
        while self.at.get(t) is None:
            if not self.cv.wait(max(0.0, end - time.time())) and time.time() >= end:
                return False
        return True

    def drive(self):
        with self.cv:
            for i, (t, act) in enumerate(self.steps):
                if not self._wait_parked(t):
                    self.problem = f"step {i} {act}({t}): thread never reached a gate"
                    break
                if act == "Finish":          # no shared effect, no gate: the thread already ran on
                    continue
                want = self._GATE[act]
                if self.at[t] != want:
                    self.problem = f"step {i} {act}({t}): real thread is at {self.at[t]}, model says {want}"
                    break
                self.grant[t] = True
                self.at[t] = None
                self.cv.notify_all()
                if not self._wait_parked(t):
                    self.problem = f"step {i} {act}({t}): thread did not reach its next gate"
                    break
            self.free = True
            self.cv.notify_all()


class _Recorder:
    """Wrappers around importlib's and beartype's loader entry points (installed from outside)."""

    def __init__(self, spec):
        import importlib._bootstrap_external as be
        import importlib.util
        import threading
        self.spec = spec
        self.be = be
        self.events = []
        self.elock = threading.Lock()
        self.tls = threading.local()
        self.armed = False
        self.sched = None
        self.thread_no = {threading.get_ident(): 1}
        self.names = {PKG[m] + ".mod": m for m in PKG}
        self.tree_names = set(self.names) | set(PKG.values())
        self.vers = spec.get("vers", {})
        self.nogate = set(spec.get("nogate") or ())
        rec = self
        orig_cfs = be.cache_from_source
        self.orig_cfs = orig_cfs

        def cache_from_source(*a, **k):
            p = orig_cfs(*a, **k)
            rec.on_path(p)
            return p
        cache_from_source.__c16_original__ = True
        importlib.util.cache_from_source = cache_from_source
        be.cache_from_source = cache_from_source

        base = type(be)

        class _Module2(base):
            def __setattr__(mod, name, value):
                if name == "cache_from_source":
                    rec.on_setglobal(value, lambda: base.__setattr__(mod, name, value))
                else:
                    base.__setattr__(mod, name, value)
        be.__class__ = _Module2

        SFL = be.SourceFileLoader
        self._wrap_get_code(SFL, be.SourceLoader.get_code)
        self._wrap_source_to_code(SFL, be.SourceLoader.source_to_code)
        orig_get_filename = be.FileLoader.get_filename
        orig_get_data = be.FileLoader.get_data
        orig_cache_bytecode = SFL._cache_bytecode

        def get_filename(self, name=None):
            fr = rec.top()
            if fr is not None and not fr["pathgate"] and (name is None or name == fr["name"]):
                fr["pathgate"] = True
                rec.gate(fr, "ComputePath")
            return orig_get_filename(self, name)

        def get_data(self, path):
            fr = rec.top()
            if fr is None or not str(path).endswith(".pyc"):
                return orig_get_data(self, path)
            rec.gate(fr, "Fetch")
            data = orig_get_data(self, path)
            rec.on_read(fr, path, data)
            return data

        def _cache_bytecode(self, source_path, bytecode_path, data):
            fr = rec.top()
            if fr is not None:
                rec.gate(fr, "Write")
            r = orig_cache_bytecode(self, source_path, bytecode_path, data)
            if fr is not None:
                rec.on_write(fr, bytecode_path, data)
            return r
        SFL.get_filename = get_filename
        SFL.get_data = get_data
        SFL._cache_bytecode = _cache_bytecode

    # ---- frames -------------------------------------------------------------------
    def stack(self):
        st = getattr(self.tls, "stack", None)
        if st is None:
            st = self.tls.stack = []
        return st

    def top(self):
        if not self.armed:
            return None
        st = self.stack()
        return st[-1] if st else None

    def thread(self):
        import threading
        return self.thread_no.get(threading.get_ident(), 0)

    def log(self, ev, fr, **kw):
        if fr is not None and not fr["log"]:
            return
        e = {"ev": ev, "th": fr["th"] if fr else self.thread(), "name": fr["name"] if fr else None}
        e.update(kw)
        with self.elock:
            self.events.append(e)

    def gate(self, fr, name):
        if self.sched is not None and fr.get("scheduled") and name not in self.nogate:
            self.sched.arrive(fr["th"], name)

    def ensure_lookup(self, fr):
        if not fr["looked"]:
            fr["looked"] = True
            self.log("Lookup", fr, hooked=False, key=dict(NOKEY))

    def _wrap_get_code(self, cls, orig):
        rec = self

        def get_code(self, fullname):
            if not rec.armed:
                return orig(self, fullname)
            st = rec.stack()
            if st and st[-1]["name"] == fullname and not st[-1]["inner"]:
                st[-1]["inner"] = True            # super().get_code() of the beartype loader
                return orig(self, fullname)
            fr = {"name": fullname, "th": rec.thread(),
                  "inner": cls is rec.be.SourceFileLoader,      # plain loader: this wrapper is the only one
                  "looked": False, "patched": False, "pathgate": False, "compiled": False,
                  "scheduled": rec.sched is not None and fullname in rec.names and not st,
                  "pathed": False, "path": getattr(self, "path", None),
                  # recorded: the modules of the tree, the stub package, and whatever is imported
                  # INSIDE another recorded import (beartype's lazily imported submodules)
                  "log": fullname in rec.tree_names or fullname == STUB or bool(st and st[-1]["log"])}
            st.append(fr)
            rec.gate(fr, "Lookup")
            try:
                code = orig(self, fullname)
            finally:
                st.pop()
            rec.ensure_lookup(fr)
            rec.log("Done", fr, body=project_code(code) if code is not None else None)
            return code
        cls.get_code = get_code

    def _wrap_source_to_code(self, cls, orig):
        rec = self

        def source_to_code(self, data, path, *a, **k):
            fr = rec.top()
            code = orig(self, data, path, *a, **k)
            if fr is not None and not fr["compiled"]:
                fr["compiled"] = True
                rec.log("Compile", fr, sv=rec.cur_version(fr), body=project_code(code),
                        transform=getattr(self, "_module_conf", None) is not None)
            return code
        cls.source_to_code = source_to_code

    def install_beartype(self):
        """second stage, after beartype was imported (only in runs that hook something)."""
        from beartype.claw._importlib import _clawimpfileloader as fl
        from beartype.claw._package import clawpkgtrie
        cls = fl.BeartypeSourceFileLoader
        if "get_code" in cls.__dict__:
            self._wrap_get_code(cls, cls.__dict__["get_code"])
        if "source_to_code" in cls.__dict__:
            self._wrap_source_to_code(cls, cls.__dict__["source_to_code"])
        rec = self
        orig = clawpkgtrie.get_package_conf_or_none

        def get_package_conf_or_none(name, *a, **k):
            conf = orig(name, *a, **k)
            fr = rec.top()
            if fr is not None and fr["name"] == name and not fr["looked"]:
                fr["looked"] = True
                if conf is None:
                    rec.log("Lookup", fr, hooked=False, key=dict(NOKEY))
                else:
                    from beartype._conf.confcommon import BEARTYPE_CONF_DEFAULT
                    rec.log("Lookup", fr, hooked=True, key={
                        "p526": bool(conf.claw_is_pep526),
                        "pf": PLACE_ABBR.get(conf.claw_decor_place_func.name, conf.claw_decor_place_func.name),
                        "pt": PLACE_ABBR.get(conf.claw_decor_place_type.name, conf.claw_decor_place_type.name),
                        "dflt": conf == BEARTYPE_CONF_DEFAULT})
            return conf
        clawpkgtrie.get_package_conf_or_none = get_package_conf_or_none

    # ---- observations ---------------------------------------------------------------
    def cur_version(self, fr):
        m = self.names.get(fr["name"])
        return int(self.vers.get(m, 1)) if m else 1

    def stamp_version(self, fr, mtime):
        """source version named by a .pyc header (0: none / not the current foreign source)."""
        m = self.names.get(fr["name"])
        if m:
            d = mtime - T0
            return d // 10 if d > 0 and d % 10 == 0 else 0
        try:
            return 1 if fr["path"] and int(os.stat(fr["path"]).st_mtime) == mtime else 0
        except OSError:
            return 0

    def marker_of_function(self, fn):
        self.tls.quiet = True
        try:
            return marker_of_path(fn("/c16probe/x.py"))
        except Exception as ex:       # noqa
            return "?" + type(ex).__name__
        finally:
            self.tls.quiet = False

    def on_path(self, p):
        if getattr(self.tls, "quiet", False):
            return
        fr = self.top()
        if fr is None:
            return
        if fr["pathed"]:
            return            # e.g. ModuleSpec.cached of a module imported inside this import
        fr["pathed"] = True
        self.ensure_lookup(fr)
        self.log("Path", fr, marker=marker_of_path(p))

    def on_setglobal(self, value, do):
        fr = self.top()
        if fr is None:
            do()
            if self.armed:
                self.log("SetGlobal", None, marker=self.marker_of_function(value))
            return
        if not fr["patched"]:
            self.gate(fr, "Patch")
            self.ensure_lookup(fr)
            do()
            fr["patched"] = True
            self.log("Patch", fr, marker=self.marker_of_function(value))
        else:
            self.gate(fr, "Restore")
            do()
            self.log("Restore", fr, marker=self.marker_of_function(value))

    def on_read(self, fr, path, data):
        try:
            mtime, body = parse_pyc(data)
        except Exception:         # noqa
            return
        self.log("Read", fr, marker=marker_of_path(path), sv=self.stamp_version(fr, mtime), body=body)

    def on_write(self, fr, path, data):
        mtime, body = parse_pyc(bytes(data))
        self.log("Write", fr, marker=marker_of_path(path), sv=self.stamp_version(fr, mtime), body=body)


def _probe(mod):
    def r(fn):
        try:
            fn()
            return None
        except BaseException as ex:      # noqa
            return type(ex).__name__
    return {"ver": getattr(mod, "VERSION", None), "g": r(lambda: mod.g("s")), "assign": r(mod.assign),
            "h1": r(lambda: mod.h(1)), "hs": r(lambda: mod.h("s")), "cm": r(lambda: mod.C().m("s")),
            "cn": r(lambda: mod.C().n("s"))}


def child_main():
    """One interpreter run.  argv[1]: JSON file {tree, common, hook, order | schedule, vers}."""
    import importlib
    import threading
    import warnings
    warnings.simplefilter("ignore")
    spec = json.load(open(sys.argv[1]))
    rec = _Recorder(spec)
    sys.path[:0] = [spec["tree"], spec["common"]]
    out = {"behav": {}, "errors": [], "sched_problem": None}
    hooked = {m: c for m, c in spec["hook"].items() if c != "off"}
    if hooked:
        from beartype import BeartypeConf, BeartypeDecorPlace
        from beartype.claw import beartype_package
        for m, c in sorted(hooked.items()):
            kw = dict(CONF_KW[c])
            for o in ("claw_decor_place_func", "claw_decor_place_type"):
                if o in kw:
                    kw[o] = getattr(BeartypeDecorPlace, kw[o])
            if "violation_type" in kw:
                kw["violation_type"] = ValueError
            beartype_package(PKG[m], conf=BeartypeConf(**kw))
        rec.install_beartype()
    rec.armed = True
    mods = {}

    def imp(m):
        try:
            mods[m] = importlib.import_module(PKG[m] + ".mod")
        except BaseException as ex:      # noqa
            out["errors"].append(f"import {m}: {type(ex).__name__}: {ex}"[:300])

    if spec.get("schedule"):
        steps = [(int(t), a) for t, a, *_ in spec["schedule"]]
        per = {}
        for t, a, *rest in spec["schedule"]:
            if a == "Lookup":
                per.setdefault(int(t), []).append(rest[0])
        for m in sorted({x for v in per.values() for x in v}):     # parent packages first, unscheduled
            try:
                importlib.import_module(PKG[m])
            except BaseException as ex:      # noqa
                out["errors"].append(f"import package {m}: {type(ex).__name__}: {ex}"[:300])
        rec.sched = _Sched(steps)

        def body(t, ms):
            rec.thread_no[threading.get_ident()] = t
            try:
                for m in ms:
                    imp(m)
            finally:
                rec.sched.done(t)
        ths = [threading.Thread(target=body, args=(t, ms)) for t, ms in sorted(per.items())]
        for x in ths:
            x.start()
        rec.sched.drive()
        for x in ths:
            x.join(30)
        out["sched_problem"] = rec.sched.problem
        rec.sched = None
    else:
        for m in spec["order"]:
            imp(m)
    rec.armed = False
    for m, mod in mods.items():
        out["behav"][m] = _probe(mod)
    out["events"] = rec.events
    out["global_restored"] = getattr(rec.be.cache_from_source, "__c16_original__", False)
    sys.stdout.write(RESULT_TAG + json.dumps(out) + "\n")
    sys.stdout.flush()


# =====================================================================================
# parent side
# =====================================================================================
MAIN_CFG = """SPECIFICATION Spec
CONSTANTS
  Modules = %(mods)s
  Confs = %(confs)s
  Threads = %(threads)s
  MaxSrc = %(maxsrc)d
  MaxRuns = %(maxruns)d
  MarkerMode = "%(marker)s"
  MarkerClasses = %(classes)s
  PatchMode = "%(patch)s"
  Nest = %(nest)s
%(inv)s
CHECK_DEADLOCK FALSE
"""
ALL_INV = "INVARIANT I1plain\nINVARIANT I1marked\nINVARIANT I2\nINVARIANT I3\n"

TRACE_CFG = """SPECIFICATION TSpec
CONSTANTS
  Modules = {"a", "b", "pa", "pb", %(foreign)s}
  Foreign = {%(foreign)s}
  Confs = {"default", "vt", "nopep", "ffirst", "flast", "tfirst", "tlbdh"}
  Threads = {1, 2}
  MaxSrc = 1000
  MaxRuns = 1000000
  MarkerMode = "%(marker)s"
  MarkerClasses = %(classes)s
  PatchMode = "%(patch)s"
  Nest = TRUE
CONSTRAINT Reached
POSTCONDITION Accepted
CHECK_DEADLOCK FALSE
"""
FOREIGN_IDS = ["f%d" % i for i in range(1, 9)]


def _set(items):
    return "{" + ", ".join(('"%s"' % i) if isinstance(i, str) else str(i) for i in items) + "}"


def _classes(classes):
    return "{" + ", ".join(_set(sorted(c)) for c in classes) + "}"


def _cfg(d, name, **kw):
    from verifkit.util import write_file
    p = dict(mods=_set(kw["mods"]), confs=_set(kw["confs"]), threads=_set(kw["threads"]), maxsrc=kw.get("maxsrc", 1),
             maxruns=kw.get("maxruns", 1), marker=kw["marker"], patch=kw["patch"],
             classes=_classes(kw.get("classes") or []),
             nest="TRUE" if kw.get("nest") else "FALSE", inv=kw.get("inv", ALL_INV))
    return write_file(d, name + ".cfg", MAIN_CFG % p)


def _unhash(x):
    """inverse of tlc._hashable for records used as function arguments (tags)."""
    if isinstance(x, tuple) and x and all(isinstance(i, tuple) and len(i) == 2 and isinstance(i[0], str) for i in x):
        return {k: _unhash(v) for k, v in x}
    return x


def facts(body):
    """canonical, human-readable form of the AST-relevant options of a body (violation keys)."""
    if not body or not body.get("hooked"):
        return "unhooked"
    k = body["key"]
    return {"claw_is_pep526": bool(k["p526"]), "claw_decor_place_func": PLACE_FULL.get(k["pf"], k["pf"]),
            "claw_decor_place_type": PLACE_FULL.get(k["pt"], k["pt"])}


class Ctx:
    def __init__(self, rep, root, seed):
        self.rep, self.root, self.seed = rep, root, seed
        self.common = os.path.join(root, "common")
        self.prefix = os.path.join(root, "pyc")
        os.makedirs(os.path.join(self.common, STUB))
        with open(os.path.join(self.common, STUB, "__init__.py"), "w") as fh:
            fh.write(STUB_SRC)
        os.makedirs(self.prefix)
        env = dict(os.environ)
        env.pop("PYTHONDONTWRITEBYTECODE", None)
        env["PYTHONPYCACHEPREFIX"] = self.prefix     # nothing is ever written next to /repo's sources
        self.env = env
        self.ntree = 0
        self.child_runs = 0
        self.marker_mode = None
        self.classes = []              # observed marker function: configurations grouped by marker string
        self.stale = []                # StalePairs as computed by TLC for that function
        self.patch_mode = None
        self.thread_aware = False      # the global is assigned, but consulted per thread (see _probe_patch)
        self.tables = None
        self.marker_of_conf = {}       # conf name -> real marker string
        self.tag_of_marker = {"": {"marked": False, "id": "-"}}
        self.ref = {}                  # (conf, version) -> behaviour vector on an empty cache
        self.foreign = {STUB: "f1"}
        self.traces = []               # (behaviour description, [event, ...]) for R3
        import threading
        self.lock = threading.Lock()

    # ---- trees ---------------------------------------------------------------------
    def new_tree(self):
        with self.lock:
            self.ntree += 1
            n = self.ntree
        tree = os.path.join(self.root, "t%05d" % n)
        for m, p in PKG.items():
            os.makedirs(os.path.join(tree, p))
            for f in ("__init__.py", "mod.py"):
                self.write_source(tree, m, 1, f)
        return tree

    @staticmethod
    def write_source(tree, m, ver, fname="mod.py"):
        fn = os.path.join(tree, PKG[m], fname)
        with open(fn, "w") as fh:
            fh.write(module_source(ver))
        os.utime(fn, (T0 + 10 * ver, T0 + 10 * ver))

    def run_child(self, tree, hook, order=None, schedule=None, vers=None):
        import subprocess
        spec = {"tree": tree, "common": self.common, "hook": hook, "order": order or [], "schedule": schedule,
                "vers": vers or {}, "nogate": ["Patch", "Restore"] if self.thread_aware else []}
        with self.lock:
            self.child_runs += 1
            n = self.child_runs
        sp = os.path.join(tree, "run%d.json" % n)
        with open(sp, "w") as fh:
            json.dump(spec, fh)
        # -S: no site-packages (.pth start-up hooks); beartype comes from $PYTHONPATH = $VERIF_REPO
        cp = subprocess.run([sys.executable, "-S", "-W", "ignore", "-c",
                             "from verifkit.drivers.c16 import child_main; child_main()", sp],
                            capture_output=True, text=True, env=self.env, timeout=300)
        for line in cp.stdout.splitlines():
            if line.startswith(RESULT_TAG):
                return json.loads(line[len(RESULT_TAG):])
        raise RuntimeError(f"interpreter run produced no result (exit {cp.returncode}):\n{cp.stderr[-1500:]}")

    def project_dir(self, tree, m):
        """the .pyc files of module m's mod.py: {marker string: {"sv", "body"}}."""
        d = self.prefix + os.path.abspath(os.path.join(tree, PKG[m]))
        out = {}
        if os.path.isdir(d):
            for fn in sorted(os.listdir(d)):
                if fn.startswith("mod.") and fn.endswith(".pyc"):
                    with open(os.path.join(d, fn), "rb") as fh:
                        mtime, body = parse_pyc(fh.read())
                    dv = mtime - T0
                    out[marker_of_path(fn)] = {"sv": dv // 10 if dv > 0 and dv % 10 == 0 else -1, "body": body}
        return out

    # ---- behaviours ------------------------------------------------------------------
    def exec_behaviour(self, beh):
        """beh = {"steps": [{"op": "edit", "m"} | {"op": "run", "hook", "order" | "schedule"}]}
        -> list of run records (one per run step) and the raw event log."""
        tree = self.new_tree()
        vers = {m: 1 for m in PKG}
        runs, log = [], [{"ev": "Reset"}]
        for st in beh["steps"]:
            if st["op"] == "edit":
                vers[st["m"]] += 1
                self.write_source(tree, st["m"], vers[st["m"]])
                log.append({"ev": "Edit", "m": st["m"]})
                continue
            out = self.run_child(tree, st["hook"], st.get("order"), st.get("schedule"), vers)
            hk = dict(st["hook"])
            hk.update({PKG[m]: c for m, c in st["hook"].items()})
            log.append({"ev": "Start", "hook": {m: c for m, c in hk.items() if c != "off"}})
            log.extend(out.pop("events"))
            log.append({"ev": "End"})
            runs.append({"out": out, "vers": dict(vers), "hook": st["hook"],
                         "dir": {m: self.project_dir(tree, m) for m in st["hook"]}})
        return runs, log

    # ---- R3: event normalisation --------------------------------------------------------
    def foreign_id(self, name):
        with self.lock:
            if name not in self.foreign:
                if len(self.foreign) >= len(FOREIGN_IDS):
                    return None
                self.foreign[name] = FOREIGN_IDS[len(self.foreign)]
            return self.foreign[name]

    def norm_events(self, log):
        """raw child events -> records for PycCacheTrace.tla (None: cannot be expressed)."""
        tree_ids = {PKG[m] + ".mod": m for m in PKG}
        tree_ids.update({p: p for p in PKG.values()})
        out = []
        for e in log:
            ev = e["ev"]
            if ev in ("Reset", "Start", "End", "Edit"):
                out.append((e, dict(e)))
                continue
            name = e.get("name")
            if name is None:
                return None, f"assignment to importlib's global outside any import: {e}"
            mid = tree_ids.get(name) or self.foreign_id(name)
            if mid is None or (self.thread_aware and ev in ("Patch", "Restore")):
                continue
            is_foreign = mid.startswith("f")
            r = {"ev": ev, "th": e["th"], "m": mid}
            if "marker" in e:
                tag = self.tag_of_marker.get(e["marker"])
                if tag is None:
                    return None, f"unknown marker {e['marker']!r} in {e}"
                r["tag"] = tag
            if "sv" in e:
                r["sv"] = e["sv"]
            if "body" in e:
                if e["body"] is None:
                    continue
                r["body"] = e["body"]
                if is_foreign and not e.get("transform"):
                    r["body"] = {"hooked": False, "key": dict(NOKEY)}     # not one of our module texts
            if ev == "Lookup":
                r["hooked"], r["key"] = e["hooked"], e["key"]
            out.append((e, r))
        return out, None


# ---- R1 ------------------------------------------------------------------------------
def _r1(rep, d, tier):
    """design-level runs: intended designs hold, faithful disciplines and mutants are rejected."""
    from concurrent.futures import ThreadPoolExecutor
    from verifkit import tlc
    big = tier == "thorough"
    ab = ["a", "b"]
    jobs = [
        # label, cfg kwargs, expected violated invariant(s) (None: must hold)
        ("ideal: confkey marker, locked patch, 2 threads, nested imports",
         dict(mods=ab, confs=["default", "nopep", "ffirst"] if big else ["default", "nopep"], threads=[1, 2], maxsrc=2,
              maxruns=2, marker="confkey", patch="locked", nest=True), None),
        ("ideal: confkey marker, no global (private), 2 threads, nested imports",
         dict(mods=ab, confs=["default", "nopep", "ffirst"] if big else ["default", "nopep"], threads=[1, 2], maxsrc=2,
              maxruns=2, marker="confkey", patch="private", nest=True), None),
        ("ideal sequential: all configurations, 3 runs",
         dict(mods=["a"], confs=ALL_CONFS, threads=[1], maxsrc=2, maxruns=3, marker="confkey", patch="locked",
              nest=False), None),
        ("mutant v0230 marker (faithful), sequential",
         dict(mods=["a"], confs=ALL_CONFS, threads=[1], maxsrc=2, maxruns=2, marker="v0230", patch="locked",
              nest=False), ("I2",)),
        ("mutant unlocked patch (faithful), 2 threads",
         dict(mods=ab, confs=["default"], threads=[1, 2], maxsrc=1, maxruns=1, marker="confkey", patch="unlocked",
              nest=False), ("I1plain", "I1marked")),
        ("mutant unlocked patch (faithful), 1 thread, nested import",
         dict(mods=ab, confs=["default"], threads=[1], maxsrc=1, maxruns=1, marker="confkey", patch="unlocked",
              nest=True), ("I1marked",)),
        ("mutant leaky patch (never restored)",
         dict(mods=ab, confs=["default"], threads=[1], maxsrc=1, maxruns=2, marker="confkey", patch="leaky",
              nest=False, inv="INVARIANT I3\n"), ("I3",)),
    ]

    if big:
        jobs.append(("ideal: confkey marker, locked patch, 2 threads, nested imports, 3 runs",
                     dict(mods=ab, confs=["default", "nopep"], threads=[1, 2], maxsrc=2, maxruns=3, marker="confkey",
                          patch="locked", nest=True), None))

    def one(i):
        label, kw, want = jobs[i]
        cfg = _cfg(d, "r1_%d" % i, **kw)
        return tlc.run_tlc("PycCache.tla", cfg, workers=2, coverage=want is None)
    with ThreadPoolExecutor(len(jobs)) as ex:
        results = list(ex.map(one, range(len(jobs))))
    return jobs, results


def _r1_judge(rep, jobs, results):
    """(main thread) verdicts of the design-level runs."""
    for (label, kw, want), res in zip(jobs, results):
        rep.tlc(res, label)
        if want is None:
            if res.violated:
                rep.machinery(f"PycCache.tla [{label}] violates {res.violated}: the intended design is itself wrong")
            ignore = {"Finish"} if kw["patch"] == "locked" else {"Patch", "Restore"} if kw["patch"] == "private" else set()
            zero = [a for a in res.zero_actions() if a not in ignore]
            if zero:
                rep.machinery(f"vacuous TLC run [{label}]: actions never taken: {zero}")
        else:
            if res.violated not in want:
                rep.machinery(f"spec mutant [{label}] should violate {want}, TLC says {res.violated}: "
                              f"the model cannot tell the designs apart")
            rep.add("spec_mutants_killed")


def _tables(rep, d, marker="confkey", classes=None, maxruns=0, inv=""):
    """Want(c), the file tag per configuration and StalePairs, as computed by TLC from PycCache.tla."""
    from verifkit import tlc
    from verifkit.util import write_file
    write_file(d, "MCTables.tla", "---- MODULE MCTables ----\nEXTENDS PycCache, Json\nASSUME PrintT(ToJson(Tables))\n====\n")
    cfg = _cfg(d, "MCTables_" + marker, mods=["a"], confs=ALL_CONFS, threads=[1], maxsrc=1, maxruns=maxruns,
               marker=marker, classes=classes, patch="private", nest=False, inv=inv)
    res = tlc.run_tlc(os.path.join(d, "MCTables.tla"), cfg, workers=1)
    rows = [r for r in res.printed if isinstance(r, dict) and "want" in r]
    return res, rows[0] if rows else None


def _scan_events(rep, log, beh):
    """Direct reading of one run's events, independent of any model: the loader transformed a module
    it had looked up as unhooked (or vice versa), or wrote transformed bytecode to an unmarked file."""
    found = False
    looked, transformed = {}, {}
    for e in log:
        k = (e.get("th"), e.get("name"))
        if e["ev"] == "Lookup":
            looked[k] = e["hooked"]
        elif e["ev"] == "Compile":
            transformed[k] = bool(e.get("transform"))
            if k in looked and looked[k] != transformed[k]:
                found = True
                rep.violation({"transform_mismatch": {"looked_up_as_hooked": looked[k], "transformed": transformed[k]}},
                              f"module {e['name']}: get_code looked it up as {'hooked' if looked[k] else 'unhooked'} but "
                              f"source_to_code {'transformed' if transformed[k] else 'did not transform'} it "
                              f"(run of {beh['steps']})", beh)
        elif e["ev"] == "Write" and e.get("marker") == "" and (transformed.get(k) or e["body"]["hooked"]):
            found = True
            rep.violation({"mixed": "hooked bytecode in unmarked file", "module_in_tree": e["name"].startswith(("pa", "pb"))},
                          f"module {e['name']}: transformed bytecode written to the unmarked file (run of {beh['steps']})", beh)
    return found


# ---- reference runs (empty cache) --------------------------------------------------------
def _references(rep, ctx, d, pool):
    """The statement's own reference: every configuration on an empty cache, both source versions.
    Also validates concretiser and projection against the spec's tables, and detects the marker
    and patch disciplines of the implementation under test."""
    tabs_f = pool.submit(_tables, rep, d)
    cases = [(c, v) for c in ALL_CONFS + ["off"] for v in (1, 2)]

    def one(cv):
        c, v = cv
        steps = [{"op": "edit", "m": "a"}] * (v - 1) + [{"op": "run", "hook": {"a": c}, "order": ["a"]}]
        return ctx.exec_behaviour({"steps": steps})
    res = list(pool.map(one, cases))
    tres, tabs = tabs_f.result()
    rep.tlc(tres, "Tables (Want, tags)")
    if tabs is None:
        rep.machinery("PycCache.tla Tables were not emitted")
    want = tabs["want"]
    patched = {}
    scanned = [_scan_events(rep, log, {"kind": "seq", "steps": [{"op": "run", "hook": {"a": c}, "order": ["a"]}]})
               for (c, v), (runs, log) in zip(cases, res)]
    if any(scanned):
        return False
    for (c, v), (runs, log) in zip(cases, res):
        r = runs[-1]
        rep.count()
        if r["out"]["errors"]:
            rep.machinery(f"reference run {c}/v{v} failed: {r['out']['errors']}")
        b = r["out"]["behav"]["a"]
        files = r["dir"]["a"]
        if b["ver"] != v or behaviour_key(b) != want[c]:
            rep.machinery(f"oracle cannot be trusted: on an empty cache configuration {c} (source v{v}) behaves as "
                          f"{behaviour_key(b)} / version {b['ver']}, PycCache.tla Want({c}) = {want[c]}")
        if len(files) != 1:
            rep.machinery(f"reference run {c}/v{v}: expected one bytecode file, found {sorted(files)}")
        (mk, slot), = files.items()
        if slot["body"] != want[c] or slot["sv"] != v:
            rep.machinery(f"projection cannot be trusted: bytecode written under {c} projects to {slot}, "
                          f"PycCache.tla Want({c}) = {want[c]}, source version {v}")
        if c != "off" and mk == "":
            rep.violation({"marker": "hooked bytecode written to unmarked file", "conf": facts(want[c])},
                          f"hooked import under {c} cached its transformed bytecode in the unmarked file",
                          {"kind": "seq", "steps": [{"op": "run", "hook": {"a": c}, "order": ["a"]}]})
        if c == "off" and mk != "":
            rep.violation({"marker": "unhooked bytecode written to marked file"},
                          f"unhooked import cached its bytecode in a marked file ({mk})",
                          {"kind": "seq", "steps": [{"op": "run", "hook": {"a": c}, "order": ["a"]}]})
        if ctx.marker_of_conf.setdefault(c, mk) != mk:
            rep.machinery(f"marker of configuration {c} is not stable: {ctx.marker_of_conf[c]!r} vs {mk!r}")
        ctx.ref[(c, v)] = b
        patched[c] = any(e["ev"] == "Patch" and e.get("name") == "pa.mod" for e in log)
        ctx.traces.append(({"kind": "seq", "steps": [{"op": "edit", "m": "a"}] * (v - 1) +
                            [{"op": "run", "hook": {"a": c}, "order": ["a"]}]}, log))
    if rep.violations:
        return False
    # marker discipline: the observed function configuration -> marker, as a partition
    mk = {c: ctx.marker_of_conf[c] for c in ALL_CONFS}
    ctx.marker_mode = "observed"
    ctx.classes = [sorted(c for c in ALL_CONFS if mk[c] == s) for s in sorted(set(mk.values()))]
    # one TLC run: tags and StalePairs of that function, and the design-level verdict (two sequential
    # runs over all configurations): I2 must fail iff StalePairs is non-empty
    tres2, tabs2 = _tables(rep, d, "observed", ctx.classes, maxruns=2, inv="INVARIANT I2\n")
    rep.tlc(tres2, f"observed marker function {ctx.classes}: Tables, StalePairs, I2")
    if tabs2 is None:
        rep.machinery("PycCache.tla Tables were not emitted for the observed marker function")
    for c in ALL_CONFS:
        ctx.tag_of_marker[mk[c]] = tabs2["tag"][c]
    ctx.stale = sorted(tuple(p) for p in tabs2["stale"])
    if bool(tres2.violated) != bool(ctx.stale) or tres2.violated not in (None, "I2"):
        rep.machinery(f"PycCache.tla: I2 on the observed marker function is {tres2.violated}, StalePairs = {ctx.stale}")
    # patch discipline
    hooked_p = {patched[c] for c in ALL_CONFS}
    if hooked_p == {True}:
        ctx.patch_mode = "locked" if patched["off"] else "unlocked"
    elif hooked_p == {False}:
        ctx.patch_mode = "private"
    else:
        rep.machinery(f"patch discipline differs between configurations: {patched}")
    ctx.tables = tabs
    rep.note(f"implementation under test: observed marker function {dict(zip(sorted(set(mk.values())), ctx.classes))} "
             f"PatchMode={ctx.patch_mode}; TLC StalePairs = {ctx.stale}")
    return True


# ---- R2 sequential ------------------------------------------------------------------------
def _macro_graph(g):
    """idle node -> [(step description, next idle node)] of a dumped single-thread graph."""
    from verifkit.tlc import parse_action
    out = g.out()
    macro = {}
    for n, st in g.nodes.items():
        if st["phase"] != "idle":
            continue
        edges = []
        for a, t in out[n]:
            name, args = parse_action(a) if not a.startswith("StartRunWith") else ("StartRunWith", [])
            if name == "EditSource":
                edges.append(({"op": "edit", "m": args[0]}, t))
            elif name == "StartRunWith":
                hook = dict(g.nodes[t]["hook"])
                stack = [(t, [])]
                while stack:
                    x, order = stack.pop()
                    for a2, t2 in out[x]:
                        n2, args2 = parse_action(a2)
                        if n2 == "EndRun":
                            if order:
                                edges.append(({"op": "run", "hook": hook, "order": list(order)}, t2))
                        else:
                            stack.append((t2, order + [args2[1]] if n2 == "Lookup" else order))
        macro[n] = edges
    return macro


def _macro_paths(g, macro, rnd, limit, stale=()):
    """all run sequences (maximal macro paths, trailing/leading edits trimmed); a seeded sample
    that still covers every (hooks of first run, hooks of second run) pair -- and first of all the
    pairs for which TLC predicts a stale reuse -- when there are more than limit."""
    init = g.init[0]
    paths = []

    def walk(n, acc):
        nxt = [(s, t) for s, t in macro[n] if not (s["op"] == "edit" and not acc)]
        if not nxt:
            p = list(acc)
            while p and p[-1][0]["op"] == "edit":
                p.pop()
            if p:
                paths.append(p)
            return
        for s, t in nxt:
            acc.append((s, t))
            walk(t, acc)
            acc.pop()
    walk(init, [])
    uniq = {}
    for p in paths:
        uniq.setdefault(json.dumps([s for s, _ in p], sort_keys=True), p)
    paths = [uniq[k] for k in sorted(uniq)]
    total = len(paths)
    if limit is not None and total > limit:
        rnd.shuffle(paths)
        # the pairs for which TLC predicts a stale reuse come first: run c1 ; run c2 (no edit)
        want_pairs = {tuple(p) for p in stale}

        def pair(p):
            if len(p) >= 2 and p[0][0]["op"] == "run" and p[1][0]["op"] == "run":
                return (p[0][0]["hook"].get("a"), p[1][0]["hook"].get("a"))
            return None
        first = {}
        for p in paths:
            if pair(p) in want_pairs:
                first.setdefault(pair(p), p)
        head = [first[k] for k in sorted(first)]
        paths = head + [p for p in paths if all(p is not q for q in head)]
        chosen, seen_prefix, rest = [], set(), []
        for p in paths:
            nruns, k = 0, 0
            for k, (s, _) in enumerate(p):
                nruns += s["op"] == "run"
                if nruns == 2:
                    break
            pre = json.dumps([s["hook"] for s, _ in p[:k + 1] if s["op"] == "run"], sort_keys=True)
            if pre not in seen_prefix:
                seen_prefix.add(pre)
                chosen.append(p)
            else:
                rest.append(p)
        paths = (chosen + rest)[:limit]
    return paths, total


def _slots_expected(ctx, st, m):
    """TLC node state -> {real marker string: slot} of module m (files that exist)."""
    exp = {}
    if st["plain"][m]["sv"] != 0:
        exp[""] = st["plain"][m]
    for hk, slot in st["marked"][m].items():
        if slot["sv"] != 0:
            tag = _unhash(hk)
            ms = [s for s, t in ctx.tag_of_marker.items() if t == tag]
            exp[ms[0] if ms else "?" + json.dumps(tag, sort_keys=True)] = slot
    return exp


def _check_global(rep, out, beh):
    """(I3) observed directly: what importlib's global names when the run ends."""
    if not out.get("global_restored", True):
        rep.violation({"global_not_restored": True},
                      f"importlib._bootstrap_external.cache_from_source is still patched at the end of a run of "
                      f"{beh['steps']}", beh)


def _check_mixing(rep, beh, ri, r):
    """(I1) on the real files of the tree's modules after a sequential run."""
    found = False
    for m, files in sorted(r["dir"].items()):
        for mk, slot in files.items():
            if (mk == "") == slot["body"]["hooked"]:
                found = True
                what = "hooked bytecode in unmarked file" if mk == "" else "unhooked bytecode in marked file"
                rep.violation({"mixed": what, "hook": r["hook"]},
                              f"run {ri + 1} of {beh['steps']}: {what}: {PKG[m]}/mod .pyc marker {mk!r} holds {slot}", beh)
    return found


def _check_run(rep, ctx, beh, ri, r, exp_state, origin):
    """one real run against (a) the empty-cache reference = C16 itself, (b) I1 on the real files,
    (c) the faithful model's prediction (drift only)."""
    out = r["out"]
    if out["errors"]:
        rep.violation({"import_error": out["errors"][0][:120], "hook": r["hook"]},
                      f"import failed in run {ri} of {beh['steps']}: {out['errors']}", beh)
        return
    want = ctx.tables["want"]
    _check_global(rep, out, beh)
    for m, b in sorted(out["behav"].items()):
        rep.count()
        c, v = r["hook"][m], r["vers"][m]
        ref = ctx.ref[(c, v)]
        if b != ref:
            got = behaviour_key(b)
            if b["ver"] != v:
                key = {"stale_source": {"executed_version": b["ver"], "current_version": v}, "read_under": facts(want[c])}
            else:
                key = {"written_under": facts(got), "read_under": facts(want[c])}
            hist = "; ".join(("edit " + s["m"]) if s["op"] == "edit" else "run " + json.dumps(s["hook"], sort_keys=True)
                             for s in beh["steps"])
            rep.violation(key, f"run {ri + 1} of [{hist}]: module {m} under {c} (source v{v}) behaves as {b}, "
                               f"the same run on an empty cache behaves as {ref}: cached bytecode written under "
                               f"{facts(got)} was reused under {facts(want[c])}", beh)
        if exp_state is not None:
            e = exp_state["executed"][m]
            if e["sv"] != 0 and (behaviour_key(b) != e["body"] or b["ver"] != e["sv"]):
                rep.spec_drift(f"{origin}: run {ri + 1} of {beh['steps']}: {m} executed {behaviour_key(b)} v{b['ver']}, "
                               f"faithful model says {e}")
    _check_mixing(rep, beh, ri, r)
    for m, files in sorted(r["dir"].items()):
        if exp_state is not None:
            exp = _slots_expected(ctx, exp_state, m)
            if exp != files:
                rep.spec_drift(f"{origin}: after run {ri + 1} of {beh['steps']}: files of {m} are {files}, "
                               f"faithful model says {exp}")


def _seq_configs(tier):
    return [("seq1", dict(mods=["a"], confs=ALL_CONFS, threads=[1], maxsrc=2, maxruns=3), 120 if tier == "quick" else None),
            ("seq2", dict(mods=["a", "b"], confs=["default", "nopep"], threads=[1], maxsrc=1 if tier == "quick" else 2,
                          maxruns=2), 30 if tier == "quick" else 500)]


def _conc_kw(ctx):
    return dict(mods=["a", "b"], confs=["default", "nopep"], threads=[1, 2], maxsrc=1, maxruns=1,
                marker=ctx.marker_mode, classes=ctx.classes, patch=ctx.patch_mode, nest=False)


def _launch_tlc(ctx, d, tier, tpool):
    """all TLC runs over the faithful model (disciplines as detected), in parallel."""
    from verifkit import tlc
    fut = {}
    for label, kw, _ in _seq_configs(tier):
        cfg = _cfg(d, label, marker=ctx.marker_mode, classes=ctx.classes, patch=ctx.patch_mode, nest=False, inv="", **kw)
        fut[label] = tpool.submit(tlc.run_tlc, "PycCache.tla", cfg, workers=4, coverage=True, dump_dot=os.path.join(d, label))
    for inv in ("I1marked", "I1plain"):
        cfg = _cfg(d, "conc_" + inv, inv="INVARIANT %s\n" % inv, **_conc_kw(ctx))
        fut["conc_" + inv] = tpool.submit(tlc.run_tlc, "PycCache.tla", cfg, workers=1)    # one worker: BFS-shortest, reproducible
    cfg = _cfg(d, "conc", inv="", **_conc_kw(ctx))
    fut["conc"] = tpool.submit(tlc.run_tlc, "PycCache.tla", cfg, workers=4, coverage=True, dump_dot=os.path.join(d, "conc"))
    return fut


def _counterexample_case(rep, res, inv):
    hook = next((st["hook"] for a, st in res.error_trace if st.get("phase") == "run"), None)
    if hook is None:
        rep.machinery("cannot read the hook assignment from TLC's counterexample")
    return {"origin": f"TLC counterexample of {inv}", "hook": dict(hook),
            "schedule": _schedule_of([a for a, _ in res.error_trace]), "final": None, "complete": False}


def _probe_patch(rep, ctx, fut):
    """The implementation assigns importlib's global.  Is the assignment consulted by OTHER threads
    (PatchMode "unlocked") or only by the assigning thread's own hooked import ("private" in effect)?
    Decided by replaying TLC's counterexample of I1marked for the unlocked discipline."""
    res = fut["conc_I1marked"].result()
    if res.violated != "I1marked":
        rep.machinery("PycCache.tla (unlocked patch, 2 threads) does not violate I1marked")
    case = _counterexample_case(rep, res, "I1marked")
    beh = {"kind": "conc", "steps": [{"op": "run", "hook": case["hook"], "schedule": case["schedule"]}]}
    runs, _ = ctx.exec_behaviour(beh)
    r = runs[0]
    if r["out"]["sched_problem"] or r["out"]["errors"]:
        rep.machinery(f"cannot determine the patch discipline of the implementation: schedule {case['schedule']} -> "
                      f"{r['out']['sched_problem']} {r['out']['errors']}")
    bad = [(m, mk) for m, fs in r["dir"].items() for mk, s in fs.items() if (mk == "") == s["body"]["hooked"]]
    return not bad


def _r2_sequential(rep, ctx, d, pool, tier, rnd, fut):
    from verifkit import tlc
    from verifkit.report import canon
    for label, kw, limit in _seq_configs(tier):
        dot = os.path.join(d, label)
        res = fut[label].result()
        rep.tlc(res, f"faithful model ({ctx.marker_mode}/{ctx.patch_mode}) {label}: graph for replay")
        ignore = {"Patch", "Restore"} if ctx.patch_mode == "private" else {"Finish"} if ctx.patch_mode == "locked" else set()
        zero = [a for a in res.zero_actions() if a not in ignore and not (a == "EditSource" and kw["maxsrc"] == 1)]
        if zero:
            rep.machinery(f"vacuous TLC run {label}: actions never taken: {zero}")
        g = tlc.parse_dot(dot + ".dot")
        macro = _macro_graph(g)
        paths, total = _macro_paths(g, macro, rnd, limit, ctx.stale if label == "seq1" else ())
        rep.add("run_sequences_in_model", total)
        rep.add("run_sequences_replayed", len(paths))
        behs = [{"kind": "seq", "steps": [s for s, _ in p]} for p in paths]
        results = list(pool.map(ctx.exec_behaviour, behs))
        for p, beh, (runs, log) in zip(paths, behs, results):
            ends = [t for s, t in p if s["op"] == "run"]
            for ri, (r, t) in enumerate(zip(runs, ends)):
                _check_run(rep, ctx, beh, ri, r, g.nodes[t], label)
            if len(runs) >= 2:
                rep.nontrivial(json.dumps(beh["steps"], sort_keys=True))
            ctx.traces.append((beh, log))
        if behs:
            rep.sample({"config": label, "run_sequence": behs[len(behs) // 2]["steps"]})
    want = ctx.tables["want"]
    shown = set(rep.violation_keys) | set(rep.known_hit)
    for c1, c2 in ctx.stale:
        k = canon({"written_under": facts(want[c1]), "read_under": facts(want[c2])})
        if k not in shown:
            rep.spec_drift(f"TLC predicts a stale reuse for run {c1} ; run {c2} (same marker, different AST key) but "
                           f"no real run showed it")


# ---- R2 concurrent ----------------------------------------------------------------------
def _schedule_of(trace_or_path):
    from verifkit.tlc import parse_action
    steps = []
    for a in trace_or_path:
        name, args = parse_action(a)
        if name in ("Lookup",):
            steps.append([args[0], name, args[1]])
        elif name in ("Patch", "ComputePath", "ReadCache", "Compile", "WriteCache", "Restore", "Finish"):
            steps.append([args[0], name])
    return steps


def _r2_concurrent(rep, ctx, d, pool, tier, rnd, fut):
    from verifkit import tlc
    cases = []
    # (1) TLC's own counterexamples of I1 for the discipline under test, one per direction
    for inv in ("I1marked", "I1plain"):
        res = fut["conc_" + inv].result()
        rep.tlc(res, f"faithful model, 2 threads: {inv}")
        if res.violated:
            cases.append(_counterexample_case(rep, res, inv))
    # (2) paths of the dumped graph
    dot = os.path.join(d, "conc")
    res = fut["conc"].result()
    rep.tlc(res, f"faithful model ({ctx.marker_mode}/{ctx.patch_mode}), 2 threads: graph for schedules")
    g = tlc.parse_dot(dot + ".dot")
    out = {n: sorted(v) for n, v in g.out().items()}
    n_sched = 60 if tier == "quick" else 500
    seen = set()
    starts = [(a, t) for a, t in out[g.init[0]]]
    tries = 0
    while len(seen) < n_sched and tries < n_sched * 20:
        tries += 1
        a, n = starts[rnd.randrange(len(starts))]
        labels = []
        hook = dict(g.nodes[n]["hook"])
        while True:
            nxt = out[n]
            if not nxt:
                break
            a, t = nxt[rnd.randrange(len(nxt))]
            if a == "EndRun":
                # end the run only when every module was imported: longer schedules
                others = [x for x in nxt if x[0] != "EndRun"]
                if others:
                    a, t = others[rnd.randrange(len(others))]
            labels.append(a)
            n = t
            if a == "EndRun":
                break
        sched = _schedule_of(labels)
        if len({s[0] for s in sched}) < 2:
            continue
        k = json.dumps([hook, sched])
        if k in seen:
            continue
        seen.add(k)
        cases.append({"origin": "path of the dumped 2-thread graph", "hook": hook, "schedule": sched, "final": g.nodes[n],
                      "complete": True})
    rep.add("schedules_replayed", len(cases))
    for c in cases[:6]:
        c["follow"] = True            # consequences for later processes: a few cases suffice (same finding)

    def one(case):
        beh = {"kind": "conc", "steps": [{"op": "run", "hook": case["hook"], "schedule": case["schedule"]}]}
        runs, log = ctx.exec_behaviour(beh)
        r = runs[0]
        follow = None
        bad = [(m, mk, s) for m, fs in r["dir"].items() for mk, s in fs.items() if (mk == "") == s["body"]["hooked"]]
        if bad and case.get("follow"):
            # what a later process sees: hook every module (default) / none, on the cache left behind
            tree_steps = beh["steps"] + [{"op": "run", "hook": {m: "default" for m in case["hook"]}, "order": sorted(case["hook"])},
                                         {"op": "run", "hook": {m: "off" for m in case["hook"]}, "order": sorted(case["hook"])}]
            fruns, _ = ctx.exec_behaviour({"kind": "conc", "steps": tree_steps})
            follow = fruns[1:]
        return beh, runs, log, bad, follow
    for case, (beh, runs, log, bad, follow) in zip(cases, pool.map(one, cases)):
        r = runs[0]
        rep.count()
        rep.nontrivial(json.dumps(case["schedule"]))
        if r["out"]["sched_problem"]:
            rep.spec_drift(f"schedule could not be followed ({case['origin']}): {r['out']['sched_problem']} in {case['schedule']}")
            continue
        _check_global(rep, r["out"], beh)
        if r["out"]["errors"]:
            rep.violation({"import_error": r["out"]["errors"][0][:120], "concurrent": True},
                          f"import failed under schedule {case['schedule']}: {r['out']['errors']}", beh)
            continue
        for m, mk, slot in bad:
            what = "hooked bytecode written to unmarked file" if mk == "" else "unhooked bytecode written to marked file"
            cons = []
            for fr in follow or []:
                for m2, b in sorted(fr["out"]["behav"].items()):
                    ref = ctx.ref[(fr["hook"][m2], 1)]
                    if b != ref:
                        cons.append(f"a later process with hook {fr['hook'][m2]} on {PKG[m2]} behaves as {b} instead of {ref}")
            rep.violation({"race": what},
                          f"two threads, hook {case['hook']}, schedule {case['schedule']} ({case['origin']}): "
                          f"{PKG[m]}/mod bytecode file with marker {mk!r} holds {slot['body']}. " + "; ".join(cons), beh)
        if not bad:
            for m, b in sorted(r["out"]["behav"].items()):
                if b != ctx.ref[(case["hook"][m], 1)]:
                    rep.violation({"concurrent_behaviour": facts(behaviour_key(b)), "read_under": case["hook"][m]},
                                  f"schedule {case['schedule']}: {m} behaves as {b}", beh)
        if case["final"] is not None:
            for m in sorted(case["hook"]):
                if m in r["dir"]:
                    exp = _slots_expected(ctx, case["final"], m)
                    if exp != r["dir"][m]:
                        rep.spec_drift(f"schedule {case['schedule']} hook {case['hook']}: files of {m} are {r['dir'][m]}, "
                                       f"faithful model says {exp}")
        ctx.traces.append((beh, log))
    rep.sample({"two_thread_schedule": cases[0]["schedule"], "hook": cases[0]["hook"]} if cases else "no schedule")


# ---- R3 -------------------------------------------------------------------------------------
def _r3_traces(rep, ctx, d, tier, rnd):
    from verifkit import tlc
    from verifkit.util import write_file
    cap = 20000 if tier == "quick" else 150000
    traces = list(ctx.traces)
    # first trace first (the very first hooked run of this check, with beartype's lazy imports)
    head, rest = traces[:1], traces[1:]
    rnd.shuffle(rest)
    cfg = write_file(d, "PycCacheTrace_gen.cfg", TRACE_CFG % {
        "foreign": ", ".join('"%s"' % f for f in FOREIGN_IDS), "marker": ctx.marker_mode,
        "classes": _classes(ctx.classes), "patch": ctx.patch_mode})
    dropped = 0
    for attempt in range(6):
        lines, meta, used = [], [], []
        for ti, (beh, log) in enumerate(head + rest):
            ev, problem = ctx.norm_events(log)
            if ev is None:
                rep.spec_drift(f"trace not expressible: {problem}")
                continue
            if len(lines) + len(ev) > cap:
                break
            used.append(ti)
            for raw, r in ev:
                lines.append(json.dumps(r, sort_keys=True))
                meta.append((ti, raw, r))
        path = os.path.join(d, "pyc_trace_%d.ndjson" % attempt)
        with open(path, "w") as fh:
            fh.write("\n".join(lines) + "\n")
        res = tlc.run_tlc("trace/PycCacheTrace.tla", cfg, workers=1, env={"TRACE_FILE": path}, heap="6g")
        rep.tlc(res, f"PycCacheTrace ({len(used)} behaviours, {len(lines)} events)")
        viols = [r for r in res.printed if isinstance(r, dict) and "viol" in r]
        rej = [r for r in res.printed if isinstance(r, dict) and "rejected_at" in r]
        if not res.violated:
            break
        pos = rej[-1]["rejected_at"] if rej else None
        if pos is None or pos > len(meta):
            rep.machinery("PycCacheTrace.tla rejected the log but did not say where:\n" + res.output[-1500:])
        ti, raw, r = meta[pos - 1]
        rep.spec_drift(f"recorded run is not a behaviour of PycCache.tla ({ctx.marker_mode}/{ctx.patch_mode}): "
                       f"event {r} of behaviour {(head + rest)[ti][0]['steps']}")
        dropped += 1
        bad = (head + rest)[ti]
        head = [t for t in head if t is not bad]
        rest = [t for t in rest if t is not bad]
    else:
        if rep.violations:      # an implementation that already breaks C16 need not follow the modelled protocol
            rep.note("PycCacheTrace.tla rejects the recorded runs of this (violating) implementation; R3 skipped")
            return 0
        rep.machinery("PycCacheTrace.tla rejects too many recorded runs: the trace specification does not bind")
    if dropped > max(3, len(used) // 20) and not rep.violations:
        rep.machinery(f"{dropped} recorded behaviours are not behaviours of the faithful model")
    rep.add("traces_validated_against_impl", len(used))
    rep.add("trace_events", len(lines))
    inv_foreign = {v: k for k, v in ctx.foreign.items()}
    want = ctx.tables["want"]
    for v in viols:
        ti, raw, r = meta[v["at"] - 1]
        beh = (head + rest)[ti][0]
        inv, mid = v["viol"], v["m"]
        if inv in ("I1marked", "I1plain"):
            what = "unhooked bytecode written to marked file" if inv == "I1marked" else "hooked bytecode written to unmarked file"
            if mid in inv_foreign:
                rep.violation({"nested_import": what, "module": inv_foreign[mid]},
                              f"{inv} (trace validation): module {inv_foreign[mid]}, imported inside the patch window of a "
                              f"hooked import of the same thread, {'read from' if r['ev'] == 'Read' else 'was cached in'} "
                              f"a file carrying beartype's marker although it is compiled without the transformation "
                              f"(event {raw})", beh)
            elif beh.get("kind") == "conc":
                rep.violation({"race": what}, f"{inv} (trace validation) at event {raw} of {beh['steps']}", beh)
            else:
                rep.violation({"mixed": what.replace("written to", "in"), "hook": next(
                    (s["hook"] for s in beh["steps"] if s["op"] == "run"), None)},
                    f"{inv} (trace validation) at event {raw} of {beh['steps']}", beh)
        elif inv == "I2":
            # the run and module: walk back to the Start event, forward to the Done event of that module
            i = v["at"] - 1
            start = next(j for j in range(i, -1, -1) if meta[j][2]["ev"] == "Start")
            hook = meta[start][2]["hook"].get(mid, "off")
            done = next((meta[j][2] for j in range(i, len(meta)) if meta[j][2]["ev"] == "Done" and meta[j][2]["m"] == mid
                         and meta[j][0] == ti), None)
            body = done["body"] if done else None
            if mid in ("pa", "pb") or beh.get("kind") == "conc":
                continue        # package __init__ modules repeat their module's finding; races are keyed above
            rep.violation({"written_under": facts(body), "read_under": facts(want[hook])},
                          f"I2 (trace validation): in {beh['steps']} module {mid} hooked with {hook} executed bytecode "
                          f"{body} (event {raw})", beh)
        elif inv == "I3":
            rep.violation({"global_not_restored": True}, f"I3 (trace validation) at event {raw} of {beh['steps']}", beh)
    return len(used)


def run(rep, tier, seed):
    from concurrent.futures import ThreadPoolExecutor
    from verifkit.util import scratch
    rep.assumptions += [
        "configuration names of PycCache.tla are related to BeartypeConf options by CONF_KW in drivers/c16.py",
        "the body of a .pyc is read off the unmarshalled code object (injected names, decorator order) and off the "
        "module's behaviour; both projections are validated against each other and against Want(c) on empty caches",
        "bytecode goes to a scratch PYTHONPYCACHEPREFIX (file names keep their markers); source edits change mtime and size",
        "decorator placement of classes under LAST_BEFORE_DECOR_HOSTILE is not distinguished from LAST",
    ]
    rnd = random.Random(seed)
    t_start = time.time()

    def tick(what):
        if os.environ.get("C16_TIMING"):
            print(f"[C16 timing] {time.time() - t_start:6.1f}s {what}", file=sys.stderr, flush=True)
    with scratch("c16-") as d, ThreadPoolExecutor(16) as pool:
        ctx = Ctx(rep, d, seed)
        r1 = pool.submit(_r1, rep, d, tier)
        # the first hooked run: compiles beartype into the scratch prefix (and records beartype's lazy imports)
        warm = ctx.exec_behaviour({"kind": "seq", "steps": [{"op": "run", "hook": {"a": "default", "b": "off"}, "order": ["a", "b"]}]})
        ctx.traces.append(({"kind": "seq", "steps": [{"op": "run", "hook": {"a": "default", "b": "off"}, "order": ["a", "b"]}]}, warm[1]))
        ok = not (_scan_events(rep, warm[1], ctx.traces[0][0]) or _check_mixing(rep, ctx.traces[0][0], 0, warm[0][0]))
        tick("warm-up run done")
        ok = ok and _references(rep, ctx, d, pool)
        tick("reference runs, tables, disciplines done")
        _r1_judge(rep, *r1.result())
        tick("R1 done")
        if ok:
            with ThreadPoolExecutor(5) as tpool:
                fut = _launch_tlc(ctx, d, tier, tpool)
                if ctx.patch_mode == "unlocked" and _probe_patch(rep, ctx, fut):
                    ctx.patch_mode, ctx.thread_aware = "private", True
                    rep.note("the implementation assigns importlib's global but a concurrent unhooked import does not "
                             "see it: modelled as PatchMode=private (Patch/Restore events dropped)")
                    for f in fut.values():
                        f.result()
                    fut = _launch_tlc(ctx, d, tier, tpool)
                tick("patch discipline probed")
                _r2_sequential(rep, ctx, d, pool, tier, rnd, fut)
                tick("R2 sequential done")
                _r2_concurrent(rep, ctx, d, pool, tier, rnd, fut)
                tick("R2 concurrent done")
            _r3_traces(rep, ctx, d, tier, rnd)
            tick("R3 done")
        rep.add("interpreter_runs", ctx.child_runs)
    # TLC explores its bounded models exhaustively; the replay covers every run sequence of the
    # one-module model in the thorough tier and seeded samples elsewhere
    rep.cov["exhaustive"] = False
    rep.cov["exhaustive_model_checking"] = True


def replay(rep, path):
    """Re-run one recorded case (a run sequence or a two-thread schedule) on fresh scratch trees and
    say whether the violation shows again (exit 1 if it does)."""
    from verifkit.util import scratch
    doc = json.load(open(path))
    case = doc["case"]
    rep.level = "exploration"
    rep.cov["rule"] = "behaviour of each import equals the same import on an empty cache; no mixed bytecode files"
    rep.sample(case)
    reproduced = []
    with scratch("c16r-") as d:
        ctx = Ctx(rep, d, 0)
        runs, log = ctx.exec_behaviour(case)
        for ri, (st, r) in enumerate(zip([s for s in case["steps"] if s["op"] == "run"], runs)):
            print("run", ri + 1, json.dumps(st, sort_keys=True))
            if r["out"].get("sched_problem"):
                print("  scheduler:", r["out"]["sched_problem"])
            for m, b in sorted(r["out"]["behav"].items()):
                c, v = r["hook"][m], r["vers"][m]
                ref_runs, _ = ctx.exec_behaviour({"steps": [{"op": "edit", "m": m}] * (v - 1) +
                                                  [{"op": "run", "hook": {m: c}, "order": [m]}]})
                ref = ref_runs[-1]["out"]["behav"][m]
                print(f"  {m} under {c}, source v{v}: {b}")
                print(f"  {' ' * len(m)} same import on an empty cache: {ref}   {'same' if ref == b else 'DIFFERENT'}")
                if ref != b:
                    reproduced.append(f"run {ri + 1}: {m} under {c} behaves differently from an empty cache")
                rep.count()
                rep.nontrivial(json.dumps([ri, m]))
            for m, files in sorted(r["dir"].items()):
                for mk, slot in sorted(files.items()):
                    mixed = (mk == "") == slot["body"]["hooked"]
                    print(f"  file {PKG[m]}/mod marker {mk!r}: {slot}{'   MIXED' if mixed else ''}")
                    if mixed:
                        reproduced.append(f"run {ri + 1}: {PKG[m]}/mod marker {mk!r} holds {slot['body']}")
        for e in log:
            if e["ev"] == "Write" and e.get("name") not in (None, "pa", "pb", "pa.mod", "pb.mod") and e["marker"] != "" \
                    and not e["body"]["hooked"]:
                print("  nested import:", e)
                if isinstance(doc.get("key"), dict) and "nested_import" in doc["key"]:
                    reproduced.append(f"{e['name']} cached in a file marked {e['marker']!r}")
    rep.nontrivial("replay")
    rep.nontrivial("case")
    if reproduced:
        print("REPRODUCED:", "; ".join(reproduced))
        rep.violation(doc.get("key"), doc.get("what") or "replayed: " + "; ".join(reproduced), case)
    else:
        print("NOT REPRODUCED")


if __name__ == "__main__":
    child_main()
