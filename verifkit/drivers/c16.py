"""C16 — hooked and unhooked bytecode caches never mix; cached bytecode is never stale.

R1  TLC checks PycCache.tla: the intended designs (marker encodes the AST-relevant options;
    global patched under a lock, or not at all) satisfy I1/I2/I3 with two threads and nested
    imports; the disciplines of beartype 0.23.0 ("v0230" marker, "unlocked" patch) and a
    never-restored patch ("leaky") are run as spec mutants and must be rejected.
R2  sequential: every run sequence of the faithful model (dumped state graph) is executed as
    REAL interpreter runs over a scratch package tree (PYTHONDONTWRITEBYTECODE removed,
    os.utime for source edits); after each run the __pycache__ files are projected (name ->
    marker, header -> source version, unmarshalled code -> body) and the module's behaviour is
    compared with the same run on an empty cache.
    concurrent: two-thread schedules taken from TLC (counterexamples of I1 first, then paths
    of the dumped graph) are replayed deterministically with gates at the control points of
    get_code.
R3  every real run records Lookup / Patch / Path / Read / Compile / Write / Restore / Done
    events (wrappers installed from outside); trace/PycCacheTrace.tla validates the logs.

The child side (``child_main``) must not import beartype before its wrappers are installed and
keeps its imports light: this module only imports the kit lazily.
"""
from __future__ import annotations

import json
import os
import random
import sys
import time

LEVEL = "model_checking"

T0 = 1_500_000_000            # source mtime of version v is T0 + 10 * v
PKG = {"a": "pa", "b": "pb"}
STUB = "celery"               # a name on beartype's list of decorator-hostile packages
RESULT_TAG = "C16RESULT "

ALL_CONFS = ["default", "vt", "nopep", "ffirst", "flast", "tfirst"]
# the concretiser: configuration name of PycCache.tla -> BeartypeConf keyword arguments
CONF_KW = {
    "default": {},
    "vt": {"violation_type": "ValueError"},
    "nopep": {"claw_is_pep526": False},
    "ffirst": {"claw_decor_place_func": "FIRST"},
    "flast": {"claw_decor_place_func": "LAST"},
    "tfirst": {"claw_decor_place_type": "FIRST"},
}
PLACE_ABBR = {"LAST_BEFORE_DECOR_HOSTILE": "LBDH", "FIRST": "FIRST", "LAST": "LAST"}
PLACE_FULL = {v: k for k, v in PLACE_ABBR.items()}
NOKEY = {"p526": False, "pf": "-", "pt": "-", "dflt": False}
PLAIN_BODY = {"hooked": False, "key": dict(NOKEY)}

STUB_SRC = '''class Celery:
    def task(self, fn):
        def t(x: str):
            return fn(x)
        return t
'''

# One module text serves every module of a tree.  What each definition is for:
#   g       annotated function                  -> "is the module hooked at all", violation type
#   assign  PEP 526 assignment in a function    -> claw_is_pep526
#   h       two decorators, the upper one "decorator-hostile" -> the three claw_decor_place_func
#   C       class decorator adding an annotated method        -> claw_decor_place_type
MOD_SRC = '''VERSION = @VER@
from celery import Celery
app = Celery()
def deco(f):
    def w(*a, **k):
        return f(*a, **k)
    return w
def addm(cls):
    def m(self, x):
        return x
    m.__annotations__ = {'x': int}
    cls.m = m
    return cls
def g(x: int) -> int:
    return x
@app.task
@deco
def h(x: int):
    return x
@addm
class C:
    pass
def assign():
    v: int = 'bad'
    return v
'''


def module_source(ver: int) -> str:
    return MOD_SRC.replace("@VER@", str(ver)) + "#" * ver + "\n"


# =====================================================================================
# projection: code object -> body   (shared by child and parent; part of the trusted base)
# =====================================================================================
_INJECTED = ("__beartype__", "__die_if_unbearable_beartype__", "__claw_state_beartype__")


def _walk_code(code):
    yield code
    for c in code.co_consts:
        if hasattr(c, "co_code"):
            yield from _walk_code(c)


def _decor_order(code, target, decos):
    """Names among ``decos`` + the beartype decorator, in the order in which the module code
    loads them before creating the function/class named ``target`` (= top to bottom)."""
    import dis
    seq = []
    for ins in dis.get_instructions(code):
        op = ins.opname
        if op == "STORE_NAME":
            seq = []
        elif op in ("LOAD_NAME", "LOAD_GLOBAL", "LOAD_ATTR", "LOAD_METHOD"):
            seq.append(ins.argval)
        elif op == "LOAD_CONST" and hasattr(ins.argval, "co_code") and ins.argval.co_name == target:
            return [n for n in seq if n in decos or n == "__beartype__"]
    return None


def project_code(code):
    """body = {"hooked": bool, "key": {"p526", "pf", "pt", "dflt"}} of a module code object."""
    names = set()
    for c in _walk_code(code):
        names.update(c.co_names)
    hooked = any(n in names for n in _INJECTED) or "beartype.claw._ast._clawaststar" in names
    if not hooked:
        return {"hooked": False, "key": dict(NOKEY)}
    key = {"p526": "__die_if_unbearable_beartype__" in names, "pf": "-", "pt": "-",
           "dflt": "__claw_state_beartype__" not in names}
    oh = _decor_order(code, "h", ("task", "deco"))
    if oh is not None and "__beartype__" in oh and len(oh) == 3:
        key["pf"] = ("LAST", "LBDH", "FIRST")[oh.index("__beartype__")]
    oc = _decor_order(code, "C", ("addm",))
    if oc is not None and "__beartype__" in oc and len(oc) == 2:
        key["pt"] = ("LAST", "FIRST")[oc.index("__beartype__")]
    return {"hooked": True, "key": key}


def parse_pyc(data):
    """(source mtime stamped in the header, body) of timestamp-based .pyc bytes."""
    import marshal
    flags = int.from_bytes(data[4:8], "little")
    mtime = int.from_bytes(data[8:12], "little")
    if flags & 1:
        mtime = -1
    return mtime, project_code(marshal.loads(data[16:]))


def marker_of_path(path):
    base = os.path.basename(path)
    if ".opt-" in base:
        return base.split(".opt-", 1)[1].rsplit(".pyc", 1)[0]
    return ""


def behaviour_key(b):
    """behaviour vector -> the body it shows (inverse of the module text above)."""
    if b.get("g") is None:
        return {"hooked": False, "key": dict(NOKEY)}
    h1, hs = b.get("h1"), b.get("hs")
    pf = "LAST" if h1 and not hs else "FIRST" if hs and not h1 else "LBDH" if not h1 and not hs else "?"
    return {"hooked": True, "key": {"p526": b.get("assign") is not None, "pf": pf,
                                    "pt": "LAST" if b.get("cm") else "FIRST", "dflt": False}}


# =====================================================================================
# child side: one interpreter run
# =====================================================================================
class _Sched:
    """Deterministic two-thread scheduler: a scheduled thread blocks at every gate until the
    controller (main thread), walking the schedule produced by TLC, grants it one step."""

    def __init__(self, steps, timeout=20.0):
        import threading
        self.steps = steps
        self.cv = threading.Condition()
        self.at = {}          # thread -> gate name | "done" | None (running)
        self.grant = {}
        self.free = False
        self.timeout = timeout
        self.problem = None

    def arrive(self, t, gate):
        with self.cv:
            if self.free:
                return
            self.at[t] = gate
            self.cv.notify_all()
            end = time.time() + self.timeout
            while not self.grant.get(t) and not self.free:
                if not self.cv.wait(max(0.0, end - time.time())) and time.time() >= end:
                    self.problem = self.problem or f"thread {t} starved at gate {gate}"
                    self.free = True
                    self.cv.notify_all()
                    return
            self.grant[t] = False
            self.at[t] = None

    def done(self, t):
        with self.cv:
            self.at[t] = "done"
            self.cv.notify_all()

    _GATE = {"Lookup": "Lookup", "Patch": "Patch", "ComputePath": "ComputePath", "ReadCache": "Fetch",
             "Compile": "Fetch", "WriteCache": "Write", "Restore": "Restore"}

    def _wait_parked(self, t):
        end = time.time() + self.timeout
        while self.at.get(t) is None:
            if not self.cv.wait(max(0.0, end - time.time())) and time.time() >= end:
                return False
        return True

    def drive(self):
        with self.cv:
            for i, (t, act) in enumerate(self.steps):
                if not self._wait_parked(t):
                    self.problem = f"step {i} {act}({t}): thread never reached a gate"
                    break
                if act == "Finish":          # no shared effect, no gate: the thread already ran on
                    continue
                want = self._GATE[act]
                if self.at[t] != want:
                    self.problem = f"step {i} {act}({t}): real thread is at {self.at[t]}, model says {want}"
                    break
                self.grant[t] = True
                self.at[t] = None
                self.cv.notify_all()
                if not self._wait_parked(t):
                    self.problem = f"step {i} {act}({t}): thread did not reach its next gate"
                    break
            self.free = True
            self.cv.notify_all()


class _Recorder:
    """Wrappers around importlib's and beartype's loader entry points (installed from outside)."""

    def __init__(self, spec):
        import importlib._bootstrap_external as be
        import importlib.util
        import threading
        self.spec = spec
        self.be = be
        self.events = []
        self.elock = threading.Lock()
        self.tls = threading.local()
        self.armed = False
        self.sched = None
        self.thread_no = {threading.get_ident(): 1}
        self.names = {PKG[m] + ".mod": m for m in PKG}
        self.tree_names = set(self.names) | set(PKG.values())
        self.vers = spec.get("vers", {})
        rec = self
        orig_cfs = be.cache_from_source
        self.orig_cfs = orig_cfs

        def cache_from_source(*a, **k):
            p = orig_cfs(*a, **k)
            rec.on_path(p)
            return p
        cache_from_source.__c16_original__ = True
        importlib.util.cache_from_source = cache_from_source
        be.cache_from_source = cache_from_source

        base = type(be)

        class _Module2(base):
            def __setattr__(mod, name, value):
                if name == "cache_from_source":
                    rec.on_setglobal(value, lambda: base.__setattr__(mod, name, value))
                else:
                    base.__setattr__(mod, name, value)
        be.__class__ = _Module2

        SFL = be.SourceFileLoader
        self._wrap_get_code(SFL, be.SourceLoader.get_code)
        self._wrap_source_to_code(SFL, be.SourceLoader.source_to_code)
        orig_get_filename = be.FileLoader.get_filename
        orig_get_data = be.FileLoader.get_data
        orig_cache_bytecode = SFL._cache_bytecode

        def get_filename(self, name=None):
            fr = rec.top()
            if fr is not None and not fr["pathgate"] and (name is None or name == fr["name"]):
                fr["pathgate"] = True
                rec.gate(fr, "ComputePath")
            return orig_get_filename(self, name)

        def get_data(self, path):
            fr = rec.top()
            if fr is None or not str(path).endswith(".pyc"):
                return orig_get_data(self, path)
            rec.gate(fr, "Fetch")
            data = orig_get_data(self, path)
            rec.on_read(fr, path, data)
            return data

        def _cache_bytecode(self, source_path, bytecode_path, data):
            fr = rec.top()
            if fr is not None:
                rec.gate(fr, "Write")
            r = orig_cache_bytecode(self, source_path, bytecode_path, data)
            if fr is not None:
                rec.on_write(fr, bytecode_path, data)
            return r
        SFL.get_filename = get_filename
        SFL.get_data = get_data
        SFL._cache_bytecode = _cache_bytecode

    # ---- frames -------------------------------------------------------------------
    def stack(self):
        st = getattr(self.tls, "stack", None)
        if st is None:
            st = self.tls.stack = []
        return st

    def top(self):
        if not self.armed:
            return None
        st = self.stack()
        return st[-1] if st else None

    def thread(self):
        import threading
        return self.thread_no.get(threading.get_ident(), 0)

    def log(self, ev, fr, **kw):
        if fr is not None and not fr["log"]:
            return
        e = {"ev": ev, "th": fr["th"] if fr else self.thread(), "name": fr["name"] if fr else None}
        e.update(kw)
        with self.elock:
            self.events.append(e)

    def gate(self, fr, name):
        if self.sched is not None and fr.get("scheduled"):
            self.sched.arrive(fr["th"], name)

    def ensure_lookup(self, fr):
        if not fr["looked"]:
            fr["looked"] = True
            self.log("Lookup", fr, hooked=False, key=dict(NOKEY))

    def _wrap_get_code(self, cls, orig):
        rec = self

        def get_code(self, fullname):
            if not rec.armed:
                return orig(self, fullname)
            st = rec.stack()
            if st and st[-1]["name"] == fullname and not st[-1]["inner"]:
                st[-1]["inner"] = True            # super().get_code() of the beartype loader
                return orig(self, fullname)
            fr = {"name": fullname, "th": rec.thread(),
                  "inner": cls is rec.be.SourceFileLoader,      # plain loader: this wrapper is the only one
                  "looked": False, "patched": False, "pathgate": False, "compiled": False,
                  "scheduled": rec.sched is not None and fullname in rec.names and not st,
                  "pathed": False, "path": getattr(self, "path", None),
                  # recorded: the modules of the tree, the stub package, and whatever is imported
                  # INSIDE another recorded import (beartype's lazily imported submodules)
                  "log": fullname in rec.tree_names or fullname == STUB or bool(st and st[-1]["log"])}
            st.append(fr)
            rec.gate(fr, "Lookup")
            try:
                code = orig(self, fullname)
            finally:
                st.pop()
            rec.ensure_lookup(fr)
            rec.log("Done", fr, body=project_code(code) if code is not None else None)
            return code
        cls.get_code = get_code

    def _wrap_source_to_code(self, cls, orig):
        rec = self

        def source_to_code(self, data, path, *a, **k):
            fr = rec.top()
            code = orig(self, data, path, *a, **k)
            if fr is not None and not fr["compiled"]:
                fr["compiled"] = True
                rec.log("Compile", fr, sv=rec.cur_version(fr), body=project_code(code),
                        transform=getattr(self, "_module_conf", None) is not None)
            return code
        cls.source_to_code = source_to_code

    def install_beartype(self):
        """second stage, after beartype was imported (only in runs that hook something)."""
        from beartype.claw._importlib import _clawimpfileloader as fl
        from beartype.claw._package import clawpkgtrie
        cls = fl.BeartypeSourceFileLoader
        if "get_code" in cls.__dict__:
            self._wrap_get_code(cls, cls.__dict__["get_code"])
        if "source_to_code" in cls.__dict__:
            self._wrap_source_to_code(cls, cls.__dict__["source_to_code"])
        rec = self
        orig = clawpkgtrie.get_package_conf_or_none

        def get_package_conf_or_none(name, *a, **k):
            conf = orig(name, *a, **k)
            fr = rec.top()
            if fr is not None and fr["name"] == name and not fr["looked"]:
                fr["looked"] = True
                if conf is None:
                    rec.log("Lookup", fr, hooked=False, key=dict(NOKEY))
                else:
                    from beartype._conf.confcommon import BEARTYPE_CONF_DEFAULT
                    rec.log("Lookup", fr, hooked=True, key={
                        "p526": bool(conf.claw_is_pep526),
                        "pf": PLACE_ABBR.get(conf.claw_decor_place_func.name, conf.claw_decor_place_func.name),
                        "pt": PLACE_ABBR.get(conf.claw_decor_place_type.name, conf.claw_decor_place_type.name),
                        "dflt": conf == BEARTYPE_CONF_DEFAULT})
            return conf
        clawpkgtrie.get_package_conf_or_none = get_package_conf_or_none

    # ---- observations ---------------------------------------------------------------
    def cur_version(self, fr):
        m = self.names.get(fr["name"])
        return int(self.vers.get(m, 1)) if m else 1

    def stamp_version(self, fr, mtime):
        """source version named by a .pyc header (0: none / not the current foreign source)."""
        m = self.names.get(fr["name"])
        if m:
            d = mtime - T0
            return d // 10 if d > 0 and d % 10 == 0 else 0
        try:
            return 1 if fr["path"] and int(os.stat(fr["path"]).st_mtime) == mtime else 0
        except OSError:
            return 0

    def marker_of_function(self, fn):
        self.tls.quiet = True
        try:
            return marker_of_path(fn("/c16probe/x.py"))
        except Exception as ex:       # noqa
            return "?" + type(ex).__name__
        finally:
            self.tls.quiet = False

    def on_path(self, p):
        if getattr(self.tls, "quiet", False):
            return
        fr = self.top()
        if fr is None:
            return
        if fr["pathed"]:
            return            # e.g. ModuleSpec.cached of a module imported inside this import
        fr["pathed"] = True
        self.ensure_lookup(fr)
        self.log("Path", fr, marker=marker_of_path(p))

    def on_setglobal(self, value, do):
        fr = self.top()
        if fr is None:
            do()
            if self.armed:
                self.log("SetGlobal", None, marker=self.marker_of_function(value))
            return
        if not fr["patched"]:
            self.gate(fr, "Patch")
            self.ensure_lookup(fr)
            do()
            fr["patched"] = True
            self.log("Patch", fr, marker=self.marker_of_function(value))
        else:
            self.gate(fr, "Restore")
            do()
            self.log("Restore", fr, marker=self.marker_of_function(value))

    def on_read(self, fr, path, data):
        try:
            mtime, body = parse_pyc(data)
        except Exception:         # noqa
            return
        self.log("Read", fr, marker=marker_of_path(path), sv=self.stamp_version(fr, mtime), body=body)

    def on_write(self, fr, path, data):
        mtime, body = parse_pyc(bytes(data))
        self.log("Write", fr, marker=marker_of_path(path), sv=self.stamp_version(fr, mtime), body=body)


def _probe(mod):
    def r(fn):
        try:
            fn()
            return None
        except BaseException as ex:      # noqa
            return type(ex).__name__
    return {"ver": getattr(mod, "VERSION", None), "g": r(lambda: mod.g("s")), "assign": r(mod.assign),
            "h1": r(lambda: mod.h(1)), "hs": r(lambda: mod.h("s")), "cm": r(lambda: mod.C().m("s"))}


def child_main():
    """One interpreter run.  argv[1]: JSON file {tree, common, hook, order | schedule, vers}."""
    import importlib
    import threading
    import warnings
    warnings.simplefilter("ignore")
    spec = json.load(open(sys.argv[1]))
    rec = _Recorder(spec)
    sys.path[:0] = [spec["tree"], spec["common"]]
    out = {"behav": {}, "errors": [], "sched_problem": None}
    hooked = {m: c for m, c in spec["hook"].items() if c != "off"}
    if hooked:
        from beartype import BeartypeConf, BeartypeDecorPlace
        from beartype.claw import beartype_package
        for m, c in sorted(hooked.items()):
            kw = dict(CONF_KW[c])
            for o in ("claw_decor_place_func", "claw_decor_place_type"):
                if o in kw:
                    kw[o] = getattr(BeartypeDecorPlace, kw[o])
            if "violation_type" in kw:
                kw["violation_type"] = ValueError
            beartype_package(PKG[m], conf=BeartypeConf(**kw))
        rec.install_beartype()
    rec.armed = True
    mods = {}

    def imp(m):
        try:
            mods[m] = importlib.import_module(PKG[m] + ".mod")
        except BaseException as ex:      # noqa
            out["errors"].append(f"import {m}: {type(ex).__name__}: {ex}"[:300])

    if spec.get("schedule"):
        steps = [(int(t), a) for t, a, *_ in spec["schedule"]]
        per = {}
        for t, a, *rest in spec["schedule"]:
            if a == "Lookup":
                per.setdefault(int(t), []).append(rest[0])
        for m in sorted({x for v in per.values() for x in v}):     # parent packages first, unscheduled
            try:
                importlib.import_module(PKG[m])
            except BaseException as ex:      # noqa
                out["errors"].append(f"import package {m}: {type(ex).__name__}: {ex}"[:300])
        rec.sched = _Sched(steps)

        def body(t, ms):
            rec.thread_no[threading.get_ident()] = t
            try:
                for m in ms:
                    imp(m)
            finally:
                rec.sched.done(t)
        ths = [threading.Thread(target=body, args=(t, ms)) for t, ms in sorted(per.items())]
        for x in ths:
            x.start()
        rec.sched.drive()
        for x in ths:
            x.join(30)
        out["sched_problem"] = rec.sched.problem
        rec.sched = None
    else:
        for m in spec["order"]:
            imp(m)
    rec.armed = False
    for m, mod in mods.items():
        out["behav"][m] = _probe(mod)
    out["events"] = rec.events
    out["global_restored"] = getattr(rec.be.cache_from_source, "__c16_original__", False)
    sys.stdout.write(RESULT_TAG + json.dumps(out) + "\n")
    sys.stdout.flush()


if __name__ == "__main__":
    child_main()
