"""C12 — validator algebra: generated code, is_valid and boolean meaning coincide.

R1  TLC checks MC_Vale.tla: for Annotated[T, V1..Vn] with validator expressions over the five
    factories and three operators, at root and nested positions, Chk (with the validator
    code composed as beartype.vale composes it) = T and every ValSem(Vi); spec mutants
    (& compiled as or; negation applied to the first conjunct only) must be rejected.
R2  the emitted case table (verdict vectors + per-validator ValSem vectors) is replayed:
    is_bearable / die_if_unbearable / decorated checks, validator.is_valid(x) for validators
    rebuilt from scratch, and the True/False markers of the printed diagnosis.
"""
from __future__ import annotations

from verifkit.drivers.c01 import replay, report  # noqa: F401

LEVEL = "model_checking"


def run(rep, tier, seed):
    from verifkit.bind import semreplay as sr
    rep.assumptions += [
        "Is[...] predicates are total, side-effect-free named functions from a fixed catalogue",
        "validator expressions up to depth 3 over Is, IsAttr, IsEqual, IsInstance, IsSubclass with & | ~; base hints "
        "object/Any/int/A/list[int]; positions root, list item, tuple position, mapping value, union member, set item",
    ]
    sr.run_mutants(rep, "quick", ("vale_and_as_or", "vale_not_first_conjunct"), module="MC_Vale.tla",
                   invariants=sr.VALE_INVARIANTS)
    rows = sr.build_rows(rep, tier, module="MC_Vale.tla", invariants=sr.VALE_INVARIANTS)
    opts = {"props": {"C12", "C01", "C02"}, "entry_points": True, "spellings": 1, "seed": seed, "reject_cap": 4}
    tot = sr.replay(rep, rows, opts)
    for p in ("C01", "C02", "C11"):          # nested-position failures surface through the shared checks
        for i in tot["issues"]:
            if i["prop"] == p:
                i["prop"] = "C12"
                i["kind"] = p.lower() + "_" + i["kind"]
    report(rep, tot, "C12")
    rep.cov["exhaustive"] = True
