"""C08 -- wrapped coroutines and generators are indistinguishable from the originals.

R1  TLC checks GenProto.tla: a product machine steps a plain generator object and
    wrapper o inner in lock step over every body of a small grammar and every operation
    sequence.  The faithful wrapper satisfies LockStepModF7 and violates the ideal LockStep
    exactly by the named deviation F7_DelegateGeneratorExit; wrapper mutants must violate
    LockStepModF7; the repaired async loop (Wrap = "fixed") satisfies LockStep.
R2  every (body, ops) history enumerated by TLC (one JSON row per history, carrying the
    observations the specification computed) is rendered to Python three ways (generator,
    asynchronous generator, coroutine), defined twice (plain / @beartype) and driven by a
    manual runner.  plain vs model validates the specification's account of CPython
    (mismatch = machinery failure); decorated vs the specification's Expected(plain) is the
    property; decorated vs the model of wrapper o inner is reported as spec drift.
R3  seeded random bodies with nested try/except/finally and longer operation sequences:
    the observation logs of the plain and of the decorated object are validated by
    trace/GenProtoTrace.tla against the machine of the plain body.
"""
from __future__ import annotations

import inspect
import json
import multiprocessing as mp
import os
import random
import sys

from verifkit import tlc
from verifkit.util import scratch, write_file

LEVEL = "model_checking"

KINDS = ("gen", "agen", "coro")
ALL_OPS = ["next", "send7", "send0", "sendE", "tE1", "tEB", "tSI", "tSA", "tGE", "close"]
SEND = {"next": None, "send7": 7, "send0": 0, "sendE": ""}       # send0 / sendE: falsy but not None


# =========================================================================== concretiser
class E1(Exception):
    pass


class EB(BaseException):
    """a BaseException that is no Exception (stands for KeyboardInterrupt, SystemExit, CancelledError)"""


class _Susp:
    """The trivial awaitable of coroutine bodies: suspends once with ``v``; the value sent
    in is the value of the ``await``; a thrown exception is raised at the ``await``."""

    __slots__ = ("v", "st")

    def __init__(self, v):
        self.v = v
        self.st = 0

    def __await__(self):
        return self

    def __iter__(self):
        return self

    def __next__(self):
        return self.send(None)

    def send(self, x):
        if self.st == 0:
            self.st = 1
            return self.v
        raise StopIteration(x)

    def throw(self, typ, val=None, tb=None):
        if val is None:
            val = typ() if isinstance(typ, type) else typ
        raise val

    def close(self):
        pass


HINTS = {
    "gen": ["Generator[int, Any, Any]", "Iterator[int]", "Iterable[int]", "abc.Generator[object, object, object]",
            "Generator[Union[int, None], Union[int, None], Union[int, str, None]]"],
    "agen": ["AsyncGenerator[int, Any]", "AsyncIterator[int]", "AsyncIterable[int]",
             "abc.AsyncGenerator[object, object]"],
    "coro": ["int", "Coroutine[Any, Any, int]", "abc.Coroutine[None, None, int]"],
}


def _stmt(kind, tok):
    if kind == "coro":
        y = {"Y1": "await _Susp(1)", "Y2": "await _Susp(2)", "RX": "x = await _Susp(2)", "YX": "await _Susp(x)"}
    else:
        y = {"Y1": "yield 1", "Y2": "yield 2", "RX": "x = yield 2", "YX": "yield x"}
    if tok in y:
        return y[tok]
    if tok in ("R1", "RS", "RN"):
        if kind == "agen":
            return "return"          # 'return <value>' is a syntax error in an asynchronous generator
        return {"R1": "return 1", "RS": "return 's'", "RN": "return"}[tok]
    return {"LX": "log.append(x)", "LA": "log.append('a')", "LB": "log.append('b')", "LF": "log.append('f')",
            "XE": "raise E1('b')", "XS": "raise StopIteration(3)", "XA": "raise StopAsyncIteration()",
            "XG": "raise GeneratorExit()", "RR": "raise"}[tok]


def _render_block(kind, node, ind, out):
    """node = list of items; an item is a token or a dict {blk, hc, hblk, fin} (a try statement)."""
    if not node:
        out.append(ind + "pass")
    for it in node:
        if isinstance(it, str):
            out.append(ind + _stmt(kind, it))
        else:
            out.append(ind + "try:")
            _render_block(kind, it["blk"], ind + "    ", out)
            if it["hc"]:
                out.append(ind + f"except {it['hc']}:")
                _render_block(kind, it["hblk"], ind + "    ", out)
            if it["fin"]:
                out.append(ind + "finally:")
                _render_block(kind, it["fin"], ind + "    ", out)


def tree_of(body):
    """template body (pre, blk, hc, hblk, fin, post) -> statement tree."""
    pre, blk, hc, hblk, fin, post = body
    t = list(pre)
    if blk:
        t.append({"blk": list(blk), "hc": hc, "hblk": list(hblk), "fin": list(fin)})
    t += list(post)
    return t


def render(kind, tree, name, hint):
    out = [("def " if kind == "gen" else "async def ") + f"{name}(log: list) -> {hint}:", "    x = None"]
    if kind != "coro":
        out.append("    if False: yield None")
    _render_block(kind, tree, "    ", out)
    return "\n".join(out) + "\n"


_NS = None


def _namespace():
    global _NS
    if _NS is None:
        import typing
        from collections import abc
        import functools
        _NS = {"wraps": functools.wraps, "EB": EB, "E1": E1, "_Susp": _Susp, "abc": abc, "__name__": __name__}
        for n in ("Generator", "Iterator", "Iterable", "AsyncGenerator", "AsyncIterator", "AsyncIterable",
                  "Coroutine", "Any", "Union"):
            _NS[n] = getattr(typing, n)
    return _NS


_UNIQ = [0]


WRAPPEE = {"sync": "def {n}(log: list) -> {h}:\n    return None\n",
           "gen": "def {n}(log: list) -> {h}:\n    yield 0\n",
           "coro": "async def {n}(log: list) -> {h}:\n    return 0\n",
           "agen": "async def {n}(log: list) -> {h}:\n    yield 0\n"}
WRAPPED = ["none", "sync", "gen", "agen", "coro"]


def define(kind, tree, hint_idx, wr="none"):
    """-> (plain function, decorated function, source).  wr != "none": the subject is a
    functools.wraps closure (own kind = kind, body = tree) whose __wrapped__ is a callable of kind wr
    with the same signature and annotations -- the shape of a third-party adapter decorator."""
    from beartype import beartype
    _UNIQ[0] += 1
    hint = HINTS[kind][hint_idx % len(HINTS[kind])]
    name = f"c08_{kind}_{os.getpid()}_{_UNIQ[0]}"
    src = render(kind, tree, name, hint)
    if wr != "none":
        src += WRAPPEE[wr].format(n=name + "_wrappee", h=hint) + f"{name} = wraps({name}_wrappee)({name})\n"
    ns1, ns2 = dict(_namespace()), dict(_namespace())
    code = compile(src, f"<{name}>", "exec", dont_inherit=True)     # no 'from __future__ import annotations'
    exec(code, ns1)
    exec(code, ns2)
    return ns1[name], beartype(ns2[name]), src


def tok(v):
    if v is None:
        return "N"
    if isinstance(v, bool):
        return repr(v)
    if isinstance(v, int):
        return str(v)
    if isinstance(v, str):
        return v if v else "''"
    return "?" + repr(v)[:60]


def _exc_obs(e):
    a = e.args
    return "raise|%s|%s" % (type(e).__name__, "" if a == () else tok(a[0]) if len(a) == 1 else "?" + repr(a)[:80])


_THROW = {"tEB": lambda: EB("t"), "tE1": lambda: E1("t"), "tSI": lambda: StopIteration(), "tSA": lambda: StopAsyncIteration(),
          "tGE": lambda: GeneratorExit()}

_unraisable = []


def _hook(u):
    _unraisable.append(u.exc_value)


def _quiet(u):
    pass


def run_ops(kind, fn, ops):
    """Drive a fresh object of ``fn`` through ``ops``; -> (observations, log)."""
    old = sys.unraisablehook
    sys.unraisablehook = _hook
    try:
        return _run_ops(kind, fn, ops)
    finally:
        del _unraisable[:]          # may finalise objects kept alive by a captured traceback
        del _unraisable[:]
        sys.unraisablehook = old


def _run_ops(kind, fn, ops):
    log = []
    try:
        obj = fn(log)
    except BaseException as e:      # noqa  -- calling a generator / coroutine function runs nothing of it
        return ["call:" + _exc_obs(e)], [tok(v) for v in log]
    obs = []
    for op in ops:
        if op == "del":
            del _unraisable[:]
            del obj
            obs.append(_exc_obs(_unraisable[0]) if _unraisable else "ok||N")
            obj = None
            break
        try:
            if kind == "agen":
                if op in SEND:
                    aw = obj.asend(SEND[op])
                elif op == "close":
                    aw = obj.aclose()
                else:
                    aw = obj.athrow(_THROW[op]())
                try:
                    aw.send(None)
                except StopIteration as s:
                    o = "ok||N" if op == "close" else "yield||" + tok(s.value)
                else:
                    o = "?suspended"
                finally:
                    aw = None
            else:
                if op in SEND:
                    o = "yield||" + tok(obj.send(SEND[op]))
                elif op == "close":
                    obj.close()
                    o = "ok||N"
                else:
                    o = "yield||" + tok(obj.throw(_THROW[op]()))
        except StopAsyncIteration as e:
            o = "stop||N" if (kind == "agen" and e.args == ()) else _exc_obs(e)
        except StopIteration as e:
            o = ("stop||" + tok(e.value)) if (kind != "agen" and len(e.args) <= 1) else _exc_obs(e)
        except BaseException as e:      # noqa
            o = _exc_obs(e)
        obs.append(o)
    log = [tok(v) for v in log]     # snapshot (dropping a still suspended object below may run more of the body)
    obj = None
    return obs, log


def same(real, want):
    """observation equality; a '*' argument token of the model means 'any arguments'."""
    if real == want:
        return True
    if want.endswith("|*"):
        return real.split("|")[:2] == want.split("|")[:2]
    return False


# =========================================================================== TLC side
CFG = """SPECIFICATION Spec
CONSTANTS
  Kind = "%(kind)s"
  Wrap = "%(wrap)s"
  KeepHist = %(keep)s
  EmitRows = %(emit)s
  MaxOps = %(maxops)d
  PostMax = %(postmax)d
  OpSet = %(ops)s
  PreA = %(pre)s
  PreMax = %(premax)d
  BlkA = %(blk)s
  BlkMax = %(blkmax)d
  HcSet = %(hc)s
  HblkA = %(hblk)s
  HblkMax = %(hblkmax)d
  FinA = %(fin)s
  FinMax = %(finmax)d
  PostA = %(post)s
  PostLen = %(postlen)d
  WrappedSet = %(wrapped)s
CHECK_DEADLOCK FALSE
"""


def _set(xs):
    return "{" + ", ".join('"%s"' % x for x in xs) + "}"


def make_cfg(d, name, kind, wrap, g, *, keep, emit, invs):
    p = dict(kind=kind, wrap=wrap, keep="TRUE" if keep else "FALSE", emit="TRUE" if emit else "FALSE",
             maxops=g["maxops"], postmax=g.get("postmax", 1), ops=_set(g["ops"]),
             pre=_set(g.get("pre", [])), premax=g.get("premax", 0), blk=_set(g.get("blk", [])),
             blkmax=g.get("blkmax", 0), hc=_set(g.get("hc", [])), hblk=_set(g.get("hblk", [])),
             hblkmax=g.get("hblkmax", 0), fin=_set(g.get("fin", [])), finmax=g.get("finmax", 0),
             post=_set(g.get("post", [])), postlen=g.get("postlen", 0), wrapped=_set(g.get("wrapped", ["none"])))
    txt = CFG % p + "".join(f"INVARIANT {i}\n" for i in invs)
    return write_file(d, name + ".cfg", txt)


def kind_ops(kind, ops):
    """operation alphabet per kind: a StopIteration thrown into a coroutine suspended in an
    awaitable is, by PEP 380, that awaitable's return -- no exception reaches the body."""
    bad = {"gen": {"tSA"}, "agen": set(), "coro": {"tSI", "tSA"}}[kind]
    return [o for o in ops if o not in bad]


# =========================================================================== R2 replay
def _replay_group(job):
    """child: all rows of one body (one kind).  -> list of per-row results"""
    kind, bidx, (body, wr), rows = job
    sys.unraisablehook = _quiet        # late finalisation of objects of excluded histories: not an observation
    tree = tree_of(body)
    plain, dec, src = define(kind, tree, bidx, wr)
    out = []
    insp = [(f.__name__, f(plain), f(dec)) for f in
            (inspect.isgeneratorfunction, inspect.isasyncgenfunction, inspect.iscoroutinefunction)]
    for ops in rows:
        po, pl = run_ops(kind, plain, ops)
        do, dl = run_ops(kind, dec, ops)
        out.append((po, pl, do, dl))
    return kind, bidx, insp, out, lazy_probe(kind, dec)


def lazy_probe(kind, dec):
    """a wrong-typed argument: the call itself must not raise (nothing of a generator / coroutine
    function runs at the call); -> (call observation, observation of the first step)."""
    class _Arg:
        def append(self, v):
            pass
    try:
        obj = dec(_Arg())
    except BaseException as e:      # noqa
        return _exc_obs(e).split("|")[:2], None
    first, _ = run_ops(kind, lambda log: obj, ["next"])
    obj = None
    return ["ok", ""], first[0].split("|")[:2]


F7_KEY = {"gen": "throw(GeneratorExit)", "agen": "athrow(GeneratorExit)", "coro": "throw(GeneratorExit)"}


def f7_key(kind):
    return {"deviation": "F7_DelegateGeneratorExit", "kind": kind, "op": F7_KEY[kind],
            "body": "catches GeneratorExit and returns"}


class Compare:
    """row-wise comparison of (model, plain, decorated)."""

    def __init__(self, rep, origin):
        self.rep, self.origin = rep, origin
        self.machinery = []
        self.f7_seen = {}
        self.sampled = set()

    def row(self, kind, body, hint_idx, row, real):
        rep = self.rep
        _, ops, po, co, ex, plog, clog, excl, f7, wr, lazycall = row
        rpo, rpl, rdo, rdl = real
        rep.count()
        case = {"kind": kind, "body": body, "ops": ops, "hint": hint_idx, "wrapped": wr, "origin": self.origin}
        if rdo and rdo[0].startswith("call:") and not (rpo and rpo[0].startswith("call:")):
            got = rdo[0][5:]
            rep.violation({"kind": kind, "op": "call", "wrapped": wr, "got": got.split("|")[:2]},
                          f"calling the decorated {kind} function (shape: __wrapped__ = {wr}) raises {got[:200]}; "
                          f"the specification (LazyCall) demands {lazycall}: nothing runs at the call; body={body}", case)
            return
        # (1) the specification's account of CPython
        nchk = len(po) - 1 if excl else len(po)     # the excluded operation itself is not compared
        if len(rpo) != len(po) or any(not same(a, b) for a, b in zip(rpo[:nchk], po[:nchk])) or \
                (not excl and list(rpl) != list(plog)):
            if len(self.machinery) < 5:
                self.machinery.append(f"{kind} body={body} ops={ops}: plain object {rpo} log {rpl}, "
                                      f"GenProto.tla says {po} log {plog}")
            return
        if excl:
            # outside the property (the body yields while handling GeneratorExit); only drift is checked
            if len(rdo) != len(co) or any(not same(a, b) for a, b in zip(rdo[:nchk], co[:nchk])):
                rep.spec_drift(f"{kind} body={body} ops={ops} (excluded history): decorated {rdo}, model of wrapper {co}")
            rep.add("rows_excluded")
            return
        # (2) the property: decorated vs what the specification demands, given the plain object
        for i, (d, want) in enumerate(zip(rdo, ex)):
            if same(d, want) or ops[i] == "del":      # of a finalisation only the log is demanded
                continue
            if f7[i] and same(d, co[i]):
                self.f7_seen.setdefault(kind, case)
                rep.add("f7_instances")
                rep.violation(f7_key(kind),
                              f"{F7_KEY[kind]} into a decorated {kind} whose body catches GeneratorExit and returns: "
                              f"undecorated gives {rpo[i]}, decorated gives {d} (delegation closes the inner object "
                              f"and re-raises); e.g. body={body} ops={ops[:i + 1]}", case)
            else:
                k = {"kind": kind, "op": ops[i], "want": want.split("|")[:2], "got": d.split("|")[:2]}
                if wr != "none":
                    k["wrapped"] = wr
                rep.violation(k, f"decorated {kind} differs from the undecorated one at operation {i + 1} "
                                 f"({ops[i]}) of {ops}: undecorated {rpo[i]}, required {want}, decorated {d}; "
                                 f"body={body}", case)
            break
        else:
            if list(rdl) != list(plog):
                rep.violation({"kind": kind, "sidefx": "log", "last_op": ops[-1] if ops else ""},
                              f"decorated {kind}: side-effect log {rdl}, undecorated {rpl}; body={body} ops={ops}", case)
        # (3) transcription of the wrapper
        if len(rdo) != len(co) or any(not same(a, b) for a, b in zip(rdo, co)) or list(rdl) != list(clog):
            rep.spec_drift(f"{kind} body={body} ops={ops}: decorated {rdo}/{rdl}, model of wrapper o inner {co}/{clog}")
        if len(ops) >= 3:
            rep.nontrivial((kind, json.dumps(body), " ".join(ops)))
            if kind not in self.sampled and len(ops) >= 4 and plog:
                self.sampled.add(kind)
                rep.sample({"kind": kind, "body": body, "ops": ops, "model_plain": po, "model_wrapped": co,
                            "real_plain": rpo, "real_decorated": rdo, "log": plog})


def replay_rows(rep, pool, kind, rows, origin, cmp=None):
    """rows: parsed JSON rows of one TLC run (one kind)."""
    groups = {}
    for r in rows:
        groups.setdefault(json.dumps([r[0], r[9]]), []).append(r)
    jobs, keys = [], []
    for bidx, (bk, rs) in enumerate(sorted(groups.items())):
        jobs.append((kind, bidx, json.loads(bk), [r[1] for r in rs]))
        keys.append((bk, rs))
    cmp = cmp or Compare(rep, origin)
    res = pool.map(_replay_group, jobs, chunksize=max(1, len(jobs) // 64))
    for (bk, rs), (k, bidx, insp, out, lazy) in zip(keys, res):
        body, wr = json.loads(bk)
        shape = {} if wr == "none" else {"wrapped": wr}
        for name, a, b in insp:
            rep.count()
            if a != b:
                rep.violation({"kind": kind, "inspect": name, **shape},
                              f"inspect.{name}: undecorated {a}, decorated {b} ({kind} function, __wrapped__ = {wr}, "
                              f"body={body})", {"kind": kind, "body": body, "ops": [], "hint": bidx, "wrapped": wr})
        rep.count()
        if lazy[0] != ["ok", ""]:
            rep.violation({"kind": kind, "op": "call", "arg": "wrong type", "got": lazy[0], **shape},
                          f"calling the decorated {kind} function (__wrapped__ = {wr}) with a wrong-typed argument raises "
                          f"{lazy[0]} at the call; a {kind} function runs nothing at the call (the undecorated one "
                          f"returns an object); body={body}",
                          {"kind": kind, "body": body, "ops": ["next"], "hint": bidx, "wrapped": wr})
        elif lazy[1] != ["raise", "BeartypeCallHintParamViolation"]:
            rep.spec_drift(f"{kind} (__wrapped__ = {wr}) called with a wrong-typed argument: first step gives {lazy[1]}, "
                           f"expected the parameter violation there")
        rep.add("shape_" + wr)
        want = {"gen": "isgeneratorfunction", "agen": "isasyncgenfunction", "coro": "iscoroutinefunction"}[kind]
        if not all(a == (name == want) for name, a, _ in insp):
            cmp.machinery.append(f"rendering of {kind} body {body} is not a {kind} function: {insp}")
        for r, real in zip(rs, out):
            cmp.row(kind, body, bidx, r, real)
    rep.add("bodies_replayed", len(jobs))
    return cmp


# =========================================================================== configurations
G_STRAIGHT = dict(pre=["Y1", "RX", "YX", "LA", "R1", "RS", "XE", "XS"], premax=3, blkmax=0,
                  ops=["next", "send7", "tE1", "tSI", "tSA", "tGE", "close"], maxops=3, postmax=1)
G_TRY = dict(pre=[], premax=0, blk=["RX", "YX", "XE"], blkmax=2,
             hc=["", "E1", "GeneratorExit", "BaseException", "StopIteration", "StopAsyncIteration"],
             hblk=["Y2", "LB", "R1", "RR", "XE"], hblkmax=1, fin=["LF"], finmax=1, post=["Y1"], postlen=1,
             ops=["next", "send7", "tE1", "tSI", "tSA", "tGE", "close"], maxops=3, postmax=1)
G_TRYQ = dict(pre=[], premax=0, blk=["RX", "YX"], blkmax=2, hc=["", "E1", "GeneratorExit", "BaseException"],
              hblk=["Y2", "LB", "R1", "RR", "XE"], hblkmax=1, fin=["LF"], finmax=1, post=["Y1"], postlen=1,
              ops=["next", "send7", "tE1", "tGE", "close"], maxops=3, postmax=1)


# bodies that observe what they receive (yield it back, log it) under None / truthy / falsy sends
G_SEND = dict(pre=["RX", "YX", "LX", "Y1"], premax=3, blkmax=0,
              ops=["next", "send7", "send0", "sendE", "tE1"], maxops=3, postmax=1)
# a thrown BaseException that is no Exception, into bodies with finally / except BaseException / except Exception
G_BASE = dict(pre=[], premax=0, blk=["RX"], blkmax=2, hc=["", "BaseException", "Exception"],
              hblk=["Y2", "LB", "R1", "RR"], hblkmax=1, fin=["LF"], finmax=1, post=["Y1"], postlen=1,
              ops=["next", "tEB", "tE1", "close"], maxops=3, postmax=1)
# the decorated callable is a functools.wraps closure around a callable of another (or the same) kind
G_WRAP = dict(pre=["RX", "YX", "LA", "R1", "RS", "XE"], premax=2, blkmax=0, wrapped=WRAPPED,
              ops=["next", "send7", "tE1", "close"], maxops=2, postmax=1)
G_MUT = dict(pre=[], premax=0, blk=["RX"], blkmax=1, hc=["", "E1", "GeneratorExit"],
             hblk=["Y2", "R1", "XE"], hblkmax=1, fin=["LF"], finmax=1, post=["Y1", "XE", "R1"], postlen=1,
             ops=["next", "send7", "tE1", "tSA", "tGE", "close"], maxops=3, postmax=1)

MUTANTS = {"agen": ["merge_else", "send_after_throw", "no_aclose", "falsy_is_none", "narrow_base", "kind_from_wrappee"],
           "gen": ["lose_return", "kind_from_wrappee"],
           "coro": ["no_check", "kind_from_wrappee"]}
# the invariant a mutant must violate, and the other-kind wrappee of the kind_from_wrappee runs
MUTANT_INV = {"kind_from_wrappee": "KindPreserved"}
OTHER_KIND = {"gen": "sync", "agen": "gen", "coro": "sync"}

TRACE_CFG = """SPECIFICATION TSpec
CONSTANTS
  Kind = "%s"
  Wrap = "faithful"
  KeepHist = FALSE
  EmitRows = FALSE
  MaxOps = 0
  PostMax = 0
  OpSet = {}
  PreA = {}
  PreMax = 0
  BlkA = {}
  BlkMax = 0
  HcSet = {}
  HblkA = {}
  HblkMax = 0
  FinA = {}
  FinMax = 0
  PostA = {}
  PostLen = 0
  WrappedSet = {"none"}
CONSTRAINT Reached
POSTCONDITION Accepted
CHECK_DEADLOCK FALSE
"""


# =========================================================================== compiler of nested bodies (R3)
_INS = {"LX": ("LX", "", ""), "Y1": ("Y", "1", ""), "Y2": ("Y", "2", ""), "RX": ("RX", "2", ""), "YX": ("YX", "", ""),
        "LA": ("L", "a", ""), "LB": ("L", "b", ""), "LF": ("L", "f", ""),
        "XE": ("X", "E1", "b"), "XS": ("X", "StopIteration", "3"), "XA": ("X", "StopAsyncIteration", ""),
        "XG": ("X", "GeneratorExit", ""), "RR": ("RERAISE", "", "")}
_RET = {"R1": "1", "RS": "s", "RN": "N"}


def compile_tree(tree):
    """statement tree -> flat code + handler table, the layout of GenProto!Compile generalised to
    nested try statements (a syntactic translation; what the code *does* is defined by the
    specification).  Cross-checked against Compile on the template bodies (EmitCode rows)."""
    code, hs, labels = [], [], {}
    cnt = [0]

    def emit(op, a="", b="", t=0, u=0, h=()):
        code.append({"op": op, "a": a, "b": b, "t": t, "u": u})
        hs.append([{"c": c, "t": lab} for c, lab in h])

    def block(items, h, frs):
        for it in items:
            if isinstance(it, str):
                if it in _RET:
                    if frs is None:
                        emit("R", _RET[it], h=h)
                    else:
                        emit("RF", _RET[it], t=frs, h=h)
                else:
                    op, a, b = _INS[it]
                    emit(op, a, b, h=h)
            else:
                cnt[0] += 1
                k = cnt[0]
                Hd, F, FR, Nn = (f"H{k}", f"F{k}", f"FR{k}", f"N{k}")
                has_f = bool(it["fin"])
                to_f = [("BaseException", F)] if has_f else []
                h_b = ([(it["hc"], Hd)] if it["hc"] else []) + to_f + list(h)
                fr_in = FR if has_f else frs
                block(it["blk"], h_b, fr_in)
                emit("J", t=Nn)
                labels[Hd] = len(code) + 1
                block(it["hblk"], to_f + list(h), fr_in)
                emit("J", t=Nn)
                labels[F] = len(code) + 1
                block(it["fin"], h, frs)
                emit("RERAISE", h=h)
                labels[FR] = len(code) + 1
                block(it["fin"], h, frs)
                if frs is None:
                    emit("RP", h=h)
                else:
                    emit("J", t=frs, h=h)
                labels[Nn] = len(code) + 1
                block(it["fin"], h, frs)

    block(tree, [], None)
    emit("R", "N")
    for ins in code:
        if isinstance(ins["t"], str):
            ins["t"] = labels[ins["t"]]
    for row in hs:
        for hh in row:
            hh["t"] = labels[hh["t"]]
    return code, hs


SIMPLE = ["Y1", "Y2", "RX", "YX", "LA", "LX", "LB", "R1", "RS", "XE", "XS", "XA"]
HCS = ["E1", "GeneratorExit", "BaseException", "Exception", "StopIteration", "StopAsyncIteration"]


def rand_tree(rnd, depth, top=True):
    def simple_block(lo, hi, extra=()):
        return [rnd.choice(SIMPLE[:7] + list(extra)) if rnd.random() < 0.8 else rnd.choice(SIMPLE + list(extra))
                for _ in range(rnd.randint(lo, hi))]
    items = []
    for _ in range(rnd.randint(1, 3)):
        if depth > 0 and rnd.random() < (0.7 if top else 0.4):
            hc = rnd.choice(HCS + [""])
            fin = simple_block(1, 2) if (hc == "" or rnd.random() < 0.5) else []
            fin = [t for t in fin if t not in ("XS", "XA")] or ["LF"]  if fin else fin
            items.append({"blk": rand_tree(rnd, depth - 1, top=False), "hc": hc,
                          "hblk": simple_block(0, 2, extra=("RR",)) if hc else [], "fin": fin})
        else:
            items.append(rnd.choice(SIMPLE[:6]) if rnd.random() < 0.75 else rnd.choice(SIMPLE))
    return items


def _record_group(job):
    """child: one random body, several operation sequences; -> events of both objects."""
    kind, bidx, tree, seqs, wr = job
    sys.unraisablehook = _quiet
    plain, dec, src = define(kind, tree, bidx, wr)
    out = []
    for ops in seqs:
        for is_dec, fn in ((False, plain), (True, dec)):
            obs, log = run_ops(kind, fn, ops)
            obs = [("raise|BeartypeCallHintReturnViolation|*" if o.startswith("raise|BeartypeCallHintReturnViolation|")
                    else o) for o in obs]
            out.append((is_dec, ops, obs, log))
    return out


def trace_record(pool, d, kind, seed, nbodies, nseqs, seqlen):
    rnd = random.Random(f"c08-{kind}-{seed}")
    alphabet = kind_ops(kind, ALL_OPS)
    jobs = []
    for b in range(nbodies):
        tree = rand_tree(rnd, 2 if rnd.random() < 0.7 else 3)
        seqs = []
        for _ in range(nseqs):
            k = rnd.randint(2, seqlen)
            # mostly plain iteration, sprinkled with sends / throws / closes
            seqs.append([rnd.choice(alphabet) if rnd.random() < 0.55 else rnd.choice(["next", "next", "send7", "send0", "sendE"])
                         for _ in range(k)] + ["del"])
        jobs.append((kind, b, tree, seqs, rnd.choice(WRAPPED)))
    res = pool.map(_record_group, jobs, chunksize=max(1, len(jobs) // 64))
    path = os.path.join(d, f"trace_{kind}.ndjson")
    index = []          # event number (1-based) -> (body index, is_dec, ops)
    ntr = 0
    with open(path, "w") as fh:
        def w(ev, where):
            fh.write(json.dumps(ev) + "\n")
            index.append(where)
        for (k, b, tree, seqs, wr), out in zip(jobs, res):
            code, hs = compile_tree(tree)
            w({"ev": "Body", "code": code, "h": hs}, (b, None, None))
            for is_dec, ops, obs, log in out:
                w({"ev": "Start", "dec": is_dec}, (b, is_dec, ops))
                for op, o in zip(ops, obs):
                    w({"ev": "Op", "op": op, "obs": o}, (b, is_dec, ops))
                w({"ev": "End", "log": log}, (b, is_dec, ops))
                ntr += 1
    cfg = write_file(d, f"GenProtoTrace_{kind}.cfg", TRACE_CFG % kind)
    return dict(kind=kind, cfg=cfg, path=path, index=index, jobs=jobs, ntr=ntr)


def trace_run(rec):
    try:
        return tlc.run_tlc("trace/GenProtoTrace.tla", rec["cfg"], workers=1, env={"TRACE_FILE": rec["path"]})
    except Exception as ex:      # noqa
        return ex


def _trace_runs(recs):
    from concurrent.futures import ThreadPoolExecutor
    with ThreadPoolExecutor(max_workers=3) as t:
        return list(t.map(trace_run, recs))


def trace_judge(rep, rec, res_t):
    kind, path, index, jobs, ntr = rec["kind"], rec["path"], rec["index"], rec["jobs"], rec["ntr"]
    res_t = _check(res_t)
    rep.tlc(res_t, f"GenProtoTrace {kind}")
    rep.add("trace_events", len(index))
    f7s = [r["f7_at"] for r in res_t.printed if isinstance(r, dict) and "f7_at" in r]
    for pos in sorted(set(f7s)):
        b, is_dec, ops = index[pos - 1]
        rep.add("f7_instances")
        rep.violation(f7_key(kind),
                      f"{F7_KEY[kind]} into a decorated {kind} whose body catches GeneratorExit and returns "
                      f"(recorded trace, random body {jobs[b][2]}, ops {ops})",
                      {"kind": kind, "tree": jobs[b][2], "ops": ops, "hint": b, "wrapped": jobs[b][4], "origin": "random trace"})
    if res_t.violated:
        rej = [r for r in res_t.printed if isinstance(r, dict) and "rejected_at" in r]
        pos = rej[-1]["rejected_at"] if rej else None
        if not pos or pos > len(index):
            rep.machinery(f"GenProtoTrace {kind}: TLC rejected the log but reported no position ({res_t.violated})")
        b, is_dec, ops = index[pos - 1]
        ev = open(path).read().splitlines()[pos - 1]
        tree = jobs[b][2]
        if not is_dec:
            rep.machinery(f"GenProtoTrace {kind}: the *undecorated* object is not a behaviour of GenProto.tla at event "
                          f"{pos} {ev}: body {tree} ops {ops} -- the specification's account of CPython is wrong")
        e = json.loads(ev)
        rep.violation({"kind": kind, "op": e.get("op", e["ev"]), "got": e.get("obs", "log").split("|")[:2], "via": "trace"},
                      f"recorded decorated {kind} is not a behaviour of the plain body's machine (GenProtoTrace.tla): "
                      f"event {pos} {ev}; body {tree} ops {ops}",
                      {"kind": kind, "tree": tree, "ops": ops, "hint": b, "wrapped": jobs[b][4], "origin": "random trace"})
    else:
        rep.add("traces_validated_against_impl", ntr)
    rep.sample({"random_body": jobs[0][2], "kind": kind, "ops": jobs[0][3][0]})
    return ntr


# =========================================================================== orchestration
def wrap_of(kind):
    """which transcription of the wrapper describes the tree under test: the async loop with the
    'except GeneratorExit' arm (0.23.0, "faithful") or without it ("fixed", the proposed repair)."""
    if kind != "agen":
        return "faithful"
    from beartype._data.check.code.pep import datacodepep525
    return "faithful" if "except GeneratorExit" in datacodepep525.CODE_PEP525_RETURN_CHECKED else "fixed"


def _tlc_many(jobs, par=4, workers=None):
    """run several TLC jobs concurrently (threads; each JVM gets 16/par workers unless given).
    jobs: list of (label, cfg, kwargs) -> list of TLCResult | Exception."""
    from concurrent.futures import ThreadPoolExecutor
    w = workers or max(2, 16 // max(1, min(par, len(jobs))))

    def one(j):
        label, cfg, kw = j
        try:
            return tlc.run_tlc("GenProto.tla", cfg, workers=w, **kw)
        except Exception as ex:          # noqa  (re-raised by the caller in the main thread)
            return ex
    with ThreadPoolExecutor(max_workers=par) as tp:
        return list(tp.map(one, jobs))


def _check(res):
    if isinstance(res, Exception):
        raise res
    return res


def _design_jobs(d, tier):
    """R1 without the case table: mutants, the F7 exhibit, the repaired loop, deep lock step."""
    jobs = []
    for kind in KINDS:
        g = dict(G_MUT, ops=kind_ops(kind, G_MUT["ops"]))
        jobs.append((("exhibit", kind, wrap_of(kind)),
                     make_cfg(d, f"ex_{kind}", kind, wrap_of(kind), g, keep=True, emit=False, invs=["LockStep"]), {}))
        for m in MUTANTS[kind]:
            gm = {"falsy_is_none": G_SEND, "narrow_base": G_BASE,
                  "kind_from_wrappee": dict(G_WRAP, wrapped=["none", kind, OTHER_KIND[kind]])}.get(m)
            gm = dict(gm, ops=kind_ops(kind, gm["ops"])) if gm else g
            jobs.append((("mutant", kind, m),
                         make_cfg(d, f"mut_{kind}_{m}", kind, m, gm, keep=True, emit=False,
                                  invs=[MUTANT_INV.get(m, "LockStepModF7")]), {}))
    g = dict(G_TRYQ, ops=G_TRYQ["ops"] + ["send0", "tSA"])
    jobs.append((("fixed", "agen", "fixed"),
                 make_cfg(d, "fixed_agen", "agen", "fixed", g, keep=False, emit=False, invs=["LockStep", "NoOrphan"]), {}))
    for kind in KINDS:
        if tier != "quick":
            deep = dict(G_TRY, maxops=6, postmax=2)
            if kind == "agen":
                deep["ops"] = deep["ops"] + ["send0", "tEB"]
        elif kind == "agen":          # the hand-written loop gets the larger scope in the quick tier
            deep = dict(G_TRY, maxops=4)
        else:
            deep = dict(G_TRYQ, maxops=4)
        g = dict(deep, ops=kind_ops(kind, deep["ops"]))
        jobs.append((("deep", kind, wrap_of(kind)),
                     make_cfg(d, f"deep_{kind}", kind, wrap_of(kind), g, keep=False, emit=False,
                              invs=["TypeOK", "LockStepModF7", "NoOrphan"]), {}))
    return jobs


def _design_judge(rep, jobs, results):
    results = list(results)
    model_broken = []
    for (what, kind, wrap), cfg, _ in jobs:
        res = _check(results.pop(0))
        rep.tlc(res, f"GenProto {what} {kind} {wrap}")
        if what == "exhibit" and wrap == "fixed":
            if res.violated:
                rep.machinery(f"GenProto.tla ({kind}, Wrap=fixed) violates {res.violated}")
        elif what == "exhibit":
            st = res.error_trace[-1][1] if res.error_trace else {}
            ok = (res.violated == "LockStep" and st.get("ops", ("",))[-1] == "tGE" and st["po"][-1]["k"] == "stop"
                  and st["co"][-1] == {"k": "raise", "c": "GeneratorExit", "v": ""})
            if not ok:
                rep.machinery(f"GenProto.tla ({kind}, faithful wrapper): TLC was expected to exhibit the named deviation "
                              f"F7_DelegateGeneratorExit as the shortest violation of LockStep, got {res.violated} {st}")
            rep.add("f7_exhibited_by_tlc")
            rep.sample({"tlc_counterexample_of_LockStep": {"kind": kind, "body": st["body"], "ops": list(st["ops"]),
                                                           "plain": st["po"][-1], "wrapped": st["co"][-1]}})
        elif what == "mutant":
            if res.violated != MUTANT_INV.get(wrap, "LockStepModF7"):
                rep.machinery(f"spec mutant Wrap={wrap} ({kind}) is not rejected by TLC: the model is vacuous")
            rep.add("spec_mutants_killed")
        elif what == "fixed":
            if res.violated:
                rep.machinery(f"GenProto.tla: the repaired async loop (Wrap=fixed) violates {res.violated}")
            rep.add("fixed_loop_satisfies_LockStep")
        else:
            if res.violated:
                model_broken.append((kind, res.violated, res.error_trace[-1][1] if res.error_trace else {}))
            if not res.violated and res.distinct < 1000:
                rep.machinery(f"vacuous TLC run ({kind} deep): {res.distinct} states")
    return model_broken


G_STRAIGHT4 = dict(G_STRAIGHT, pre=G_STRAIGHT["pre"] + ["XA", "XG"], maxops=4)
G_TRY2 = dict(G_TRYQ, hblk=["Y2", "LB", "RN", "RR", "XE", "XS"], hblkmax=2, post=["Y1", "XE"],
              ops=["next", "send7", "send0", "tE1", "tEB", "tGE", "close"])
G_BASE4 = dict(G_BASE, blk=["RX", "YX"], hblk=G_BASE["hblk"] + ["XE"], ops=G_BASE["ops"] + ["send7", "tGE"], maxops=4)
G_SEND4 = dict(G_SEND, pre=G_SEND["pre"] + ["R1"], ops=G_SEND["ops"] + ["close"], maxops=4)
TABLES = {
    "quick": [("straight", G_STRAIGHT), ("try", G_TRYQ), ("send", G_SEND), ("base", G_BASE), ("wrap", G_WRAP)],
    "thorough": [("straight", G_STRAIGHT4), ("try", G_TRY), ("try2", G_TRY2), ("send", G_SEND4), ("base", G_BASE4),
                 ("wrap", dict(G_WRAP, pre=G_WRAP["pre"] + ["Y1", "LX"], premax=3, ops=G_WRAP["ops"] + ["send0", "tGE"], maxops=3))],
}


def _table_runs(rep, d, tier, pool):
    jobs = []
    for name, g0 in TABLES[tier]:
        for kind in KINDS:
            g = dict(g0, ops=kind_ops(kind, g0["ops"]))
            invs = ["TypeOK", "LockStepModF7", "NoOrphan", "Emit"] + (["EmitCode"] if name != "straight" else [])
            jobs.append(((name, kind), make_cfg(d, f"tab_{name}_{kind}", kind, wrap_of(kind), g, keep=True, emit=True,
                                                invs=invs), {"coverage": False}))
    model_broken = []
    cmp = Compare(rep, "case table of GenProto.tla")
    stats = {k: {"ops": {}, "obs": {}, "f7": 0, "excl": 0, "log": 0} for k in KINDS}
    for i in range(0, len(jobs), 3):           # one configuration (three kinds) at a time: bounded memory
        batch = jobs[i:i + 3]
        outs = _tlc_many(batch, par=3, workers=3)
        for ((name, kind), cfg, _), res in zip(batch, outs):
            res = _check(res)
            rep.tlc(res, f"GenProto table {name} {kind}")
            if res.violated:
                model_broken.append((kind, res.violated, res.error_trace[-1][1] if res.error_trace else {}))
                continue
            rows = [r for r in res.printed if isinstance(r, list) and len(r) == 11]
            codes = [r for r in res.printed if isinstance(r, list) and len(r) == 3]
            res.printed = None
            res.output = ""
            if not rows:
                rep.machinery(f"GenProto table {name} {kind}: TLC emitted no rows")
            for body, code, h in codes:
                c2, h2 = compile_tree(tree_of(body))
                rep.count()
                if c2 != code or h2 != h:
                    rep.machinery(f"driver compile_tree disagrees with GenProto!Compile on {body}: "
                                  f"{c2} {h2} vs {code} {h}")
            st = stats[kind]
            for r in rows:
                for o in r[1]:
                    st["ops"][o] = st["ops"].get(o, 0) + 1
                for o in r[2]:
                    k = o.split("|")[0]
                    st["obs"][k] = st["obs"].get(k, 0) + 1
                st["f7"] += any(r[8])
                st["excl"] += bool(r[7])
                st["log"] += bool(r[5])
            replay_rows(rep, pool, kind, rows, f"case table {name}", cmp)
            rep.add("rows_replayed", len(rows))
            rep.add("traces_validated_against_impl", len(rows))
            del rows
        del outs
        if cmp.machinery:
            break
    if cmp.machinery:
        rep.machinery("the specification's account of CPython disagrees with the undecorated objects "
                      "(no verdict about beartype possible):\n  " + "\n  ".join(cmp.machinery))
    for kind, st in stats.items():
        allops = sorted({o for _, g0 in TABLES[tier] for o in kind_ops(kind, g0["ops"])})
        missing = [o for o in allops + ["del"] if not st["ops"].get(o)]
        missing += [k for k in ("yield", "stop", "raise", "ok") if not st["obs"].get(k)]
        missing += [k for k in ("f7", "excl", "log") if not st[k] and not (k == "f7" and wrap_of(kind) == "fixed")]
        if missing and not model_broken:
            rep.machinery(f"vacuous case table for {kind}: never seen {missing}")
    unseen = [w for w in WRAPPED if not rep.cov.get("shape_" + w)]
    if unseen and not model_broken:
        rep.machinery(f"vacuous case tables: callable shapes never decorated: {unseen}")
    rep.cov["table_stats"] = {k: {"f7_rows": v["f7"], "excluded_rows": v["excl"], "rows_with_side_effects": v["log"],
                                  "obs": v["obs"]} for k, v in stats.items()}
    return model_broken


def _hint_mismatch(rep):
    """the annotation of a generator function is checked: a hint that no generator object can
    satisfy is rejected (at decoration time or at the first call), never silently accepted."""
    from beartype import beartype
    for kind, hint in (("gen", "int"), ("agen", "int"), ("gen", "AsyncGenerator[int, None]"),
                       ("agen", "Generator[int, None, None]")):
        rep.count()
        src = render(kind, ["Y1"], f"c08_bad_{kind}_{abs(hash(hint)) % 1000}", hint)
        ns = dict(_namespace())
        exec(compile(src, "<c08>", "exec", dont_inherit=True), ns)
        f = [v for k, v in ns.items() if k.startswith("c08_bad_")][0]
        try:
            g = beartype(f)
            obs, _ = run_ops(kind, g, ["next", "del"])
            ok = "BeartypeCallHintReturnViolation" in obs[0]
        except Exception as ex:      # noqa
            ok = type(ex).__module__.startswith("beartype.roar")
        if not ok:
            rep.spec_drift(f"{kind} function annotated '-> {hint}' is accepted and iterates normally: {obs}")


def run(rep, tier, seed):
    rep.assumptions += [
        "generator bodies are those of the grammar of GenProto.tla (one try statement in the exhaustive runs, nested "
        "try statements in the recorded traces); coroutine bodies suspend in a trivial awaitable whose throw() raises "
        "the thrown exception (throw(StopIteration) into a coroutine is therefore left out)",
        "asynchronous generators are driven without an event loop (asend(v).send(None)); bodies contain no real await",
        "exceptions are compared by class and arguments, tracebacks / __context__ ignored; the return violation by class",
        "of a finalisation (object dropped) only the side-effect log is demanded of the decorated object; what "
        "sys.unraisablehook reports is compared with the model only (spec drift)",
        "CPython 3.12 semantics of generator objects as transcribed in GenProto!Op, validated row by row against the "
        "undecorated objects",
    ]
    import warnings
    warnings.simplefilter("ignore")
    import beartype  # noqa: F401  (children fork from here)
    with scratch("c08-") as d:
        pool = mp.get_context("fork").Pool(16)          # forked before any thread exists
        from concurrent.futures import ThreadPoolExecutor
        tp = ThreadPoolExecutor(max_workers=2)
        try:
            # the three groups of TLC runs overlap: design-level runs (3 JVMs), trace validation
            # (3 single-threaded JVMs) and the case tables (3 JVMs), whose rows are replayed here
            djobs = _design_jobs(d, tier)
            dfut = tp.submit(_tlc_many, djobs, 3, 3)
            nb, ns, sl = (150, 4, 10) if tier == "quick" else (1000, 5, 14)
            recs = [trace_record(pool, d, kind, seed, nb, ns, sl) for kind in KINDS]
            tfut = tp.submit(_trace_runs, recs)
            broken = _table_runs(rep, d, tier, pool)
            for rec, out in zip(recs, tfut.result()):
                trace_judge(rep, rec, out)
            broken += _design_judge(rep, djobs, dfut.result())
            _hint_mismatch(rep)
        finally:
            tp.shutdown(wait=True)
            pool.terminate()
            pool.join()
    if broken:
        non_f7 = [v for v in rep.violations if v["key"].get("deviation") != "F7_DelegateGeneratorExit"]
        msg = "; ".join(f"{k}: {inv} at body={st.get('body')} ops={st.get('ops')} plain={st.get('po')} "
                        f"wrapped={st.get('co')}" for k, inv, st in broken[:3])
        if not non_f7:
            rep.machinery("GenProto.tla: the model of the faithful wrapper violates the lock-step invariant beyond F7, "
                          "but the real code shows no such difference (the transcription is wrong): " + msg)
        rep.note("design-level violation beyond F7 (confirmed on the real code, see violations): " + msg)
    rep.cov["exhaustive"] = True
    rep.cov["rule"] = ("cases = every (body, operation sequence) row printed by TLC for GenProto.tla plus seeded random "
                       "nested bodies; a case is counted non-trivial (distinct by kind, body, sequence) when it has at "
                       "least three operations")
    rep.cov["scope"] = ("all bodies of the template grammar x all operation sequences up to the bound, per kind; "
                        "see tlc_runs")


def replay(rep, path):
    case = json.load(open(path))["case"]
    import warnings
    warnings.simplefilter("ignore")
    kind = case["kind"]
    tree = case["tree"] if "tree" in case else tree_of(case["body"])
    plain, dec, src = define(kind, tree, case.get("hint", 0), case.get("wrapped", "none"))
    print(src)
    ops = case["ops"] if case["ops"] and case["ops"][-1] == "del" else list(case["ops"]) + ["del"]
    po, pl = run_ops(kind, plain, ops)
    do, dl = run_ops(kind, dec, ops)
    print(f"{'operation':10} {'undecorated':45} decorated")
    bad = 0
    for op, a, b in zip(ops, po, do):
        differs = a != b and op != "del" and not b.startswith("raise|BeartypeCallHintReturnViolation")
        bad += differs
        print(f"{op:10} {a:45} {b}{'    <-- differs' if differs else ''}")
    print("log", pl, dl)
    for name in ("isgeneratorfunction", "isasyncgenfunction", "iscoroutinefunction"):
        print(name, getattr(inspect, name)(plain), getattr(inspect, name)(dec))
    if bad or pl != dl:
        rep.violation(json.load(open(path))["key"], json.load(open(path))["what"], case)
    rep.level = "exploration"
    rep.cov["rule"] = "replay of one stored (body, operation sequence) case on the plain and the decorated object"
    rep.count(len(ops))
    rep.nontrivial(("plain", " ".join(ops)))
    rep.nontrivial(("decorated", " ".join(ops)))
    rep.sample({"kind": kind, "ops": ops, "undecorated": po, "decorated": do})
