"""C13 — decorating a class equals decorating its methods; no-op cases are identities.

R1  TLC checks spec/ClassDecor.tla: the small-step walk of ``beartype_type`` (stack of
    activations, one action per control point) against the declarative route "decorate by
    hand every member the class itself defines, recursively for nested classes", plus the
    frame / idempotence / identity / metadata clauses, over families of class universes
    (Base, Derived(Base), Derived.Inner, Derived.Inner.Deep, two foreign classes referenced
    through an alias) x member variants x configurations x decoration orders.
    Spec mutants (inherited members decorated, aliased classes decorated, double wrapping,
    classmethod -> function, metadata lost, unannotated wrapped, nothing wrapped, and the
    0.23.0 ``qualname.startswith`` rule) must each be rejected.
R2  every quiescent state TLC reaches is printed as a JSON row (the universe, the history of
    operations, the spec-computed projection, return identities and call verdicts).  Every
    maximal history is replayed on real classes built from source by ``exec`` -- twice, with
    process-unique names: route A uses ``beartype(cls)``, route B decorates member by member
    -- and after every operation the real projection of both routes is compared with the
    row.  ``python -O`` rows are replayed in a ``python -O`` subprocess.
"""
from __future__ import annotations

import concurrent.futures as cf
import json
import os
import random
import subprocess
import sys

from verifkit import tlc
from verifkit.util import scratch, tla_set, write_file

LEVEL = "model_checking"

FUNCV = ["Fa", "Fu", "Fn", "Fm", "Ca", "Cu", "Cn", "Cm", "Sa", "Su", "Sn", "Sm",
         "Pa", "Pu", "Pn", "Paa", "Pua", "Pau", "Pnn", "Paaa", "Puau", "Puua"]
ALLV = FUNCV + ["Dt"]
INVARIANTS = ["RouteEq", "ReturnsSelf", "NestedDecorated", "InheritedUntouched", "AliasUntouched", "ClassIdempotent",
              "FuncIdempotent", "NoopIdentity", "OptimizedIdentity", "Wraps", "WrapsOriginal", "DepthOne",
              "KindKept"]
ALL_ORDERS = ["single", "baseonly", "basefirst", "derivedfirst", "twice", "memberclass", "classmember",
              "membertwice", "basemember", "innerfirst", "outerfirst", "dcbefore", "dcafter"]
# (RecursionOverflow is unreachable in the intended design: it is exercised by the Rule="prefix" run)
ACTIONS = ["DecorateClass", "DecorateMember", "MakeDataclass", "CheckMarkHit", "CheckMarkMiss", "WalkFuncLike",
           "WalkClassTaken", "WalkClassSkipped", "WalkData", "SetMark"]

GROUP_DEFAULTS = dict(VB=["Fa"], VB2=["none"], VD=["Fa"], VO=["none"], VI=["none"], VDeep=["none"],
                      MB=["type"], MI=["type"], ME=["type"], Aliases=["none"],
                      DCs=["none"], Orders=["single"], Confs=["D", "O0", "N"], Free=False, MaxOps=2)
GROUP_FIELDS = ["VB", "VB2", "VD", "VO", "VI", "VDeep", "MB", "MI", "ME", "Aliases", "DCs", "Orders", "Confs", "Free", "MaxOps"]


def _tla(v):
    if isinstance(v, bool):
        return "TRUE" if v else "FALSE"
    if isinstance(v, int):
        return str(v)
    if isinstance(v, str):
        return f'"{v}"'
    return tla_set(v)


def _model(d, name, groups, consts, invariants):
    """a model module  <name>.tla  (EXTENDS ClassDecor, defines the groups: a .cfg file cannot hold
    records) and its configuration; returns (spec path, cfg path)."""
    defs = []
    for label, g in groups:
        full = dict(GROUP_DEFAULTS)
        full.update(g)
        defs.append(f'Group("{label}", ' + ", ".join(_tla(full[f]) for f in GROUP_FIELDS) + ")")
    mod = (f"---- MODULE {name} ----\nEXTENDS ClassDecor\nGroupsDef == {{\n  " + ",\n  ".join(defs) + " }\n====\n")
    spec = write_file(d, f"{name}.tla", mod)
    c = dict(Rule="nested", SubRule="mro", Mutant="none", Optimized=False, Emit=True)
    c.update(consts)
    lines = ["SPECIFICATION Spec", "CONSTANTS"] + [f"  {k} = {_tla(v)}" for k, v in c.items()]
    lines.append("  Groups <- GroupsDef")
    lines += [f"INVARIANT {inv}" for inv in invariants] + ["CHECK_DEADLOCK FALSE"]
    cfg = write_file(d, f"{name}.cfg", "\n".join(lines) + "\n")
    return spec, cfg


# ====================================================================== concretiser (child side)
KIND_TYPES = {}


def _kind_of(val):
    """'+' marks an instance of a strict subclass of the builtin descriptor type."""
    import types
    if isinstance(val, classmethod):
        return "classmethod" if type(val) is classmethod else "classmethod+"
    if isinstance(val, staticmethod):
        return "staticmethod" if type(val) is staticmethod else "staticmethod+"
    if isinstance(val, property):
        return "property" if type(val) is property else "property+"
    if isinstance(val, types.FunctionType):
        return "func"
    if isinstance(val, type):
        return "class"
    return "other:" + type(val).__name__


def _parts_of(val):
    k = _kind_of(val).rstrip("+")
    if k == "func":
        return [val, None, None]
    if k in ("classmethod", "staticmethod"):
        return [val.__func__, None, None]
    if k == "property":
        return [val.fget, val.fset, val.fdel]
    return [None, None, None]


def _inst(K):
    """an instance to call members through: Enum classes have members, Protocol classes need an implementation."""
    import enum
    if isinstance(K, enum.EnumMeta):
        return next(iter(K))
    if getattr(K, "_is_protocol", False):
        return type(K.__name__ + "Impl", (K,), {})()
    return K()


_DECO = {}


def _deco(k):
    """the decorator of configuration k (built once per process)."""
    if not _DECO:
        from beartype import BeartypeConf, BeartypeStrategy, beartype
        ns = {}
        import warnings
        warnings.simplefilter("ignore")
        exec("class C13ParamExc(Exception): pass\nclass C13RetExc(Exception): pass\n"
             "class C13ParamExcW(Exception): pass\nclass C13RetExcW(Exception): pass\n"
             "class C13Warning(UserWarning): pass\n", ns)
        _DECO["PE"], _DECO["RE"] = ns["C13ParamExc"], ns["C13RetExc"]
        _DECO["PEW"], _DECO["REW"] = ns["C13ParamExcW"], ns["C13RetExcW"]
        confs = {"D": BeartypeConf(), "O0": BeartypeConf(strategy=BeartypeStrategy.O0),
                 "N": BeartypeConf(violation_param_type=ns["C13ParamExc"], violation_return_type=ns["C13RetExc"]),
                 # W: the non-fatal decoration mode (what beartype.claw uses): decoration errors become warnings
                 "W": BeartypeConf(warning_cls_on_decorator_exception=ns["C13Warning"],
                                   violation_param_type=ns["C13ParamExcW"], violation_return_type=ns["C13RetExcW"])}
        _DECO["D"] = beartype
        for name in ("O0", "N", "W"):
            _DECO[name] = beartype(conf=confs[name])
        _DECO["confs"] = confs
    return _DECO[k]


def _deco_in_class(k, obj, stack):
    """decorate a member "on behalf of" the classes in stack (the route beartype(cls) takes for its members):
    needed by hand only for members whose hints refer to the enclosing class (typing.Self)."""
    _deco("D")
    from beartype._decor.decorcore import beartype_object
    return beartype_object(obj, _DECO["confs"][k], cls_stack=stack)


def _classify(ex):
    from beartype.roar import BeartypeCallHintParamViolation, BeartypeCallHintReturnViolation
    _deco("D")
    if type(ex) is _DECO["PE"]:
        return "P:N"
    if type(ex) is _DECO["RE"]:
        return "R:N"
    if type(ex) is _DECO["PEW"]:
        return "P:W"
    if type(ex) is _DECO["REW"]:
        return "R:W"
    if isinstance(ex, BeartypeCallHintParamViolation):
        return "P:D"
    if isinstance(ex, BeartypeCallHintReturnViolation):
        return "R:D"
    return f"exc:{type(ex).__name__}:{str(ex)[:80]}"


class World:
    """One exec()-ed copy of the class universe of a case."""

    def __init__(self, case, tag):
        self.case = case
        self.P = f"K{case['no']}{tag}_"
        self.classes = case["classes"]
        row0 = case["rows"][0]
        self.flags = {f["id"]: f for f in row0["funcs"]}
        self.src = self._source(row0["obs"])
        import types
        self.modname = f"c13mod_{self.P}"
        mod = types.ModuleType(self.modname)          # dataclass() looks the module up in sys.modules
        sys.modules[self.modname] = mod
        self.ns = mod.__dict__
        exec("import abc, enum, typing\nfrom typing import no_type_check, Self\n"
             f"class {self.P}Meta(type): pass\n"
             f"class {self.P}SubCM(classmethod): pass\nclass {self.P}SubSM(staticmethod): pass\n", self.ns)
        # dont_inherit: this driver's "from __future__ import annotations" must not leak into the case
        exec(compile(self.src, f"<c13:{self.P}>", "exec", dont_inherit=True), self.ns)
        self.orig = {}          # function id -> original function object
        self.meta = {}          # function id -> metadata captured before any decoration
        self.data = {}          # (c, name) -> original value of data / class-valued slots
        self.extra = {}         # c -> {unmodelled name: object}
        for c, cl in enumerate(self.classes, 1):
            if not cl["present"]:
                continue
            K = self.cls(c)
            for s in row0["obs"][c - 1]["slots"]:
                val = K.__dict__[s["name"]]
                if s["kind"] in ("func", "classmethod", "staticmethod", "property"):
                    for p, f in enumerate(_parts_of(val)):
                        j = s["parts"][p]["origin"]
                        if j:
                            self._capture(j, f)
                else:
                    self.data[(c, s["name"])] = val
            self._snapshot_extra(c, row0["obs"][c - 1]["slots"])

    def close(self):
        sys.modules.pop(self.modname, None)

    # ---- source -------------------------------------------------------------------
    def pyname(self, c):
        cl = self.classes[c - 1]
        return (self.P + "".join(cl["qn"])) if cl["owner"] == 0 else cl["qn"][-1]

    def _func_src(self, pad, name, j, first, role):
        fl = self.flags[j]
        ann = fl["ann"]
        out = []
        if fl["ntc"]:
            out.append(f"{pad}@no_type_check")
        args = [first] if first else []
        if role == "call" and fl.get("ctx"):
            args += ["x: Self", "*", "y: int = 0"]
            ret, body = " -> Self", "return x"
        elif role == "call":
            args += ["x: int" if ann else "x", "*", "y: int = 0" if ann else "y=0"]
            ret, body = " -> int" if ann else "", "return x"
        elif role == "get":
            ret, body = " -> int" if ann else "", f"return self.__dict__.get('_v_{name}', 0)"
        elif role == "set":
            args += ["v: int" if ann else "v"]
            ret, body = " -> None" if ann else "", f"self.__dict__['_v_{name}'] = v"
        else:
            ret, body = " -> None" if ann else "", f"self.__dict__.pop('_v_{name}', None)"
        out.append(f"{pad}def {name}({', '.join(args)}){ret}:")
        out.append(f"{pad}    'doc of {name} ({role}, f{j})'")
        out.append(f"{pad}    {body}")
        return out

    def _class_src(self, c, ind, obs0):
        pad = "    " * ind
        cl = self.classes[c - 1]
        bases = [self.pyname(b) for b in cl["bases"]]
        meta = cl.get("meta", "type")
        if not bases:          # (a derived class inherits the metaclass of its base)
            bases += {"abc": ["abc.ABC"], "enum": ["enum.Enum"], "protocol": ["typing.Protocol"],
                      "custom": [f"metaclass={self.P}Meta"]}.get(meta, [])
        bases = ", ".join(bases)
        out = [f"{pad}class {self.pyname(c)}({bases}):" if bases else f"{pad}class {self.pyname(c)}:",
               f"{pad}    'class {''.join(cl['qn'])}'"]
        ip = pad + "    "
        if meta == "enum" and not cl["bases"]:
            out.append(f"{ip}RED = 1")
        for s in obs0[c - 1]["slots"]:
            name, kind = s["name"], s["kind"]
            ids = [p["origin"] for p in s["parts"]]
            if kind == "func":
                out += self._func_src(ip, name, ids[0], "self", "call")
            elif kind == "classmethod":
                out += [f"{ip}@{self.P + 'SubCM' if s.get('sub') else 'classmethod'}"] + \
                    self._func_src(ip, name, ids[0], "cls", "call")
            elif kind == "staticmethod":
                out += [f"{ip}@{self.P + 'SubSM' if s.get('sub') else 'staticmethod'}"] + \
                    self._func_src(ip, name, ids[0], "", "call")
            elif kind == "property":
                out += [f"{ip}@property"] + self._func_src(ip, name, ids[0], "self", "get")
                if ids[1]:
                    out += [f"{ip}@{name}.setter"] + self._func_src(ip, name, ids[1], "self", "set")
                if ids[2]:
                    out += [f"{ip}@{name}.deleter"] + self._func_src(ip, name, ids[2], "self", "del")
            elif kind == "nested":
                out += self._class_src(s["cls"], ind + 1, obs0)
            elif kind == "alias":
                if s["cls"] != c:
                    out.append(f"{ip}{name} = {self.pyname(s['cls'])}")
            elif kind == "data":
                out.append(f"{ip}{name}: int = 0" if name == "fld" else f"{ip}{name} = 42")
            else:
                raise RuntimeError(f"unknown slot kind {kind}")
        return out

    def _source(self, obs0):
        out = []
        for c in (5, 6, 1, 2):
            if self.classes[c - 1]["present"]:
                out += self._class_src(c, 0, obs0) + [""]
                for s in obs0[c - 1]["slots"]:
                    if s["kind"] == "alias" and s["cls"] == c:      # a class referencing itself
                        out += [f"{self.pyname(c)}.{s['name']} = {self.pyname(c)}", ""]
        return "\n".join(out)

    # ---- access -------------------------------------------------------------------
    def cls(self, c):
        cl = self.classes[c - 1]
        if cl["owner"] == 0:
            return self.ns[self.pyname(c)]
        return self.cls(cl["owner"]).__dict__[cl["qn"][-1]]

    def _capture(self, j, f):
        import inspect
        self.orig[j] = f
        self.meta[j] = self._meta(f)

    @staticmethod
    def _meta(f):
        import inspect
        try:
            sig = str(inspect.signature(f))
        except Exception as ex:      # noqa
            sig = f"<{type(ex).__name__}>"
        return [getattr(f, "__name__", None), getattr(f, "__qualname__", None), getattr(f, "__doc__", None), sig,
                getattr(f, "__module__", None)]

    def _snapshot_extra(self, c, slots):
        names = {s["name"] for s in slots}
        self.extra[c] = {n: v for n, v in self.cls(c).__dict__.items() if n not in names}

    # ---- operations ---------------------------------------------------------------
    def op_member(self, c, name, k, stack=None):
        K = self.cls(c)
        old = K.__dict__[name]
        new = _deco(k)(old) if stack is None else _deco_in_class(k, old, stack)
        setattr(K, name, new)
        return old, new

    def by_hand(self, c, k, slots_of, stack=()):
        """route B: decorate every function-like member class c itself defines, recursively
        for the classes lexically nested in it.  A member whose hints refer to the enclosing class
        (typing.Self) cannot be decorated in isolation: it is decorated on behalf of its class(es)."""
        stack = stack + (self.cls(c),)
        for s in slots_of(c):
            if s["kind"] in ("func", "classmethod", "staticmethod", "property"):
                self.last = (c, s["name"])
                ctx = any(self.flags.get(p["origin"], {}).get("ctx") for p in s["parts"])
                self.op_member(c, s["name"], k, stack if ctx else None)
            elif s["kind"] in ("nested", "alias") and self.classes[s["cls"] - 1]["owner"] == c:
                self.by_hand(s["cls"], k, slots_of, stack)

    def op_dataclass(self, c, slots):
        """slots: the model's members of class c after the operation (with the synthesised ones)."""
        import dataclasses
        K = self.cls(c)
        r = dataclasses.dataclass(K)
        for s in slots:
            if s["name"] in ("__init__", "__repr__", "__eq__"):
                self._capture(s["parts"][0]["origin"], K.__dict__[s["name"]])
        return r is K

    # ---- projection ---------------------------------------------------------------
    def part_obs(self, f):
        ids = {id(o): j for j, o in self.orig.items()}
        cur, depth = f, 0
        while id(cur) not in ids and depth < 6 and hasattr(cur, "__wrapped__"):
            cur = cur.__wrapped__
            depth += 1
        origin = ids.get(id(cur), -1)
        w = getattr(f, "__wrapped__", None) if id(f) not in ids else None
        return {"origin": origin, "depth": depth, "wrapped": ids.get(id(w), -1) if w is not None else 0,
                "meta": self._meta(f), "flag": hasattr(f, "__beartype_wrapper")}

    def observe(self, row):
        """the real projection, shaped like row['obs'] / row['verdicts']."""
        obs = {}
        for c, cl in enumerate(self.classes, 1):
            if not cl["present"]:
                continue
            K = self.cls(c)
            slots = []
            for s in row["obs"][c - 1]["slots"]:
                if s["name"] not in K.__dict__:
                    slots.append({"name": s["name"], "kind": "missing"})
                    continue
                val = K.__dict__[s["name"]]
                o = {"name": s["name"], "kind": _kind_of(val)}
                if s["kind"] in ("nested", "alias"):
                    o["is"] = val is self.cls(s["cls"])
                elif s["kind"] == "data":
                    o["is"] = val is self.data.get((c, s["name"]))
                else:
                    o["parts"] = [self.part_obs(f) if f is not None else None for f in _parts_of(val)]
                slots.append(o)
            names = {s["name"] for s in row["obs"][c - 1]["slots"]}
            def rebuilt(old, new):
                # implicit members (Enum._generate_next_value_, Protocol.__subclasshook__) are descriptors of
                # the class' own namespace: beartype rebuilds the descriptor around the same function
                return (type(old) is type(new) and isinstance(old, (classmethod, staticmethod))
                        and old.__func__ is new.__func__)
            changed = sorted(n for n, v in self.extra[c].items()
                             if K.__dict__.get(n, self) is not v and not rebuilt(v, K.__dict__.get(n, self)))
            added = sorted(n for n in K.__dict__ if n not in names and n not in self.extra[c])
            obs[c] = {"slots": slots, "changed": changed, "added": added}
        verd = [self.verdict(v) for v in sorted(row["verdicts"], key=lambda v: (v["c"], v["n"], v["p"]))]
        return {"obs": obs, "verdicts": verd}

    def verdict(self, v):
        K = self.cls(v["c"])
        n, p, kind = v["n"], v["p"], v["kind"]
        out = {"c": v["c"], "n": n, "p": p}

        def run(thunk):
            try:
                return ["ok", thunk()]
            except BaseException as ex:      # noqa
                return [_classify(ex), None]

        BAD = "s"
        if n == "__init__":
            good, bad = run(lambda: K(fld=1).fld), run(lambda: K(fld=BAD).fld)
            want_good, want_bad = 1, BAD
        elif n == "__repr__":
            good = bad = run(lambda: repr(_inst(K)) and 1)
            want_good = want_bad = 1
        elif n == "__eq__":
            good = bad = run(lambda: (_inst(K) == _inst(K)) and 1)
            want_good = want_bad = 1
        elif kind in ("func", "classmethod", "staticmethod"):
            def target():
                return getattr(_inst(K) if kind == "func" else K, n)
            G = _inst(K) if v.get("ctx") else 1     # typing.Self: an instance of the class is a good argument
            good, bad = run(lambda: target()(G, y=2)), run(lambda: target()(BAD))
            want_good, want_bad = G, BAD
            if kind != "func" and good == ["ok", G]:
                # class and static methods are also callable through an instance
                vi = run(lambda: getattr(_inst(K), n)(G, y=2))
                if vi != ["ok", G]:
                    good = [f"via-instance:{vi[0]}", None]
            # the keyword-only parameter is checked like the positional one
            bad_kw = run(lambda: target()(G, y=BAD))
            if bad_kw[0] != bad[0]:
                bad = [f"positional:{bad[0]}|keyword:{bad_kw[0]}", None]
        elif kind == "property" and p == 1:
            def get(x):
                i = _inst(K)
                i.__dict__["_v_" + n] = x
                return getattr(i, n)
            good, bad = run(lambda: get(1)), run(lambda: get(BAD))
            want_good, want_bad = 1, BAD
        elif kind == "property" and p == 2:
            def put(x):
                i = _inst(K)
                setattr(i, n, x)
                return i.__dict__["_v_" + n]
            good, bad = run(lambda: put(1)), run(lambda: put(BAD))
            want_good, want_bad = 1, BAD
        elif kind == "property" and p == 3:
            def rm():
                i = _inst(K)
                i.__dict__["_v_" + n] = 1
                delattr(i, n)
                return ("_v_" + n) not in i.__dict__ and 1
            good = bad = run(rm)
            want_good = want_bad = 1
        else:
            good = bad = ["unsupported", None]
            want_good = want_bad = None
        out["good"] = good[0] if good[0] != "ok" or good[1] == want_good else f"ok-but-returned:{good[1]!r}"
        out["bad"] = bad[0] if bad[0] != "ok" or bad[1] == want_bad else f"ok-but-returned:{bad[1]!r}"
        return out


def _compare(world, real, row, route, step):
    """mismatches between the real projection and the row the specification computed."""
    mm = []

    def add(aspect, c, n, p, got, want):
        mm.append({"route": route, "step": step, "aspect": aspect, "c": c, "n": n, "p": p, "got": got, "want": want})

    drift = []
    for c, o in real["obs"].items():
        for s_real, s in zip(o["slots"], row["obs"][c - 1]["slots"]):
            n = s["name"]
            want_kind = {"nested": "class", "alias": "class"}.get(s["kind"], s["kind"]) + ("+" if s.get("sub") else "")
            if s["kind"] == "data":
                if not s_real.get("is", False):
                    add("data-identity", c, n, 0, s_real["kind"], "the original object")
                continue
            if s_real["kind"] != want_kind:
                add("kind", c, n, 0, s_real["kind"], want_kind)
                continue
            if s["kind"] in ("nested", "alias"):
                if not s_real["is"]:
                    add("class-identity", c, n, 0, "another object", "the original class")
                continue
            for p in range(3):
                want, got = s["parts"][p], s_real["parts"][p]
                if want["origin"] == 0:
                    if got is not None:
                        add("part-present", c, n, p + 1, "present", "absent")
                    continue
                if got is None:
                    add("part-present", c, n, p + 1, "absent", "present")
                    continue
                if got["origin"] != want["origin"]:
                    add("origin", c, n, p + 1, got["origin"], want["origin"])
                if got["depth"] != want["depth"]:
                    add("depth", c, n, p + 1, got["depth"], want["depth"])
                elif want["depth"] >= 1 and want["wrapped"] in world.orig and got["wrapped"] != want["wrapped"]:
                    add("__wrapped__", c, n, p + 1, got["wrapped"], want["wrapped"])
                wm = world.meta.get(want["meta"])
                if wm is not None and got["meta"] != wm:
                    add("metadata", c, n, p + 1, got["meta"], wm)
                if got["flag"] != (want["depth"] >= 1) and got["depth"] == want["depth"]:
                    drift.append(f"__beartype_wrapper flag {got['flag']} on {n} part {p + 1} at depth {got['depth']}")
        if o["changed"]:
            drift.append(f"unmodelled class attributes replaced: {o['changed']}")
    want_v = {(v["c"], v["n"], v["p"]): v for v in row["verdicts"]}
    for v in real["verdicts"]:
        w = want_v[(v["c"], v["n"], v["p"])]
        if v["good"] != "ok":
            add("verdict-good", v["c"], v["n"], v["p"], v["good"], "ok")
        if v["bad"] != w["bad"]:
            add("verdict-bad", v["c"], v["n"], v["p"], v["bad"], w["bad"])
    return mm, drift


def _fingerprint(real, P):
    """what routes A and B must agree on, independent of the specification."""
    def strip(meta):
        return [m.replace(P, "K_") if isinstance(m, str) else m for m in meta]
    obs = {}
    for c, o in real["obs"].items():
        obs[c] = [[s["name"], s["kind"], s.get("is"),
                   [None if p is None else [p["origin"], p["depth"], p["wrapped"], strip(p["meta"]), p["flag"]]
                    for p in s.get("parts", [])]] for s in o["slots"]]
    return {"obs": obs, "verdicts": real["verdicts"]}


class _Machinery(BaseException):
    pass


def _apply_op(out, stats, alt, alt_mm, step, row, op, route, w, slots_of):
    """perform one operation of the history on one route; record what it returned."""
    if op["t"] == "C":
        if route == "A":
            K = w.cls(op["c"])
            try:
                r = _deco(op["k"])(K)
                got = "cls" if r is K else "another object"
            except RecursionError:
                got = "raise"
            if got != row["ret"]["t"]:
                out["mismatches"].append({"route": "A", "step": step, "aspect": "returns-class", "c": op["c"],
                                          "n": "", "p": 0, "got": {"raise": "RecursionError"}.get(got, got),
                                          "want": "the class itself"})
            if alt is not None and got != alt[step]["ret"]["t"]:
                alt_mm.append("ret")
        else:
            w.by_hand(op["c"], op["k"], slots_of)
    elif op["t"] == "M":
        name = slots_of(op["c"])[op["i"] - 1]["name"]
        w.last = (op["c"], name)
        old, new = w.op_member(op["c"], name, op["k"])
        po, pn = _parts_of(old), _parts_of(new)
        for p in range(3):
            if po[p] is None:
                continue
            same = pn[p] is po[p]
            if same != row["ret"]["same"][p]:
                out["mismatches"].append({"route": route, "step": step, "aspect": "returned-identity",
                                          "c": op["c"], "n": name, "p": p + 1, "got": same,
                                          "want": row["ret"]["same"][p]})
        if row["ret"]["obj"] == "same" and new is not old:
            out["mismatches"].append({"route": route, "step": step, "aspect": "returned-object", "c": op["c"],
                                      "n": name, "p": 0, "got": "another object", "want": "the argument"})
        stats["ident_" + str(all(row["ret"]["same"]))] = stats.get("ident_" + str(all(row["ret"]["same"])), 0) + 1
    elif op["t"] == "DC":
        if not w.op_dataclass(op["c"], row["obs"][op["c"] - 1]["slots"]):
            raise _Machinery("dataclass() returned another class")
        w._snapshot_extra(op["c"], row["obs"][op["c"] - 1]["slots"])


def replay_case(case):
    """Run one history through both routes; compare with the rows after every operation."""
    rows = case["rows"]
    alt = case.get("alt_rows")
    out = {"no": case["no"], "mismatches": [], "drift": [], "stats": {}, "explained": None}
    stats = out["stats"]
    worlds = {"A": World(case, "A"), "B": World(case, "B")}
    alt_mm = []
    reals = {}
    aborted = False
    for step, row in enumerate(rows):
        if step > 0:
            op = row["hist"][-1]
            prev = rows[step - 1]
            for route, w in worlds.items():
                slots_of = lambda c, prev=prev: prev["obs"][c - 1]["slots"]      # noqa
                w.last = (op["c"], "")
                try:
                    _apply_op(out, stats, alt, alt_mm, step, row, op, route, w, slots_of)
                except RecursionError:
                    raise
                except Exception as ex:      # noqa: the decoration itself raised
                    if row["ret"]["t"] != "raise":
                        out["mismatches"].append({"route": route, "step": step, "aspect": "decoration-raises",
                                                  "c": w.last[0], "n": w.last[1], "p": 0,
                                                  "got": f"{type(ex).__name__}: {str(ex)[:120]}", "want": "no exception"})
                    aborted = True
            if aborted:
                break
        for route, w in worlds.items():
            real = w.observe(row)
            reals[route] = real
            mm, drift = _compare(w, real, row, route, step)
            out["mismatches"] += mm
            out["drift"] += drift
            if alt is not None and route == "A":
                alt_mm += _compare(w, real, alt[step], route, step)[0]
        fa, fb = _fingerprint(reals["A"], worlds["A"].P), _fingerprint(reals["B"], worlds["B"].P)
        if fa != fb:
            for c in fa["obs"]:
                for sa, sb in zip(fa["obs"][c], fb["obs"][c]):
                    if sa != sb:
                        out["mismatches"].append({"route": "A-vs-B", "step": step, "aspect": "routes-differ", "c": c,
                                                  "n": sa[0], "p": 0, "got": sa[1:], "want": sb[1:]})
            for va, vb in zip(fa["verdicts"], fb["verdicts"]):
                if va != vb:
                    out["mismatches"].append({"route": "A-vs-B", "step": step, "aspect": "routes-differ-verdict",
                                              "c": va["c"], "n": va["n"], "p": va["p"],
                                              "got": [va["good"], va["bad"]], "want": [vb["good"], vb["bad"]]})
        # bookkeeping for non-vacuity
        for v in row["verdicts"]:
            stats["v_" + v["bad"]] = stats.get("v_" + v["bad"], 0) + 1
            if v.get("ctx"):
                key = "ctx_wrapped_" + v["bad"][2:] if v["bad"] != "ok" else "ctx_plain"
                stats[key] = stats.get(key, 0) + 1
            if v["def"] != v["c"]:
                stats["inherited"] = stats.get("inherited", 0) + 1
        for c, cl in enumerate(case["classes"], 1):
            if cl["present"]:
                if row["obs"][c - 1]["mark"] and cl["owner"]:
                    key = "nested_marked_" + cl.get("meta", "type")
                    stats[key] = stats.get(key, 0) + 1
                for s in row["obs"][c - 1]["slots"]:
                    for p in s["parts"]:
                        if p["origin"]:
                            key = f"{s['kind']}_{'wrapped' if p['depth'] else 'plain'}"
                            stats[key] = stats.get(key, 0) + 1
    stats["steps"] = len(rows) - 1
    stats["calls"] = sum(2 * len(r["verdicts"]) for r in rows) * 2
    if alt is not None and out["mismatches"]:
        only_a = all(m["route"] in ("A", "A-vs-B") for m in out["mismatches"])
        if only_a and not alt_mm:
            out["explained"] = "Rule=prefix"
    out["src"] = worlds["A"].src if out["mismatches"] else None
    for w in worlds.values():
        w.close()
    return out


def _replay_chunk(cases):
    res = []
    for case in cases:
        try:
            res.append(replay_case(case))
        except BaseException as ex:      # noqa
            import traceback
            res.append({"no": case["no"], "error": f"{type(ex).__name__}: {ex}\n{traceback.format_exc()[-1500:]}"})
    return res


def _child_main(inp, outp):
    """entry point of the ``python -O`` subprocess."""
    cases = json.load(open(inp))
    from beartype import beartype     # noqa
    res = _replay_chunk(cases)
    for r in res:
        r["optimized_interpreter"] = not __debug__
    json.dump(res, open(outp, "w"))


# ====================================================================== spec side
def _cases_from_rows(rows, alt_rows=None, start_no=0):
    """group the rows of one TLC run into histories: one case per maximal history."""
    def k(r):
        return (json.dumps(r["u"], sort_keys=True), json.dumps(r["hist"], sort_keys=True))

    table = {}
    for r in rows:
        if isinstance(r, dict) and "hist" in r:
            table[k(r)] = r
    alt = {}
    for r in alt_rows or []:
        if isinstance(r, dict) and "hist" in r:
            alt[k(r)] = r
    by_u = {}
    for (uk, hk), r in table.items():
        by_u.setdefault(uk, []).append(r)
    cases = []
    for uk in sorted(by_u):
        rs = by_u[uk]
        hists = [r["hist"] for r in rs]
        for r in sorted(rs, key=lambda r: json.dumps(r["hist"], sort_keys=True)):
            h = r["hist"]
            if not h:
                continue
            if any(len(h2) > len(h) and h2[:len(h)] == h for h2 in hists):
                continue            # a proper prefix of another history: checked on the way
            chain = []
            for i in range(len(h) + 1):
                key = (uk, json.dumps(h[:i], sort_keys=True))
                if key not in table:
                    raise tlc.TLCMachineryError(f"row for prefix {h[:i]} of {h} missing in TLC output")
                chain.append(table[key])
            case = {"no": start_no + len(cases), "group": r["group"], "u": r["u"], "classes": r["classes"], "rows": chain}
            if alt and (uk, json.dumps(h, sort_keys=True)) in alt:
                case["alt_rows"] = [alt[(uk, json.dumps(h[:i], sort_keys=True))] for i in range(len(h) + 1)]
            cases.append(case)
    return cases


def _fmt_op(op, case):
    names = {1: "Base", 2: "Derived", 3: "Derived.Inner", 4: "Derived.Inner.Deep", 5: "Aux", 6: "DerivedAux"}
    conf = {"D": "", "O0": "conf=O0", "N": "conf=<custom violation types>",
            "W": "conf=<warning_cls_on_decorator_exception set, custom violation types>", "-": ""}[op["k"]]
    if op["t"] == "C":
        return f"beartype({conf})({names[op['c']]})" if conf else f"beartype({names[op['c']]})"
    if op["t"] == "M":
        mem = {(1, 1): "a", (2, 1): "b"}.get((op["c"], op["i"]), f"<slot {op['i']}>")
        deco = f"beartype({conf})" if conf else "beartype"
        return f"{names[op['c']]}.{mem} = {deco}({names[op['c']]}.__dict__['{mem}'])"
    return f"dataclass({names[op['c']]})"


ROLE = {(1, "a"): "vb", (1, "a2"): "vb2", (2, "b"): "vd", (2, "a"): "vo", (3, "c"): "vi", (4, "d"): "ve"}
CLSNAME = {1: "Base", 2: "Derived", 3: "Derived.Inner", 4: "Derived.Inner.Deep", 5: "Aux", 6: "DerivedAux"}


def _report(rep, case, res, origin):
    """turn the mismatches of one replayed case into violations with canonical keys."""
    u = case["u"]
    hist = case["rows"][-1]["hist"]
    for m in res["mismatches"]:
        upto = hist[:m["step"]]
        ops = [[o["t"], CLSNAME[o["c"]], o["i"], o["k"]] for o in upto]
        variant = u.get(ROLE.get((m["c"], m["n"]), ""), "-")
        subs = sorted({v for v in u.values() if v in ("Cs", "Ss")})
        if m["aspect"] == "decoration-raises" and "Cs" in subs and "BeartypeDecorWrappeeException" in str(m["got"]) \
                and "ncallable" in str(m["got"]):
            key = {"defect": "a member whose type is a subclass of classmethod makes the decoration raise",
                   "exception": "BeartypeDecorWrappeeException (Uncallable ... not decoratable by @beartype)"}
            what = (f"a classmethod-subclass member (e.g. abc.abstractclassmethod) makes "
                    f"{_fmt_op(hist[m['step'] - 1], case)} raise {m['got']!r} (route {m['route']}) instead of "
                    f"decorating it like a classmethod and returning the class; ClassDecor.tla SubRule=\"mro\" "
                    f"(real code: SubRule=\"exact\", dispatch on the exact type name in _decornontypemap.py)")
        elif variant == "Ss" and ((m["aspect"] == "kind" and m["got"] == "func") or
                                  (m["aspect"] == "verdict-good" and str(m["got"]).startswith("via-instance"))):
            key = {"defect": "a member whose type is a subclass of staticmethod is replaced by a plain function",
                   "consequence": "descriptor kind lost; a correct call through an instance is rejected"}
            what = (f"a staticmethod-subclass member (e.g. abc.abstractstaticmethod) is handled as a pseudo-callable: "
                    f"after {[_fmt_op(o, case) for o in upto]} {m['aspect']} of {CLSNAME[m['c']]}.{m['n']} is "
                    f"{m['got']!r}, C13 (descriptor kind kept, call for call equivalent) gives {m['want']!r}")
        elif res.get("explained") == "Rule=prefix" and u["al"] == "Self":
            key = {"defect": "class referencing itself cannot be decorated",
                   "relation": "cls.__qualname__.startswith(cls.__qualname__): unbounded recursion of beartype_type"}
            what = (f"a class that holds a reference to itself (Derived.ref = Derived) makes beartype(Derived) raise "
                    f"RecursionError instead of returning the class: after {[_fmt_op(o, case) for o in upto]} "
                    f"{m['aspect']} is {m['got']!r}, C13 gives {m['want']!r}; the real code matches ClassDecor.tla with "
                    f"Rule=\"prefix\" (decortype.py: the class passes its own qualname test before it is marked)")
        elif res.get("explained") == "Rule=prefix" and u["al"] == "DerivedAux":
            key = {"defect": "foreign class decorated through an alias",
                   "relation": "alias.__qualname__ startswith outer.__qualname__ without being nested in it"}
            what = (f"beartype(Derived) also decorates the foreign class DerivedAux that Derived merely references "
                    f"(Derived.ref = DerivedAux): after {[_fmt_op(o, case) for o in upto]} "
                    f"{m['aspect']} of {CLSNAME[m['c']]}.{m['n']} is {m['got']!r}, C13 (decorate what the class itself "
                    f"defines, recursively for classes NESTED in it) gives {m['want']!r}; the real code matches "
                    f"ClassDecor.tla with Rule=\"prefix\" (decortype.py: attr_value.__qualname__.startswith(cls.__qualname__))")
        else:
            key = {"aspect": m["aspect"], "route": m["route"], "class": CLSNAME.get(m["c"], m["c"]), "member": m["n"],
                   "variant": variant, "part": m["p"], "ops": ops, "got": m["got"], "want": m["want"],
                   "optimized": case["rows"][0]["optimized"]}
            what = (f"{origin}: after {[_fmt_op(o, case) for o in upto]} on universe {u} (route {m['route']}): "
                    f"{m['aspect']} of {CLSNAME.get(m['c'], m['c'])}.{m['n']} part {m['p']} is {m['got']!r}, "
                    f"ClassDecor.tla computes {m['want']!r}")
        rep.violation(key, what, {"case": case, "mismatch": m, "source": res.get("src"), "origin": origin})
    for dmsg in res.get("drift", [])[:3]:
        rep.spec_drift(dmsg)


# small models: do not let every JVM start a full set of JIT / GC threads
SMALL_JVM = {"JAVA_TOOL_OPTIONS": "-XX:TieredStopAtLevel=1 -XX:CICompilerCount=1 -XX:ParallelGCThreads=2"}


def _run_model(d, name, groups, consts, invariants=None, workers=16):
    invs = (INVARIANTS if invariants is None else invariants) + ["EmitRows"]
    spec, cfg = _model(d, name, groups, consts, invs)
    return tlc.run_tlc(spec, cfg, coverage=True, workers=workers, env=SMALL_JVM if workers < 16 else None)


# one configuration for all spec mutants (DefaultGroups of ClassDecor.tla; unmutated it is part of the
# main run as group "default" and satisfies every invariant): each mutant must violate a clause named for it
DEFAULT_GROUP = ("default", dict(VD=["Fa", "Ca", "Fu", "Cs", "Ss", "Fx"], VI=["none", "Sa"], MI=["type", "enum"],
                                 Aliases=["none", "Aux", "DerivedAux", "Self"],
                                 Orders=["single", "memberclass"], Confs=["D", "N", "W"]))
MUTANTS = [
    ("inherited", ["InheritedUntouched", "RouteEq"], dict(Mutant="inherited")),
    ("alias", ["AliasUntouched", "RouteEq", "ReturnsSelf"], dict(Mutant="alias")),
    ("prefix-rule-0.23.0", ["AliasUntouched", "RouteEq", "ReturnsSelf"], dict(Rule="prefix")),
    ("doublewrap", ["FuncIdempotent", "DepthOne"], dict(Mutant="doublewrap")),
    ("cm2func", ["KindKept", "RouteEq"], dict(Mutant="cm2func")),
    ("nometa", ["WrapsOriginal"], dict(Mutant="nometa")),
    ("wrapunann", ["NoopIdentity"], dict(Mutant="wrapunann")),
    ("nowrap", ["Wraps"], dict(Mutant="nowrap")),
    # the class route forgets to hand the class stack to its members under a non-fatal configuration:
    # members annotated with typing.Self stay undecorated (the error is only a warning)
    ("ctxdropped", ["Wraps", "RouteEq"], dict(Mutant="ctxdropped")),
    # value.__class__ in TYPES_BEARTYPEABLE instead of isinstance: nested ABC / Enum / ... classes skipped
    ("exacttype", ["NestedDecorated", "RouteEq"], dict(Mutant="exacttype")),
    # 0.23.0: dispatch on the exact descriptor type name
    ("subrule-exact-0.23.0", ["ReturnsSelf", "KindKept", "RouteEq"], dict(SubRule="exact")),
]


def _submit_mutants(d, ex):
    futs = {}
    for label, invs, consts in MUTANTS:
        c = dict(Rule="nested", SubRule="mro", Mutant="none", Optimized=False, Emit=False)
        c.update(consts)
        lines = ["SPECIFICATION Spec", "CONSTANTS"] + [f"  {k} = {_tla(v)}" for k, v in c.items()]
        lines += ["  Groups <- DefaultGroups"] + [f"INVARIANT {inv}" for inv in invs] + ["CHECK_DEADLOCK FALSE"]
        cfg = write_file(d, f"mut_{label}.cfg", "\n".join(lines) + "\n")
        futs[label] = (invs, ex.submit(tlc.run_tlc, "ClassDecor.tla", cfg, workers=1, heap="1g", env=SMALL_JVM))
    return futs


def _check_mutants(rep, futs):
    for label, (invs, f) in futs.items():
        res = f.result()
        if res.violated not in invs:
            rep.machinery(f"spec mutant {label} is not rejected by {invs} (TLC: {res.violated}): "
                          f"ClassDecor.tla is vacuous for that clause")
        rep.add("spec_mutants_killed")
        rep.cov.setdefault("spec_mutants", []).append({"mutant": label, "rejected_by": res.violated})


def _groups(tier):
    q = tier == "quick"
    some = ["Fa", "Fu", "Cn", "Sa", "Pua", "Paaa", "Dt"]
    g = []
    main_orders = ["single", "twice", "memberclass", "classmember", "membertwice", "basefirst", "derivedfirst"]
    g.append(("derived", dict(VD=ALLV, Orders=main_orders)))
    g.append(("base", dict(VB=ALLV, VD=["Fa"] if q else ["Fa", "Cu", "Pua"],
                           VO=["none", "Pu"] if q else ["none", "Fa", "Pu", "Sa", "Dt"],
                           Orders=["single", "basefirst", "basemember"] if q else
                           ["baseonly", "single", "basefirst", "derivedfirst", "basemember"])))
    g.append(("nested", dict(VI=ALLV, VDeep=["none", "Paa"] if q else ["none"] + some,
                             VD=["Fa"] if q else ["Fa", "Pu"],
                             Orders=["single", "innerfirst"] if q else
                             ["single", "innerfirst", "outerfirst", "twice"])))
    g.append(("alias", dict(Aliases=["Aux", "DerivedAux", "Base", "Self"], VD=["Fa", "Pu"], VI=["none", "Ca"],
                            Orders=["single", "twice", "basefirst", "derivedfirst"])))
    g.append(("dataclass", dict(DCs=["B", "D"], VD=["Fa", "Paa", "Cu"] if q else some, VB=["Fa", "Su"] if q else some,
                                Orders=["dcbefore", "dcafter"])))
    g.append(("pairs", dict(VB=some if q else ALLV, VB2=some if q else ALLV, VD=["Fa"],
                            Orders=["baseonly", "basemember"],
                            Confs=["D", "O0", "N"] if q else ["D", "N"])))
    g.append(("free", dict(Free=True, MaxOps=2 if q else 3, VB=["Ca"], VD=["Fa"] if q else ["Paa"], VI=["Sa"], VO=["none"],
                           Orders=[], Confs=["D", "O0", "N"] if q else ["D", "N"])))
    if not q:
        g.append(("free-o0", dict(Free=True, MaxOps=3, VB=["Fa"], VD=["Pua"], VI=["none"], Orders=[], Confs=["D", "O0"])))
        g.append(("base-x-derived", dict(VB=FUNCV, VD=FUNCV, Orders=["basefirst", "derivedfirst", "twice"], Confs=["D", "N"])))
        g.append(("deep", dict(VI=some, VDeep=ALLV, VD=["Fa"], Orders=["single", "innerfirst", "outerfirst"])))
    metas = ["type", "abc", "custom", "enum", "protocol"]
    g.append(("meta-nested", dict(VI=["Fa", "Cn", "Sa", "Pua"] if q else ALLV, MI=metas, VDeep=["none", "Fa"], ME=["type"] if q else ["type", "enum"],
                                  Orders=["single", "innerfirst"] if q else ["single", "innerfirst", "outerfirst", "twice"],
                                  Confs=["D", "N"] if q else ["D", "O0", "N"])))
    g.append(("meta-top", dict(VB=["Fa", "Paa"] if q else some, MB=["abc", "custom", "protocol"], VD=["Fa"] if q else ["Fa", "Sa"],
                               VI=["none", "Fa"], MI=["type", "enum"] if q else metas,
                               Orders=["basefirst", "derivedfirst"] if q else ["baseonly", "basefirst", "derivedfirst"],
                               Confs=["D", "N"])))
    g.append(("subdescr", dict(VD=["Cs", "Ss"], VI=["none", "Ss", "Cs"], MI=["type", "abc"],
                               Orders=["single", "memberclass", "classmember", "twice"], Confs=["D", "N"])))
    # members whose hints need the class (typing.Self) x the non-fatal configuration
    g.append(("selfctx", dict(VB=["Fa", "Fx"], VD=["Fx", "Cx"], VO=["none"] if q else ["none", "Fx"], VI=["none", "Fx", "Cx"],
                              VDeep=["none"] if q else ["none", "Fx"], MI=["type"] if q else ["type", "abc", "enum"],
                              Orders=["single", "basefirst", "derivedfirst", "twice", "innerfirst"], Confs=["D", "W", "O0"])))
    # ordinary members under the non-fatal configuration
    g.append(("nonfatal", dict(VD=some if q else ALLV, VI=["none", "Sa"], Orders=["single", "memberclass", "classmember", "twice"],
                               Confs=["W", "N"] if q else ["W", "D", "N"])))
    g.append(DEFAULT_GROUP)
    return g


OPT_GROUP = dict(VD=["Fa", "Ca", "Sa", "Paaa", "Fu", "Fx"], VI=["none", "Fa"], Aliases=["none", "DerivedAux"],
                 DCs=["none", "D"], Orders=["single", "twice", "memberclass", "membertwice", "basefirst", "dcbefore"],
                 Confs=["D", "O0", "N"])


def _chunks(cases, size):
    return [cases[i:i + size] for i in range(0, len(cases), size)]


def run(rep, tier, seed):
    rep.assumptions += [
        "members are related to ClassDecor.tla by the variant table (annotated = hint int, unannotated, "
        "@no_type_check applied directly to the function); bodies echo their argument",
        "identity is demanded of functions (fget/fset/fdel, __func__), not of property/classmethod/staticmethod "
        "objects, which beartype rebuilds; under python -O identity is demanded of the decorated object itself",
        "after the O0 strategy has marked a callable with @no_type_check, later non-O0 decorations are not part of "
        "the scenarios (their outcome is decided by that mark, which C13 does not mention)",
        "a class is not given new members between two decorations of that same class (dataclass() is applied "
        "before the first or after the last decoration)",
        "configuration N = BeartypeConf(violation_param_type=..., violation_return_type=...) identifies, through "
        "the exception class, which decoration built a wrapper",
    ]
    import beartype  # noqa: F401   (children fork from here)
    import time
    rnd = random.Random(seed)
    t0 = time.time()
    phases = rep.cov.setdefault("phase_s", {})
    import multiprocessing as mp
    # persistent workers, forked now while this process is small (a fork per case costs far more than a case:
    # every generated class has a process-unique name, so cases need no isolation from each other)
    with scratch("c13-") as d, mp.get_context("fork").Pool(12) as pool, cf.ThreadPoolExecutor(11) as ex:
        tlc.sany("ClassDecor.tla")
        groups = _groups(tier)
        fut_main = ex.submit(_run_model, d, "C13Main", groups, {})
        # the 0.23.0 rule, rows only: used to explain mismatches of the alias group
        fut_alt = ex.submit(_run_model, d, "C13Alias023", [g for g in groups if g[0] in ("alias", "default")],
                             dict(Rule="prefix"), [], 4)
        opt_fut = ex.submit(_run_model, d, "C13Optimized", [("optimized", OPT_GROUP)], dict(Optimized=True), None, 4)
        mut_futs = _submit_mutants(d, ex)       # (after the big run: the executor starts jobs in order)
        res = fut_main.result()
        rep.tlc(res, "ClassDecor, all groups: " + ", ".join(l for l, _ in groups))
        if res.violated:
            rep.machinery(f"ClassDecor.tla (intended design) violates {res.violated}: the specification itself is wrong")
        cov = {a: res.coverage.get(a, (0, 0))[1] for a in ACTIONS}
        ares = fut_alt.result()
        rep.tlc(ares, "ClassDecor alias+default groups, Rule=prefix (0.23.0 model, rows only)")
        if ares.coverage.get("RecursionOverflow", (0, 0))[1] == 0:
            rep.machinery("the Rule=prefix run never reached RecursionOverflow")
        all_cases = _cases_from_rows(res.printed, ares.printed)
        if not all_cases:
            rep.machinery("TLC printed no rows")
        phases["tlc_main_and_alt"] = round(time.time() - t0, 1)
        _check_mutants(rep, mut_futs)
        phases["mutants_done"] = round(time.time() - t0, 1)
        zero = [a for a, n in cov.items() if n == 0]
        if zero:
            rep.machinery(f"vacuous TLC runs: actions never taken: {zero}")
        rep.add("histories_total", len(all_cases))
        # replay, seeded shuffle so that chunks are balanced
        order = list(range(len(all_cases)))
        rnd.shuffle(order)
        chunks = _chunks([all_cases[i] for i in order], 24)
        results = [r for ch in pool.map(_replay_chunk, chunks, chunksize=1) for r in ch]
        rep.note(f"replayed {len(all_cases)} histories")
        phases["replay_done"] = round(time.time() - t0, 1)
        stats = {}
        by_no = {c["no"]: c for c in all_cases}
        for r in results:
            case = by_no[r["no"]]
            if "error" in r:
                rep.machinery(f"replay of case {case['u']} {case['rows'][-1]['hist']} failed: {r['error']}")
            for k2, v in r["stats"].items():
                stats[k2] = stats.get(k2, 0) + v
            rep.count(r["stats"]["calls"] + r["stats"]["steps"])
            rep.add("traces_validated_against_impl")
            if r["stats"]["steps"] >= 2:
                rep.nontrivial(json.dumps([case["u"], case["rows"][-1]["hist"]], sort_keys=True))
            _report(rep, case, r, f"replay of ClassDecor.tla group {case['group']}")
        mid = all_cases[len(all_cases) // 2]
        rep.sample({"group": mid["group"], "universe": mid["u"], "history": [_fmt_op(o, mid) for o in mid["rows"][-1]["hist"]],
                    "expected_bad_call_verdicts": sorted({v["bad"] for v in mid["rows"][-1]["verdicts"]})})
        # ---- python -O ------------------------------------------------------------
        ores = opt_fut.result()
        rep.tlc(ores, "ClassDecor optimized (-O)")
        if ores.violated:
            rep.machinery(f"ClassDecor.tla violates {ores.violated} with Optimized=TRUE")
        ocases = _cases_from_rows(ores.printed, None, start_no=len(all_cases))
        for c in ocases:
            c["group"] = "optimized"
        if tier == "quick" and len(ocases) > 400:
            ocases = rnd.sample(ocases, 400)
        inp = write_file(d, "opt_cases.json", json.dumps(ocases))
        outp = os.path.join(d, "opt_out.json")
        cp = subprocess.run([sys.executable, "-O", "-W", "ignore", "-c",
                             "import sys; from verifkit.drivers import c13; c13._child_main(sys.argv[1], sys.argv[2])",
                             inp, outp], capture_output=True, text=True, env=dict(os.environ), timeout=1200)
        if cp.returncode != 0 or not os.path.exists(outp):
            rep.machinery(f"python -O child failed: {cp.stderr[-1500:]}")
        ores_list = json.load(open(outp))
        phases["optimized_child_done"] = round(time.time() - t0, 1)
        by_no = {c["no"]: c for c in ocases}
        for r in ores_list:
            case = by_no[r["no"]]
            if "error" in r:
                rep.machinery(f"python -O replay of {case['u']} failed: {r['error']}")
            if not r.get("optimized_interpreter"):
                rep.machinery("the python -O child did not run optimised")
            rep.count(r["stats"]["calls"] + r["stats"]["steps"])
            rep.add("traces_validated_against_impl")
            rep.add("optimized_histories")
            _report(rep, case, r, "replay under python -O")
        # ---- non-vacuity of the binding ------------------------------------------
        need = ["v_P:D", "v_P:N", "v_R:D", "v_R:N", "v_ok", "inherited", "func_wrapped", "func_plain", "classmethod_wrapped",
                "classmethod_plain", "staticmethod_wrapped", "staticmethod_plain", "property_wrapped", "property_plain",
                "ident_True", "ident_False", "nested_marked_type", "nested_marked_abc", "nested_marked_enum",
                "nested_marked_custom", "nested_marked_protocol", "v_P:W", "v_R:W", "ctx_wrapped_W", "ctx_wrapped_D",
                "ctx_plain"]
        missing = [k2 for k2 in need if not stats.get(k2)]
        if missing:
            rep.machinery(f"vacuous replay: never exercised {missing}")
        rep.cov["replay_stats"] = stats
    rep.cov["exhaustive"] = False


def replay(rep, path):
    body = json.load(open(path))
    case = body["case"]["case"]
    import beartype  # noqa
    res = replay_case(case)
    print("universe:", case["u"])
    print("history :", [_fmt_op(o, case) for o in case["rows"][-1]["hist"]])
    if body["case"].get("source"):
        print(body["case"]["source"])
    for m in res["mismatches"]:
        print("MISMATCH", m)
    if not res["mismatches"]:
        print("no mismatch on this tree")
    _report(rep, case, res, "replay file")
    rep.level = "exploration"
    rep.cov["rule"] = "replay of one recorded history of ClassDecor.tla through both decoration routes"
    rep.sample({"universe": case["u"], "history": [_fmt_op(o, case) for o in case["rows"][-1]["hist"]]})
    rep.count(res["stats"]["calls"])
    rep.nontrivial("a")
    rep.nontrivial("b")
