"""C01 — no false alarms: an object that satisfies a hint is always accepted.

R1  TLC checks MC_Semantics: for every hint of the bounded grammar, every object of the
    universe, every draw residue and configuration variant, Sat(Pub(h)) => Chk (plus the
    lemmas relating Sat / SatB / Weak / MustReject and the draw abstraction); spec mutants
    of the generated check must be rejected.
R2  the case table emitted by the same TLC run (one row per hint x configuration: the
    spec-computed Sat / MustReject / Weak / Chk vectors over the object universe) is
    replayed into the real is_bearable / die_if_unbearable / TypeHint / decorated
    parameter and return checks, under every draw residue (lifted to large 32-bit
    representatives), several spellings of each hint, and stretched containers.
"""
from __future__ import annotations

import json

LEVEL = "model_checking"


def run(rep, tier, seed):
    from verifkit.bind import semreplay
    rep.assumptions += [
        "bounded hint grammar and object universe of MC_Semantics.tla (container length <= L, depth <= 2)",
        "the draw enters generated code only as r % len: residues mod lcm(1..L) are exhaustive (checked as a lemma "
        "in the model and by lifting residues to large representatives on the implementation)",
        "verifkit/bind/sem.py relates abstract hints/objects to real ones (set iteration order re-projected)",
    ]
    if tier == "thorough":
        semreplay.run_mutants(rep, "quick", ("union_first_only", "tupf_len_ge", "seq_len_minus_1", "map_value_vs_key"))
    else:
        semreplay.run_mutants(rep, "quick", ("map_value_vs_key",))
    rows = semreplay.build_rows(rep, tier)
    opts = {"props": {"C01"}, "entry_points": True, "spellings": 2 if tier == "quick" else 4, "seed": seed,
            "reject_cap": 0}
    tot = semreplay.replay(rep, rows, opts)
    report(rep, tot, "C01")
    deep = semreplay.build_deep_rows(rep, 2 if tier == "quick" else 3)
    tot2 = semreplay.replay(rep, deep, {**opts, "spellings": 1})
    report(rep, tot2, "C01")
    # Annotated[...] hints with validators (the case table of MC_Vale.tla, also used by C12)
    vrows = semreplay.build_rows(rep, tier, module="MC_Vale.tla", invariants=semreplay.VALE_INVARIANTS)
    tot3 = semreplay.replay(rep, vrows, {**opts, "spellings": 1})
    report(rep, tot3, "C01")
    rep.cov["exhaustive"] = True


def report(rep, tot, pid):
    for i in tot["issues"]:
        if i["prop"] != pid:
            continue
        rep.violation({"kind": i["kind"], "hint": i["hint"], "conf": i["conf"], "obj": i["obj"]},
                      f"{i['hint']} (conf variant {i['conf']}) with {i['obj']}: {i['detail']}",
                      {"hint": i["habs"], "obj": i["oabs"], "conf": i["conf"], "spelling": i.get("sp", 0)})
    rep.count(tot["n_calls"])
    rep.add("traces_validated_against_impl", tot["rows"])
    rep.add("hint_object_pairs", tot["n_pairs"])
    rep.add("hints", tot["hints"])
    for k in tot["nontrivial"]:
        rep.nontrivial(k)
    for s in tot["samples"][:6]:
        rep.sample(s)
    if tot["drift"]:
        rep.cov["spec_drift"] = tot["drift"]
        rep.cov["spec_drift_examples"] = tot["drift_ex"][:8]
        rep.note(f"SPEC-DRIFT: {tot['drift']} (hint, object) pairs where the real accept-mask differs from the model's "
                 f"Chk (no property violated): {tot['drift_ex'][:3]}")
    rep.cov["model_agreement_pairs"] = tot["n_pairs"] - tot["drift"]
    rep.cov["max_sampler_draws_per_check"] = tot["draw_calls_max"]


def replay(rep, path):
    from verifkit.bind import sem
    from beartype.door import is_bearable, die_if_unbearable
    case = json.load(open(path))["case"]
    w = sem.World()
    hint = w.hint(case["hint"], case.get("spelling", 0))
    x = w.obj(case["obj"])
    print("hint:", hint, " object:", repr(x)[:200])
    for r in range(6):
        sem.DRAW.value = r
        print(" draw", r, "is_bearable ->", is_bearable(x, hint))
    rep.level = "exploration"
    rep.count(6)
    rep.nontrivial("a")
    rep.nontrivial("b")
