"""Evidence writer, known-findings matcher and violation reporter shared by all checks.

Exit protocol (see DESIGN.md §2.7/§2.8):
  0  property held on everything explored (known findings print KNOWN-FINDING lines)
  1  at least one violation that KNOWN_FINDINGS.jsonl does not list
     (stdout line ``VIOLATION property=<id> replay=<path>``)
  2  machinery failure (tool crash, vacuous model run, untrustworthy oracle)
"""
from __future__ import annotations

import hashlib
import json
import os
import sys
import time
from typing import Any, Dict, List, Optional

ROOT = os.path.dirname(os.path.dirname(os.path.abspath(__file__)))
EVIDENCE_DIR = os.path.join(ROOT, "evidence")
REPLAY_DIR = os.path.join(ROOT, "replay")
KNOWN = os.path.join(ROOT, "KNOWN_FINDINGS.jsonl")
SCHEMA = "/root/.vp/EVIDENCE.schema.json"


def canon(x: Any) -> str:
    return json.dumps(x, sort_keys=True, separators=(",", ":"), default=repr)


def load_known(pid: str) -> List[Dict[str, Any]]:
    out = []
    if os.path.exists(KNOWN):
        for line in open(KNOWN):
            line = line.strip()
            if not line or line.startswith("#"):
                continue
            e = json.loads(line)
            if "fixed" in e:
                continue            # a fixed entry suppresses nothing
            if e.get("property") == pid:
                out.append(e)
    return out


class MachineryFailure(Exception):
    pass


class Reporter:
    """Collects violations, matches them against KNOWN_FINDINGS, writes evidence."""

    MAX_REPORTED = 25

    def __init__(self, pid: str, tier: str, seed: int, level: str = "model_checking"):
        self.pid, self.tier, self.seed, self.level = pid, tier, seed, level
        self.t0 = time.time()
        self.known = load_known(pid)
        self.known_hit: Dict[str, int] = {}
        self.violations: List[Dict[str, Any]] = []
        self.violation_keys = set()
        self.drift: List[str] = []
        self.notes: List[str] = []
        self.cov: Dict[str, Any] = {}
        self.samples: List[Any] = []
        self.assumptions: List[str] = []
        self._nontrivial = set()
        self.evaluations = 0

    # ---- coverage bookkeeping -------------------------------------------------------
    def count(self, n: int = 1):
        self.evaluations += n

    def nontrivial(self, key: Any):
        self._nontrivial.add(key if isinstance(key, (str, int, tuple)) else canon(key))

    def sample(self, s: Any, cap: int = 8):
        if len(self.samples) < cap:
            self.samples.append(s)

    def add(self, key: str, n: int = 1):
        self.cov[key] = self.cov.get(key, 0) + n

    def tlc(self, res, label: str = ""):
        """Accumulate TLC statistics of one run into the evidence."""
        self.cov["states"] = self.cov.get("states", 0) + res.distinct
        self.cov["transitions"] = self.cov.get("transitions", 0) + max(res.generated, 1)
        runs = self.cov.setdefault("tlc_runs", [])
        runs.append({"label": label, "cmd": res.cmd.replace("/tmp/", "<tmp>/")[-300:], "distinct": res.distinct,
                     "generated": res.generated, "depth": res.depth, "wall_s": round(res.wall_s, 1),
                     "violated": res.violated})

    # ---- verdicts -------------------------------------------------------------------
    def violation(self, key: Any, what: str, replay: Optional[Dict[str, Any]] = None):
        """Report one violating case.  ``key`` is its canonical identification."""
        ck = canon(key)
        for e in self.known:
            if canon(e.get("key")) == ck:
                if ck not in self.known_hit:
                    print(f"KNOWN-FINDING: property={self.pid} {e.get('what', what)}", flush=True)
                self.known_hit[ck] = self.known_hit.get(ck, 0) + 1
                return
        if ck in self.violation_keys:
            return
        self.violation_keys.add(ck)
        h = hashlib.sha1(ck.encode()).hexdigest()[:12]
        path = os.path.join(REPLAY_DIR, f"{self.pid}-{h}.json")
        self.violations.append({"key": key, "what": what, "replay": path})
        if len(self.violations) <= self.MAX_REPORTED:
            os.makedirs(REPLAY_DIR, exist_ok=True)
            body = {"property": self.pid, "key": key, "what": what, "tier": self.tier, "seed": self.seed,
                    "replay_cmd": f"./check {self.pid} --replay {path}"}
            if replay:
                body["case"] = replay
            with open(path, "w") as fh:
                json.dump(body, fh, indent=1, sort_keys=True, default=repr)
            print(f"VIOLATION property={self.pid} replay={path}", flush=True)
            print(f"  what: {what[:600]}", flush=True)

    def spec_drift(self, msg: str):
        if len(self.drift) < 50:
            self.drift.append(msg)
        self.cov["spec_drift"] = self.cov.get("spec_drift", 0) + 1

    def note(self, msg: str):
        print(f"[{self.pid}] {msg}", flush=True)
        self.notes.append(msg)

    def machinery(self, msg: str):
        raise MachineryFailure(msg)

    # ---- evidence -------------------------------------------------------------------
    def finish(self) -> int:
        cov = dict(self.cov)
        cov.setdefault("states", 0)
        cov.setdefault("transitions", 0)
        cov.setdefault("traces_validated_against_impl", 0)
        cov["evaluations"] = int(self.evaluations)
        cov["distinct_nontrivial"] = len(self._nontrivial)
        cov["samples"] = self.samples or ["(no sample recorded)"]
        cov.setdefault("rule", getattr(self, "rule", None) or
                       "cases are enumerated by TLC from the specification (or drawn with the run's seed); a case is "
                       "counted as non-trivial by the driver's rep.nontrivial() keys (distinct structural classes)")
        cov["known_findings_hit"] = {k: v for k, v in self.known_hit.items()}
        if self.drift:
            cov["spec_drift_examples"] = self.drift[:10]
        if self.notes:
            cov["notes"] = self.notes[-40:]
        ev = {"property_id": self.pid, "tier": self.tier, "seed": int(self.seed), "level": self.level,
              "coverage": cov, "assumptions": self.assumptions, "wall_s": round(time.time() - self.t0, 2),
              "violations": len(self.violations)}
        if self.level == "model_checking" and (cov["states"] < 1 or cov["transitions"] < 1):
            raise MachineryFailure("model_checking evidence without TLC statistics")
        try:
            import jsonschema
            jsonschema.validate(ev, json.load(open(SCHEMA)))
        except ImportError:
            pass
        except FileNotFoundError:
            pass
        evdir = EVIDENCE_DIR
        if os.path.realpath(os.environ.get("VERIF_REPO", "/repo")) != "/repo":
            # mutation self-test against a scratch worktree: never overwrite the evidence of /repo
            evdir = os.path.join(os.environ.get("TMPDIR", "/tmp"), "verif-selftest-evidence")
        os.makedirs(evdir, exist_ok=True)
        tmp = os.path.join(evdir, f".{self.pid}.tmp")
        with open(tmp, "w") as fh:
            json.dump(ev, fh, indent=1, sort_keys=True, default=repr)
        os.replace(tmp, os.path.join(evdir, f"{self.pid}.json"))
        if self.violations:
            # every violation key of this run (replay files are written for the first MAX_REPORTED only)
            os.makedirs(REPLAY_DIR, exist_ok=True)
            with open(os.path.join(REPLAY_DIR, f"{self.pid}-all-violations.jsonl"), "w") as fh:
                for v in self.violations:
                    fh.write(json.dumps({"key": v["key"], "what": v["what"][:400]}, sort_keys=True, default=repr) + "\n")
            print(f"[{self.pid}] {len(self.violations)} distinct violation(s); known findings hit: "
                  f"{sum(self.known_hit.values())}", flush=True)
            return 1
        print(f"[{self.pid}] OK tier={self.tier} evaluations={self.evaluations} "
              f"nontrivial={len(self._nontrivial)} states={cov['states']} "
              f"impl_traces={cov['traces_validated_against_impl']} known_hits={sum(self.known_hit.values())} "
              f"wall={ev['wall_s']}s", flush=True)
        return 0
