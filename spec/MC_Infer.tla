------------------------------ MODULE MC_Infer ------------------------------
(* C20: enumeration for Infer.tla.                                                      *)
(*                                                                                      *)
(* Mode = "objs": state = one object of the bounded universe (reached through chunk     *)
(*   states so that TLC's workers share the enumeration).  Invariants: the inferred     *)
(*   hint accepts its object under every draw residue (generated check ChkX) and at     *)
(*   full depth (SatX); no exception; inference terminates with a hint no deeper than   *)
(*   the object; the recursion placeholder appears exactly for self-referential         *)
(*   containers; SatX / ChkX coincide with Semantics' Sat / Chk on Semantics' universe. *)
(*   Rows (object, Infer under On and under O1 per residue, predicted round-trip        *)
(*   verdict per residue) are emitted per chunk for the replay into the real code.      *)
(* Mode = "fsm": state = (method set, automaton node); the automaton of                 *)
(*   infercollectionsabc.py runs as TLA+ transitions over all unions of its transition  *)
(*   labels; invariants: deterministic (both lookup paths of the code agree), total,    *)
(*   sound, maximal, equal to the functional form used by Inf.                          *)
EXTENDS Infer, FiniteSetsExt, Json, IOUtils

CONSTANTS Tier,     \* "nv" (tiny, non-vacuity runs) | "quick" | "thorough"
          L,        \* maximal container length
          Emit,     \* TRUE: emit rows
          Mode      \* "objs" | "fsm"

SeqsUpTo(S, n) == UNION { [1..k -> S] : k \in 0..n }
Distinct(s) == \A i, j \in DOMAIN s : i # j => ~PyEq(s[i], s[j])
Pairs(K, Vs) == { KV(a, b) : a \in K, b \in Vs }
KeyDistinct(s) == \A i, j \in DOMAIN s : i # j => ~PyEq(s[i].key, s[j].key)

(* ------------------------------------------------------------------ objects *)
eA == Atom("E", 301)          \* a member of an enum.Enum subclass
fn == Atom("func", 401)       \* a plain function
oo == Atom("object", 501)     \* object()
ProtoAtoms == {Atom("USized", 0), Atom("UCont", 0), Atom("URev", 0), Atom("UItor", 0)}
TypeObjs == {TypeObj("int"), TypeObj("A"), TypeObj("E"), TypeObj("list"), TypeObj("USet")}
AllAtoms == {i0, i1, bF, bT, f1, cj, sa, none, oa, ob, eA, fn, oo} \cup ProtoAtoms

ItemAtoms == CASE Tier = "nv"    -> {i1, sa, eA}
               [] Tier = "quick" -> {i1, sa, bT, none, ob, eA, fn, oo, TypeObj("int")}
               [] OTHER          -> {i1, sa, bT, none, ob, eA, fn, oo, TypeObj("int"), f1}
KeyAtoms  == {i1, sa, none}
SmallAtoms == {i1, sa}
LL == IF Tier = "nv" THEN 2 ELSE L

SeqLikeCls == {"list", "tuple", "deque", "USeq", "UColl", "dict_values", "odict_values", "UMSeq", "MyList", "DSeq"}
SetLikeCls == {"set", "frozenset", "dict_keys", "odict_keys", "USet", "USetNe"}
MapLikeCls == {"dict", "defaultdict", "OrderedDict", "UMap", "UMMap", "UMapNe", "ChainMap", "mappingproxy", "DMap"}

D1Seq   == { Cont(c, s) : c \in SeqLikeCls, s \in SeqsUpTo(ItemAtoms, LL) }
D1Set   == { Cont(c, s) : c \in SetLikeCls, s \in { t \in SeqsUpTo(ItemAtoms, LL) : Distinct(t) } }
D1Range == { Cont("range", [i \in 1..n |-> Atom("int", i - 1)]) : n \in 0..LL }
D1Iter  == { Iter(c, s) : c \in IterCls, s \in {<<>>, <<i1>>} }
MapVals == IF Tier = "nv" THEN {i1, sa, eA} ELSE ItemAtoms \ {f1}
D1Map   == { Map(c, s) : c \in MapLikeCls, s \in { t \in SeqsUpTo(Pairs(KeyAtoms, MapVals), 2) : KeyDistinct(t) } }
           \cup { Map("Counter", s) : s \in { t \in SeqsUpTo(Pairs(KeyAtoms, {i1, i2, sa}), 2) : KeyDistinct(t) } }
Tup2(S, T) == { Cont("tuple", <<a, b>>) : a \in S, b \in T }
D1Items == { Cont(c, s) : c \in {"dict_items", "odict_items"},
               s \in { t \in SeqsUpTo(Tup2(SmallAtoms, {i1, sa, none, eA}), 2) :
                        \A i, j \in DOMAIN t : i # j => ~PyEq(t[i].items[1], t[j].items[1]) } }

\* depth 2: containers of small containers, of X-class objects and of back-references
Inner == { Cont(c, s) : c \in {"list", "tuple"}, s \in SeqsUpTo(SmallAtoms, 2) }
         \cup { Cont("set", <<>>), Cont("set", <<i1>>), Cont("frozenset", <<sa>>) }
         \cup { Map("dict", <<>>), Map("dict", <<KV(sa, i1)>>), Map("OrderedDict", <<KV(sa, i1)>>) }
         \cup { Cont("range", <<>>), Cont("range", <<i0, i1>>) }
         \cup { Cont("dict_items", <<Cont("tuple", <<sa, i1>>)>>), Cont("odict_keys", <<sa>>), Cont("odict_keys", <<>>),
                Cont("dict_keys", <<sa>>), Cont("USeq", <<i1>>), Cont("USetNe", <<i1>>), Cont("USet", <<i1>>),
                Cont("DSeq", <<i1>>), Map("DMap", <<KV(sa, i1)>>), Map("UMap", <<KV(sa, i1)>>) }
InnerBack == { Cont("list", <<Back(2)>>), Cont("tuple", <<Back(2)>>), Map("dict", <<KV(sa, Back(2))>>),
               Cont("list", <<i1, Back(1)>>), Cont("list", <<Back(1)>>), Cont("USeq", <<Back(2)>>),
               Cont("list", <<Back(2), i1>>) }
InnerHashable == { x \in Inner : x.cls \in {"tuple", "range", "frozenset"} } \cup {eA, fn}
Items2 == IF Tier = "nv"
          THEN { Cont("list", <<i1>>), Cont("dict_items", <<Cont("tuple", <<sa, i1>>)>>), Cont("odict_keys", <<sa>>),
                 Cont("DSeq", <<i1>>), eA, Back(1), Cont("list", <<Back(2)>>), i1 }
          ELSE Inner \cup InnerBack \cup {i1, sa, none, eA, fn, Back(1)}
D2Seq == { x \in { Cont(c, s) : c \in {"list", "tuple", "USeq", "deque", "UMSeq"}, s \in SeqsUpTo(Items2, 2) } :
             WellFormed(x, <<>>) /\ ODepth(x) >= 1 }
D2Set == { Cont(c, s) : c \in {"set", "USet"}, s \in { t \in SeqsUpTo(InnerHashable \cup {i1}, 2) : Distinct(t) } }
D2Map == { x \in { Map(c, s) : c \in {"dict", "UMap", "OrderedDict", "DMap", "UMapNe"},
                               s \in { t \in SeqsUpTo(Pairs({sa, i1}, Items2), IF Tier = "thorough" THEN 2 ELSE 1) :
                                        KeyDistinct(t) } } : WellFormed(x, <<>>) }
         \cup { Map("dict", <<KV(k, v)>>) : k \in InnerHashable, v \in {i1, sa} }
\* depth 3 (restricted): nested back-references across several levels, X-class objects two levels down
Mid3 == { Cont("list", <<Cont("list", <<Back(3)>>)>>), Cont("tuple", <<Cont("list", <<Back(3), i1>>)>>),
          Map("dict", <<KV(sa, Cont("list", <<Back(3)>>))>>), Cont("list", <<Cont("list", <<Back(2)>>), sa>>),
          Cont("list", <<Cont("tuple", <<i1, sa>>)>>), Cont("list", <<Cont("dict_items", <<Cont("tuple", <<sa, i1>>)>>)>>),
          Map("dict", <<KV(sa, Cont("list", <<i1, sa>>))>>), Cont("tuple", <<Cont("list", <<>>), eA>>),
          Cont("list", <<Cont("odict_keys", <<sa>>)>>), Cont("list", <<Map("dict", <<KV(i1, Back(3))>>)>>),
          Cont("list", <<i1>>), i1, Back(1) }
D3 == IF Tier = "nv" THEN {}
      ELSE { x \in { Cont(c, s) : c \in {"list", "tuple", "deque"}, s \in SeqsUpTo(Mid3, 2) } : WellFormed(x, <<>>) }
           \cup { x \in { Map("dict", <<KV(sa, v)>>) : v \in Mid3 } : WellFormed(x, <<>>) }

Objs == AllAtoms \cup TypeObjs \cup D1Seq \cup D1Set \cup D1Range \cup D1Iter \cup D1Map \cup D1Items
        \cup D2Seq \cup D2Set \cup D2Map \cup D3
OSeq == TLCEval(SetToSeq(Objs))
NObj == TLCEval(Len(OSeq))

Lcm == CASE LL = 1 -> 1 [] LL = 2 -> 2 [] LL = 3 -> 6
Draws == 0 .. (Lcm - 1)

(* ------------------------------------------------- method-set space (Mode = "fsm") *)
G1 == { {"__contains__"}, {"__iter__"}, {"__len__"}, {"__buffer__"}, SeqG, MSeqG, MapG, MMapG, SetG, MSetG,
        {"__next__"}, GenG, {"__reversed__"}, SeqG \ {"count"}, MapG \ {"__ne__"}, SetG \ {"__ne__"} }
G2 == { {"__await__"}, GenG, {"__aiter__"}, {"__anext__"}, AGenG, {"__len__"}, {"__iter__"} }
G1q == G1 \ { {"__buffer__"}, SeqG \ {"count"}, SetG \ {"__ne__"} }
MSpace == { UNION S : S \in SUBSET (IF Tier = "thorough" THEN G1 ELSE G1q) } \cup { UNION S : S \in SUBSET G2 }
          \cup { InstMethods(c) : c \in AbcPathCls } \cup { InstMethods(c) \cup MetaMethods(c) : c \in AbcPathCls }
MSeq == TLCEval(SetToSeq(MSpace))
NM == TLCEval(Len(MSeq))

(* ----------------------------------------------------------- state machine *)
CH == 40
VARIABLES ph, oid, node, mset, steps
vars == <<ph, oid, node, mset, steps>>
Init == ph = (IF Mode = "fsm" THEN 8 ELSE 0) /\ oid = 0 /\ node = "start" /\ mset = {} /\ steps = 0
\* Mode = "fsm": pick a method set (through chunk states, as for objects)
PickMChunk == /\ ph = 8 /\ ph' = 9
              /\ oid' \in { 1 + k * CH : k \in 0 .. ((NM - 1) \div CH) }
              /\ UNCHANGED <<node, mset, steps>>
PickM      == /\ ph = 9 /\ ph' = 10
              /\ \E j \in { i \in oid .. (oid + CH - 1) : i <= NM } : oid' = j /\ mset' = MSeq[j]
              /\ UNCHANGED <<node, steps>>
PickChunk == /\ ph = 0 /\ ph' = 1
             /\ oid' \in { 1 + k * CH : k \in 0 .. ((NObj - 1) \div CH) }
             /\ UNCHANGED <<node, mset, steps>>
PickObj   == /\ ph = 1 /\ ph' = 2
             /\ oid' \in { j \in oid .. (oid + CH - 1) : j <= NObj }
             /\ UNCHANGED <<node, mset, steps>>
\* one iteration of the while loop of _infer_hint_factory_collections_abc
FsmStep   == /\ ph = 10 /\ ~FsmHalts(node, mset)
             /\ node' \in FsmCand(node, mset)
             /\ steps' = steps + 1
             /\ UNCHANGED <<ph, oid, mset>>
Next == PickChunk \/ PickObj \/ PickMChunk \/ PickM \/ FsmStep
Spec == Init /\ [][Next]_vars
Active == ph = 2
X == OSeq[oid]

\* error traces show the object and its inferred hints (cfg: ALIAS ShowState)
ShowState == [ph |-> ph, oid |-> oid, node |-> node, mset |-> mset, steps |-> steps,
              x  |-> IF ph = 2 THEN X ELSE none,
              on |-> IF ph = 2 THEN Infer(X, "On", 0) ELSE HAny,
              o1 |-> IF ph = 2 THEN [r \in 0 .. (Lcm - 1) |-> Infer(X, "O1", r)] ELSE <<>>]

(* -------------------------------------------------------- automaton invariants *)
Fsm_Deterministic == ph = 10 => Cardinality(FsmCand(node, mset)) <= 1 /\ Cardinality(FsmExact(node, mset)) <= 1
Fsm_Total         == ph = 10 => steps <= 4 /\ (FsmHalts(node, mset) \/ FsmCand(node, mset) # {})
Fsm_Sound         == ph = 10 => FsmReq(node) \subseteq mset
Fsm_Maximal       == (ph = 10 /\ FsmHalts(node, mset)) =>
                        \A i \in DOMAIN Edges(node) : ~(Edges(node)[i].req \subseteq mset)
Fsm_Functional    == ph = 10 => /\ FsmPath("start", mset)[steps + 1] = node
                                /\ (FsmHalts(node, mset) => node = FsmRun(mset))
\* the dictionary order of the out-edges decides only at these nodes
Fsm_ForkNodes     == (ph = 10 /\ Cardinality(FsmSubset(node, mset)) > 1) => node \in {"start", "Collection", "Iterable"}
\* no transition label of a node contains another one (so the exact lookup and the subset scan cannot disagree)
Fsm_NoNestedLabels == ph = 10 => \A i, j \in DOMAIN Edges(node) : i # j => ~(Edges(node)[i].req \subseteq Edges(node)[j].req)

(* ----------------------------------------------------------- object invariants *)
InfOn(x)     == Infer(x, "On", 0)
InfO1(x, r)  == Infer(x, "O1", r)
RoundTripOn(x) == LET h == InfOn(x) IN \A r \in Draws : ChkX(h, x, <<>>, r)
RoundTripO1(x) == \A r \in Draws : ChkX(InfO1(x, r), x, <<>>, r)      \* same draw for inference and check
NoExc(x)     == InfOn(x).k # "exc" /\ \A r \in Draws : InfO1(x, r).k # "exc"

Inv_RoundTripOn == Active => RoundTripOn(X)
\* O1 inference describes ONE sampled item per level (documented trade-off): it is only required to agree with
\* the full inference where the object is homogeneous at every level (no union in the On hint)
Inv_O1Homogeneous == (Active /\ ~HasNode(InfOn(X), "union")) => \A r \in Draws : InfO1(X, r) = InfOn(X)
Inv_SatOn       == Active => SatX(InfOn(X), X, <<>>)
Inv_NoException == Active => NoExc(X)
Inv_Terminates  == Active => LET hs == {InfOn(X)} \cup { InfO1(X, r) : r \in Draws } IN
                             \A h \in hs : ~HasNode(h, "diverge") /\ HDepth(h) <= ODepth(X)
Inv_MarkerIffBack == Active => /\ (HasMarker(InfOn(X)) <=> (HasBack(X) /\ InfOn(X).k # "exc"))
                               /\ \A r \in Draws : HasMarker(InfO1(X, r)) => HasBack(X)

\* SatX / ChkX are conservative extensions of Semantics' Sat / Chk
RECURSIVE IsBase(_)
IsBase(x) == x.k # "back" /\ x.cls \notin XCls /\ \A i \in DOMAIN SubObjs(x) : IsBase(SubObjs(x)[i])
BaseSample == { y \in AllAtoms \cup TypeObjs : IsBase(y) }
              \cup { Cont(c, s) : c \in {"list", "tuple", "set", "USeq", "UColl", "dict_keys", "dict_values", "deque"},
                                  s \in {<<>>, <<i1>>, <<sa, i1>>} }
              \cup { Map(c, s) : c \in {"dict", "OrderedDict", "UMap", "Counter"}, s \in {<<>>, <<KV(sa, i1)>>, <<KV(i1, sa)>>} }
              \cup { Cont("dict_items", <<Cont("tuple", <<sa, i1>>)>>), Iter("gen", <<>>), Iter("UIter", <<i1>>),
                     Cont("list", <<Cont("list", <<sa>>), Cont("list", <<i1>>)>>) }
Lemma_Conservative ==
  (Active /\ IsBase(X)) =>
     \A h \in {InfOn(X)} \cup { InfO1(X, r) : r \in Draws } :
        (h.k # "exc" /\ ~HasMarker(h)) =>
           \A y \in BaseSample \cup {X} :
              /\ SatX(h, y, <<>>) = Sat(h, y)
              /\ \A r \in Draws : ChkX(h, y, <<>>, r) = Chk(h, y, r, Conf0)

(* --------------------------------------- root causes of the faithful design *)
RECURSIVE HasClsIn(_, _, _)
HasClsIn(x, cs, nonempty) == (x.k # "back" /\ x.cls \in cs /\ (~nonempty \/ Len(x.items) > 0))
                             \/ \E i \in DOMAIN SubObjs(x) : HasClsIn(SubObjs(x)[i], cs, nonempty)
RECURSIVE HasCounterNonInt(_)
HasCounterNonInt(x) == (x.k = "map" /\ x.cls = "Counter" /\ \E i \in DOMAIN x.items : x.items[i].val.cls \notin {"int", "bool"})
                       \/ \E i \in DOMAIN SubObjs(x) : HasCounterNonInt(SubObjs(x)[i])
CauseSet(x) ==
     (IF HasClsIn(x, {"dict_items", "odict_items", "USetNe"}, FALSE) THEN {"set_node"} ELSE {})
\cup (IF HasClsIn(x, {"odict_keys", "odict_values"}, TRUE) THEN {"unsubscriptable"} ELSE {})
\cup (IF HasClsIn(x, {"E"}, FALSE) THEN {"meta_dunder"} ELSE {})
\cup (IF HasBack(x) THEN {"marker"} ELSE {})
\cup (IF HasClsIn(x, {"DSeq", "DMap"}, FALSE) THEN {"duck"} ELSE {})
\cup (IF HasCounterNonInt(x) THEN {"counter_val"} ELSE {})
\* faithful design: every predicted failure falls into one of the five classes ...
F_Clean == (Active /\ CauseSet(X) = {}) => RoundTripOn(X) /\ NoExc(X) /\ SatX(InfOn(X), X, <<>>)
\* ... and each class is exhibited (expected VIOLATED in the faithful design: non-vacuity)
NV(c) == (Active /\ CauseSet(X) = {c}) => RoundTripOn(X) /\ NoExc(X)
NV_set_node        == NV("set_node")
NV_unsubscriptable == NV("unsubscriptable")
NV_meta_dunder     == NV("meta_dunder")
NV_marker          == NV("marker")
NV_duck            == NV("duck")
NV_counter_val     == NV("counter_val")
\* the draw-dependence of F10: some self-referential container is accepted under one residue, rejected under another
NV_draw_dependent  == (Active /\ HasBack(X)) =>
                         LET h == InfOn(X) IN (\A r \in Draws : ChkX(h, X, <<>>, r)) \/ (\A r \in Draws : ~ChkX(h, X, <<>>, r))

T_X == Active => X.k # "zzz"
T_X5 == Active => \A i \in 1..50 : X.k # "zzz"
T_Inst == Active => \A i \in 1..50 : InstX(X, "Sequence") \/ TRUE
T_Fsm == Active => \A i \in 1..50 : FsmRun(MethodsOf("UMSeq")) = "MutableSequence"
(* -------------------------------------------------------------- rows (R2) *)
Bit(b, w) == IF b THEN w ELSE 0
RECURSIVE MaskOn(_, _, _), MaskO1(_, _)
MaskOn(h, x, r) == IF r >= Lcm THEN 0 ELSE Bit(ChkX(h, x, <<>>, r), 2 ^ r) + MaskOn(h, x, r + 1)
MaskO1(x, r)    == IF r >= Lcm THEN 0 ELSE Bit(ChkX(InfO1(x, r), x, <<>>, r), 2 ^ r) + MaskO1(x, r + 1)
Row(j) == LET x == OSeq[j]  on == InfOn(x) IN
   [j |-> j, x |-> x, on |-> on, o1 |-> [r \in 1..Lcm |-> InfO1(x, r - 1)],
    rtOn |-> MaskOn(on, x, 0), rtO1 |-> MaskO1(x, 0), satOn |-> SatX(on, x, <<>>),
    back |-> HasBack(x), causes |-> CauseSet(x), depth |-> ODepth(x)]
EmitRows == (ph = 1 /\ Emit) =>
              LET n == IF oid + CH - 1 <= NObj THEN CH ELSE NObj - oid + 1 IN
              JsonSerialize(IOEnv.ROW_DIR \o "/chunk_" \o ToString(oid) \o ".json",
                            [t |-> "chunk", first |-> oid, rows |-> [i \in 1..n |-> Row(oid + i - 1)]])
AllCls == AtomCls \cup SeqCls \cup CollCls \cup MapCls \cup IterCls \cup ViewCls \cup XCls
EmitMeta == (ph = 0 /\ Emit) =>
              JsonSerialize(IOEnv.ROW_DIR \o "/meta.json",
                 [t |-> "meta", lcm |-> Lcm, nobj |-> NObj, design |-> Design,
                  methods |-> [c \in AbcPathCls |-> [inst |-> InstMethods(c), meta |-> MetaMethods(c)]],
                  abcs |-> [c \in AllCls |-> AbcsX(c)],
                  parents |-> [c \in AllCls |-> ParentX(c)],
                  fsm |-> [n \in FsmNodes |-> [fac |-> Factory(n), edges |-> Edges(n)]],
                  builtin |-> [c \in AllCls |-> BuiltinFactory(c)]])
=============================================================================
