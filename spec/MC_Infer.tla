------------------------------ MODULE MC_Infer ------------------------------
(* C20: enumeration for Infer.tla.                                                      *)
(*                                                                                      *)
(* Mode = "objs": state = one object of the bounded universe (reached through chunk     *)
(*   states so that TLC's workers share the enumeration).  Invariants: the inferred     *)
(*   hint accepts its object under every draw residue (generated check ChkX) and at     *)
(*   full depth (SatX); no exception; inference terminates with a hint no deeper than   *)
(*   the object; the recursion placeholder appears exactly for self-referential         *)
(*   containers; SatX / ChkX coincide with Semantics' Sat / Chk on Semantics' universe. *)
(*   Rows (object, Infer under On and under O1 per residue, predicted round-trip        *)
(*   verdict per residue) are emitted, one file per object, for the replay into the     *)
(*   real code.  Everything the spec says about an object is computed ONCE, in the      *)
(*   transition that picks it (variable fx); the invariants only read fx.               *)
(* Mode = "fsm": state = (method set, automaton node); the automaton of                 *)
(*   infercollectionsabc.py runs as TLA+ transitions over all unions of its transition  *)
(*   labels; invariants: deterministic (both lookup paths of the code agree), total,    *)
(*   sound, maximal, equal to the functional form used by Inf.                          *)
EXTENDS Infer, FiniteSetsExt, Json, IOUtils

CONSTANTS Tier,     \* "nv" (tiny: non-vacuity runs, automaton) | "fsm_full" (tiny + larger method-set space) | "quick" | "thorough"
          L,        \* maximal container length
          Emit,     \* TRUE: emit rows
          Mode      \* "objs" | "fsm"

SeqsUpTo(S, n) == UNION { [1..k -> S] : k \in 0..n }
Distinct(s) == \A i, j \in DOMAIN s : i # j => ~PyEq(s[i], s[j])
Pairs(K, Vs) == { KV(a, b) : a \in K, b \in Vs }
KeyDistinct(s) == \A i, j \in DOMAIN s : i # j => ~PyEq(s[i].key, s[j].key)

(* ------------------------------------------------------------------ objects *)
eA == Atom("E", 301)          \* a member of an enum.Enum subclass
eB == Atom("E2", 302)         \* a member of an Enum whose metaclass derives from EnumMeta
mc1 == Atom("MC1", 0)         \* instance of a class whose metaclass defines (and advertises) __len__ / __iter__ / __contains__
mc2 == Atom("MC2", 0)         \* instance of a class whose metaclass inherits them from a parent metaclass
fn == Atom("func", 401)       \* a plain function
oo == Atom("object", 501)     \* object()
ProtoAtoms == {Atom("USized", 0), Atom("UCont", 0), Atom("URev", 0), Atom("UItor", 0)}
TypeObjs == {TypeObj("int"), TypeObj("A"), TypeObj("E"), TypeObj("E2"), TypeObj("MC2"), TypeObj("list"), TypeObj("USet")}
AllAtoms == {i0, i1, bF, bT, f1, cj, sa, none, oa, ob, eA, eB, mc1, mc2, fn, oo} \cup ProtoAtoms

Tiny == Tier \in {"nv", "fsm_full"}
ItemAtoms == CASE Tiny           -> {i1, sa, eA, mc2}
               [] Tier = "quick" -> {i1, sa, bT, none, ob, eA, fn, oo, TypeObj("int")}
               [] OTHER          -> {i1, sa, bT, none, ob, eA, fn, oo, TypeObj("int"), f1}
KeyAtoms  == {i1, sa, none}
SmallAtoms == {i1, sa}
LL == IF Tiny THEN 2 ELSE L

SeqLikeCls == {"list", "tuple", "deque", "USeq", "UColl", "dict_values", "odict_values", "UMSeq", "MyList", "DSeq"}
SetLikeCls == {"set", "frozenset", "dict_keys", "odict_keys", "USet", "USetNe"}
MapLikeCls == {"dict", "defaultdict", "OrderedDict", "UMap", "UMMap", "UMapNe", "ChainMap", "mappingproxy", "DMap"}

D1Seq   == { Cont(c, s) : c \in SeqLikeCls, s \in SeqsUpTo(ItemAtoms, LL) }
D1Set   == { Cont(c, s) : c \in SetLikeCls, s \in { t \in SeqsUpTo(ItemAtoms, LL) : Distinct(t) } }
D1Range == { Cont("range", [i \in 1..n |-> Atom("int", i - 1)]) : n \in 0..LL }
D1Iter  == { Iter(c, s) : c \in IterCls, s \in {<<>>, <<i1>>} }
MapVals == CASE Tiny -> {i1, sa, eA} [] Tier = "quick" -> {i1, sa, none, ob, eA, fn} [] OTHER -> ItemAtoms \ {f1}
\* Counter values: ints, bools (still "integer-valued"), other scalars, CONTAINERS (a subscripted child hint that is not
\* a union of ints) and mixtures of them
CounterVals == IF Tiny THEN {i1, sa, Cont("list", <<i1, i2>>)}
               ELSE {i1, i2, bT, sa, f1, Cont("list", <<i1, i2>>), Cont("tuple", <<i1>>)}
D1Map   == { Map(c, s) : c \in MapLikeCls, s \in { t \in SeqsUpTo(Pairs(KeyAtoms, MapVals), 2) : KeyDistinct(t) } }
           \cup { Map("Counter", s) : s \in { t \in SeqsUpTo(Pairs(KeyAtoms, CounterVals), 2) : KeyDistinct(t) } }
Tup2(S, T) == { Cont("tuple", <<a, b>>) : a \in S, b \in T }
D1Items == { Cont(c, s) : c \in {"dict_items", "odict_items"},
               s \in { t \in SeqsUpTo(Tup2(SmallAtoms, {i1, sa, none, eA, f1}), 2) :
                        \A i, j \in DOMAIN t : i # j => ~PyEq(t[i].items[1], t[j].items[1]) } }

\* items that are == but of different types (1 == True == 1.0, 0 == False == 0.0) in every container kind whose items
\* are inferred one by one under strategy On (an inference that deduplicates ITEMS instead of HINTS loses a type)
f0 == Atom("float", 0)        \* 0.0
EqAtoms == IF Tiny THEN {i1, bT, f1} ELSE {i1, bT, f1, i0, bF, f0, sa}
EqCls == {"list", "deque", "USeq", "UColl", "UMSeq", "dict_values"}
DEq == { Cont(c, s) : c \in EqCls, s \in SeqsUpTo(EqAtoms, LL) }
       \cup { Cont(c, <<Cont("tuple", s)>>) : c \in {"list", "tuple"}, s \in SeqsUpTo(EqAtoms, 2) }   \* nested (variadic) tuples
       \cup { Cont(c, <<Cont("tuple", <<a, b>>)>>) : c \in {"dict_items"}, a \in EqAtoms, b \in EqAtoms }
       \cup { Map("dict", <<KV(sa, Cont("list", s))>>) : s \in SeqsUpTo(EqAtoms, 2) }
       \cup { Cont("tuple", s) : s \in SeqsUpTo(EqAtoms, 2) }                                       \* root tuples (fixed)

\* objects whose CLASS OBJECT answers len() / iter() / in through its metaclass chain (leaf metaclass or a parent
\* metaclass), at the root (AllAtoms) and as items / mapping keys and values / nested items of every container kind
MetaAtoms == {eA, eB, mc1, mc2}
DMeta == { Cont(c, s) : c \in {"list", "tuple", "deque", "set", "frozenset", "USeq", "UColl", "dict_values", "dict_keys"},
                        s \in { t \in SeqsUpTo(MetaAtoms \cup {i1}, 2) : Distinct(t) /\ Len(t) > 0 } }
         \cup { Map(c, <<KV(k, v)>>) : c \in {"dict", "OrderedDict", "UMap", "UMapNe", "Counter", "ChainMap"},
                                       k \in {sa, eB, mc2}, v \in MetaAtoms }
         \cup { Map("dict", <<KV(sa, a), KV(i1, b)>>) : a \in {eB, mc2, i1}, b \in {eB, mc2} }
         \cup { Cont("dict_items", <<Cont("tuple", <<sa, v>>)>>) : v \in MetaAtoms }
         \cup { Cont("list", <<Cont(c, <<v>>)>>) : c \in {"list", "tuple", "USeq"}, v \in {eB, mc2} }
         \cup { Map("dict", <<KV(sa, Cont("list", <<v, i1>>))>>) : v \in {eB, mc2} }

\* depth 2: containers of small containers, of X-class objects and of back-references
Inner == { Cont(c, s) : c \in {"list", "tuple"}, s \in SeqsUpTo(SmallAtoms, 2) }
         \cup { Cont("set", <<>>), Cont("set", <<i1>>), Cont("frozenset", <<sa>>) }
         \cup { Map("dict", <<>>), Map("dict", <<KV(sa, i1)>>), Map("OrderedDict", <<KV(sa, i1)>>) }
         \cup { Cont("range", <<>>), Cont("range", <<i0, i1>>) }
         \cup { Cont("dict_items", <<Cont("tuple", <<sa, i1>>)>>), Cont("odict_keys", <<sa>>), Cont("odict_keys", <<>>),
                Cont("dict_keys", <<sa>>), Cont("USeq", <<i1>>), Cont("USetNe", <<i1>>), Cont("USet", <<i1>>),
                Cont("DSeq", <<i1>>), Map("DMap", <<KV(sa, i1)>>), Map("UMap", <<KV(sa, i1)>>) }
InnerBack == { Cont("list", <<Back(2)>>), Cont("tuple", <<Back(2)>>), Map("dict", <<KV(sa, Back(2))>>),
               Cont("list", <<i1, Back(1)>>), Cont("list", <<Back(1)>>), Cont("USeq", <<Back(2)>>),
               Cont("list", <<Back(2), i1>>) }
InnerHashable == { x \in Inner : x.cls \in {"tuple", "range", "frozenset"} } \cup {eA, fn}
Items2 == IF Tiny
          THEN { Cont("list", <<i1>>), Cont("dict_items", <<Cont("tuple", <<sa, i1>>)>>), Cont("odict_keys", <<sa>>),
                 Cont("DSeq", <<i1>>), eA, Back(1), Cont("list", <<Back(2)>>), i1 }
          ELSE Inner \cup InnerBack \cup {i1, sa, none, eA, fn, Back(1)}
D2SeqCls == IF Tier = "quick" THEN {"list", "tuple", "USeq"} ELSE {"list", "tuple", "USeq", "deque", "UMSeq"}
D2Seq == { x \in { Cont(c, s) : c \in D2SeqCls, s \in SeqsUpTo(Items2, 2) } :
             WellFormed(x, <<>>) /\ ODepth(x) >= 1 }
D2Set == { Cont(c, s) : c \in {"set", "USet"}, s \in { t \in SeqsUpTo(InnerHashable \cup {i1}, 2) : Distinct(t) } }
D2MapSeqs(n) == { t \in SeqsUpTo(Pairs({sa, i1}, Items2), n) : KeyDistinct(t) }
D2Map == { x \in { Map(c, s) : c \in {"UMap", "DMap", "UMapNe"}, s \in D2MapSeqs(1) }
                  \cup { Map(c, s) : c \in {"dict", "OrderedDict"}, s \in D2MapSeqs(IF Tier = "thorough" THEN 2 ELSE 1) } :
             WellFormed(x, <<>>) }
         \cup { Map("dict", <<KV(k, v)>>) : k \in InnerHashable, v \in {i1, sa} }
\* depth 3 (restricted): nested back-references across several levels, X-class objects two levels down
Mid3 == { Cont("list", <<Cont("list", <<Back(3)>>)>>), Cont("tuple", <<Cont("list", <<Back(3), i1>>)>>),
          Map("dict", <<KV(sa, Cont("list", <<Back(3)>>))>>), Cont("list", <<Cont("list", <<Back(2)>>), sa>>),
          Cont("list", <<Cont("tuple", <<i1, sa>>)>>), Cont("list", <<Cont("dict_items", <<Cont("tuple", <<sa, i1>>)>>)>>),
          Map("dict", <<KV(sa, Cont("list", <<i1, sa>>))>>), Cont("tuple", <<Cont("list", <<>>), eA>>),
          Cont("list", <<Cont("odict_keys", <<sa>>)>>), Cont("list", <<Map("dict", <<KV(i1, Back(3))>>)>>),
          Cont("list", <<i1>>), i1, Back(1) }
D3 == IF Tiny THEN {}
      ELSE { x \in { Cont(c, s) : c \in {"list", "tuple", "deque"}, s \in SeqsUpTo(Mid3, 2) } : WellFormed(x, <<>>) }
           \cup { x \in { Map("dict", <<KV(sa, v)>>) : v \in Mid3 } : WellFormed(x, <<>>) }

Objs == AllAtoms \cup TypeObjs \cup D1Seq \cup D1Set \cup D1Range \cup D1Iter \cup D1Map \cup D1Items
        \cup D2Seq \cup D2Set \cup D2Map \cup D3 \cup DEq \cup DMeta
OSeq == TLCEval(SetToSeq(Objs))
NObj == TLCEval(Len(OSeq))

Lcm == CASE LL = 1 -> 1 [] LL = 2 -> 2 [] LL = 3 -> 6
Draws == 0 .. (Lcm - 1)

(* ------------------------------------------------- method-set space (Mode = "fsm") *)
G1 == { {"__contains__"}, {"__iter__"}, {"__len__"}, {"__buffer__"}, SeqG, MSeqG, MapG, MMapG, SetG, MSetG,
        {"__next__"}, GenG, {"__reversed__"}, SeqG \ {"count"}, MapG \ {"__ne__"}, SetG \ {"__ne__"} }
G2 == { {"__await__"}, GenG, {"__aiter__"}, {"__anext__"}, AGenG, {"__len__"}, {"__iter__"} }
G1q == G1 \ { {"__buffer__"}, SeqG \ {"count"}, SetG \ {"__ne__"} }
MSpace == { UNION S : S \in SUBSET (IF Tier = "fsm_full" THEN G1 ELSE G1q) } \cup { UNION S : S \in SUBSET G2 }
          \cup { InstMethods(c) : c \in AbcPathCls } \cup { InstMethods(c) \cup MetaMethods(c) : c \in AbcPathCls }
MSeq == TLCEval(SetToSeq(MSpace))
NM == TLCEval(Len(MSeq))

(* --------------------------------------------- everything the spec computes per object *)
InfOn(x)     == Infer(x, "On", 0)
InfO1(x, r)  == Infer(x, "O1", r)
Bit(b, w) == IF b THEN w ELSE 0
FullMask == (2 ^ Lcm) - 1
RECURSIVE MaskOf(_, _, _)
\* bit r set iff the generated check of hs[r + 1] accepts x under draw residue r
MaskOf(hs, x, r) == IF r >= Lcm THEN 0 ELSE Bit(ChkX(hs[r + 1], x, <<>>, r), 2 ^ r) + MaskOf(hs, x, r + 1)

\* SatX / ChkX are conservative extensions of Semantics' Sat / Chk
RECURSIVE IsBase(_)
IsBase(x) == x.k # "back" /\ x.cls \notin XCls /\ \A i \in DOMAIN SubObjs(x) : IsBase(SubObjs(x)[i])
BaseSample == TLCEval(
              { y \in AllAtoms \cup TypeObjs : IsBase(y) }
              \cup { Cont(c, s) : c \in {"list", "tuple", "set", "USeq", "UColl", "dict_keys", "dict_values", "deque"},
                                  s \in {<<>>, <<i1>>, <<sa, i1>>} }
              \cup { Map(c, s) : c \in {"dict", "OrderedDict", "UMap", "Counter"}, s \in {<<>>, <<KV(sa, i1)>>, <<KV(i1, sa)>>} }
              \cup { Cont("dict_items", <<Cont("tuple", <<sa, i1>>)>>), Iter("gen", <<>>), Iter("UIter", <<i1>>),
                     Cont("list", <<Cont("list", <<sa>>), Cont("list", <<i1>>)>>) })
Conservative(x, hs) ==
  IsBase(x) =>
     \A h \in hs :
        (h.k # "exc" /\ ~HasMarker(h)) =>
           \A y \in BaseSample \cup {x} :
              /\ SatX(h, y, <<>>) = Sat(h, y)
              /\ \A r \in Draws : ChkX(h, y, <<>>, r) = Chk(h, y, r, Conf0)

(* --------------------------------------- root causes of the faithful design *)
RECURSIVE HasClsIn(_, _, _), HasCounterNonInt(_)
HasClsIn(x, cs, nonempty) == (x.k # "back" /\ x.cls \in cs /\ (~nonempty \/ Len(x.items) > 0))
                             \/ \E i \in DOMAIN SubObjs(x) : HasClsIn(SubObjs(x)[i], cs, nonempty)
HasCounterNonInt(x) == (x.k = "map" /\ x.cls = "Counter" /\ \E i \in DOMAIN x.items : x.items[i].val.cls \notin {"int", "bool"})
                       \/ \E i \in DOMAIN SubObjs(x) : HasCounterNonInt(SubObjs(x)[i])
CauseSet(x) ==
     (IF HasClsIn(x, {"dict_items", "odict_items", "USetNe"}, FALSE) THEN {"set_node"} ELSE {})
\cup (IF HasClsIn(x, {"odict_keys", "odict_values"}, TRUE) THEN {"unsubscriptable"} ELSE {})
\cup (IF HasClsIn(x, {"E", "E2", "MC1", "MC2"}, FALSE) THEN {"meta_dunder"} ELSE {})
\cup (IF HasBack(x) THEN {"marker"} ELSE {})
\cup (IF HasClsIn(x, {"DSeq", "DMap"}, FALSE) THEN {"duck"} ELSE {})
\cup (IF HasCounterNonInt(x) THEN {"counter_val"} ELSE {})

Facts(j) ==
  LET x   == OSeq[j]
      on  == InfOn(x)
      o1  == [r \in 1..Lcm |-> InfO1(x, r - 1)]
      hs  == {on} \cup { o1[r] : r \in 1..Lcm }
  IN [j |-> j, x |-> x, on |-> on, o1 |-> o1,
      rtOn  |-> MaskOf([r \in 1..Lcm |-> on], x, 0),      \* On hint checked under every residue
      rtO1  |-> MaskOf(o1, x, 0),                         \* O1 hint of residue r checked under the same residue
      satOn |-> SatX(on, x, <<>>),
      exc   |-> \E h \in hs : h.k = "exc",
      term  |-> \A h \in hs : ~HasNode(h, "diverge") /\ HDepth(h) <= ODepth(x),
      back  |-> HasBack(x), vback |-> VisBack(x),
      markOn |-> HasMarker(on),
      markO1 |-> \E r \in 1..Lcm : HasMarker(o1[r]),
      hom   |-> on.k = "exc" \/ HasNode(on, "union") \/ \A r \in 1..Lcm : o1[r] = on,
      cons  |-> Conservative(x, hs),
      causes |-> CauseSet(x) \cap Legacy,          \* only root causes that are switched on explain a failure
      depth |-> ODepth(x)]

(* ----------------------------------------------------------- state machine *)
CH == 40
VARIABLES ph, oid, node, mset, steps, fx
vars == <<ph, oid, node, mset, steps, fx>>
Init == ph = (IF Mode = "fsm" THEN 8 ELSE 0) /\ oid = 0 /\ node = "start" /\ mset = {} /\ steps = 0 /\ fx = <<>>
PickChunk == /\ ph = 0 /\ ph' = 1
             /\ oid' \in { 1 + k * CH : k \in 0 .. ((NObj - 1) \div CH) }
             /\ UNCHANGED <<node, mset, steps, fx>>
\* the object and everything the spec says about it, computed once (by the worker that generates the state)
PickObj   == /\ ph = 1 /\ ph' = 2
             /\ \E j \in { i \in oid .. (oid + CH - 1) : i <= NObj } : oid' = j /\ fx' = Facts(j)
             /\ UNCHANGED <<node, mset, steps>>
\* Mode = "fsm": pick a method set (through chunk states, as for objects)
PickMChunk == /\ ph = 8 /\ ph' = 9
              /\ oid' \in { 1 + k * CH : k \in 0 .. ((NM - 1) \div CH) }
              /\ UNCHANGED <<node, mset, steps, fx>>
PickM      == /\ ph = 9 /\ ph' = 10
              /\ \E j \in { i \in oid .. (oid + CH - 1) : i <= NM } : oid' = j /\ mset' = MSeq[j]
              /\ UNCHANGED <<node, steps, fx>>
\* one iteration of the while loop of _infer_hint_factory_collections_abc
FsmStep   == /\ ph = 10 /\ ~FsmHalts(node, mset)
             /\ node' \in FsmCand(node, mset)
             /\ steps' = steps + 1
             /\ UNCHANGED <<ph, oid, mset, fx>>
Next == PickChunk \/ PickObj \/ PickMChunk \/ PickM \/ FsmStep
Spec == Init /\ [][Next]_vars
Active == ph = 2
\* error traces show only what matters (cfg: ALIAS ShowState)
ShowState == [ph |-> ph, oid |-> oid, node |-> node, mset |-> mset, steps |-> steps, fx |-> fx]

(* -------------------------------------------------------- automaton invariants *)
Fsm_Deterministic == ph = 10 => Cardinality(FsmCand(node, mset)) <= 1 /\ Cardinality(FsmExact(node, mset)) <= 1
Fsm_Total         == ph = 10 => steps <= 4 /\ (FsmHalts(node, mset) \/ FsmCand(node, mset) # {})
Fsm_Sound         == ph = 10 => FsmReq(node) \subseteq mset
Fsm_Maximal       == (ph = 10 /\ FsmHalts(node, mset)) =>
                        \A i \in DOMAIN Edges(node) : ~(Edges(node)[i].req \subseteq mset)
Fsm_Functional    == ph = 10 => /\ FsmPath("start", mset)[steps + 1] = node
                                /\ (FsmHalts(node, mset) => node = FsmRun(mset))
\* the dictionary order of the out-edges decides only at these nodes
Fsm_ForkNodes     == (ph = 10 /\ Cardinality(FsmSubset(node, mset)) > 1) => node \in {"start", "Collection", "Iterable"}
\* no transition label of a node contains another one (so the exact lookup and the subset scan cannot disagree)
Fsm_NoNestedLabels == ph = 10 => \A i, j \in DOMAIN Edges(node) : i # j => ~(Edges(node)[i].req \subseteq Edges(node)[j].req)

(* ----------------------------------------------------------- object invariants *)
\* THE PROPERTY at design level: the inferred hint accepts its object, whatever the draw, and at full depth
Inv_RoundTripOn   == Active => fx.rtOn = FullMask
Inv_SatOn         == Active => fx.satOn
Inv_NoException   == Active => ~fx.exc
\* inference terminates; the hint is no deeper than the object
Inv_Terminates    == Active => fx.term
\* the recursion placeholder is produced exactly for self-referential containers
\* (at a position the inference visits: a mapping that is not inferred as a mapping has only its keys visited)
Inv_MarkerIffBack == Active => /\ (fx.markOn <=> (fx.vback /\ fx.on.k # "exc"))
                               /\ (fx.markO1 => fx.vback)
\* O1 inference describes ONE sampled item per level (documented trade-off): it is only required to agree with
\* the full inference where the object is homogeneous at every level (no union in the On hint)
Inv_O1Homogeneous == Active => fx.hom
Lemma_Conservative == Active => fx.cons

\* faithful design: every predicted failure falls into one of the root-cause classes ...
F_Clean == (Active /\ fx.causes = {}) => fx.rtOn = FullMask /\ ~fx.exc /\ fx.satOn
\* ... and each class is exhibited (expected VIOLATED in the faithful design: non-vacuity)
NV(c) == (Active /\ fx.causes = {c}) => fx.rtOn = FullMask /\ ~fx.exc
NV_set_node        == NV("set_node")
NV_unsubscriptable == NV("unsubscriptable")
NV_meta_dunder     == NV("meta_dunder")
NV_marker          == NV("marker")
NV_duck            == NV("duck")
NV_counter_val     == NV("counter_val")
\* the draw-dependence of F10: some self-referential container is accepted under one residue, rejected under another
NV_draw_dependent  == (Active /\ fx.back) => fx.rtOn \in {0, FullMask}

(* -------------------------------------------------------------- rows (R2) *)
EmitRows == (Active /\ Emit) => JsonSerialize(IOEnv.ROW_DIR \o "/row_" \o ToString(oid) \o ".json", fx)
AllCls == AllClsX
EmitMeta == (ph = 0 /\ Emit) =>
              JsonSerialize(IOEnv.ROW_DIR \o "/meta.json",
                 [t |-> "meta", lcm |-> Lcm, nobj |-> NObj, legacy |-> Legacy,
                  methods |-> [c \in AbcPathCls |-> [inst |-> InstMethods(c), meta |-> MetaOwn(c), metainh |-> MetaInh(c)]],
                  abcs |-> [c \in AllCls |-> AbcsX(c)],
                  parents |-> [c \in AllCls |-> ParentX(c)],
                  fsm |-> [n \in FsmNodes |-> [fac |-> Factory(n), edges |-> Edges(n)]],
                  builtin |-> [c \in AllCls |-> BuiltinFactory(c)]])
=============================================================================
