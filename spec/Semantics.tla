------------------------------ MODULE Semantics ------------------------------
(***************************************************************************)
(* hint x object x draw x configuration -> verdict                          *)
(*                                                                         *)
(* Shared foundation of C01 C02 C03 C09 C10 C12 C18 (and C19/C20).          *)
(*                                                                         *)
(*  Universe     classes, ABC membership, atoms, containers, mappings,      *)
(*               one-shot iterables, class objects                          *)
(*  Hints        abstract syntax H(k, s, a, m)                              *)
(*  Reduce       what reduce_hint does that matters to the verdict          *)
(*  Sat          the PUBLISHED meaning: full depth, every item              *)
(*  SatB         beartype's documented full-depth meaning (Literal by       *)
(*               isinstance-of-member-type and ==)                          *)
(*  MustReject   the C02 antecedent: violations no sampling can hide        *)
(*  Weak         the C02 consequent for accepted objects                    *)
(*  Chk          the GENERATED CHECK, clause by clause as beartype's code   *)
(*               generator emits it (codemain.py, logcls.py, the snippets   *)
(*               of datacodepep484585*.py), parameterised by the draw r     *)
(*  Acc          the same evaluation returning the sequence of data-access  *)
(*               operations performed on the subject (C09 / C10)            *)
(***************************************************************************)
EXTENDS Naturals, Sequences, FiniteSets, TLC

\* Mut selects a spec mutant of the generated check (non-vacuity runs); "none" = the real design
CONSTANT Mut

(* ------------------------------------------------------------------ classes *)
\* concrete (instantiable) classes of the universe
AtomCls == {"int", "bool", "str", "float", "complex", "NoneType", "A", "B"}
SeqCls  == {"list", "tuple", "deque", "USeq"}          \* indexable, random item sampled
CollCls == {"set", "frozenset", "UColl", "dict_keys", "dict_values"}   \* re-iterable, first item
MapCls  == {"dict", "defaultdict", "OrderedDict", "Counter", "UMap"}
IterCls == {"UIter", "gen", "USizedIter"}             \* iterable but not a collection / one-shot
                                                      \* (USizedIter: a one-shot iterator that also defines __len__)
ViewCls == {"dict_items"}

\* strict subclass edges between concrete classes
Parent(c) == CASE c = "bool" -> "int" [] c = "B" -> "A" [] c = "GL" -> "list" [] c = "GN" -> "GL"
               [] c \in {"defaultdict", "OrderedDict", "Counter"} -> "dict" [] OTHER -> "object"
RECURSIVE SubCls(_, _)
SubCls(c, d) == c = d \/ d = "object" \/ (Parent(c) # "object" /\ SubCls(Parent(c), d))

\* abstract base classes / origins each concrete class is an instance of
SeqAbc  == {"Sequence", "Collection", "Iterable", "Container", "Reversible", "Sized"}
Abcs(c) ==
  CASE c = "list"  -> SeqAbc \cup {"MutableSequence"}
    [] c = "deque" -> SeqAbc \cup {"MutableSequence"}
    [] c = "tuple" -> SeqAbc \cup {"Hashable"}
    [] c = "USeq"  -> SeqAbc
    [] c = "str"   -> SeqAbc \cup {"Hashable"}
    [] c = "set"   -> {"AbstractSet", "MutableSet", "Collection", "Iterable", "Container", "Sized"}
    [] c = "frozenset" -> {"AbstractSet", "Collection", "Iterable", "Container", "Sized", "Hashable"}
    [] c = "UColl" -> {"Collection", "Iterable", "Container", "Sized"}
    [] c = "dict_keys"   -> {"KeysView", "AbstractSet", "Collection", "Iterable", "Container", "Sized", "Reversible"}
    [] c = "dict_values" -> {"ValuesView", "Collection", "Iterable", "Container", "Sized", "Reversible"}
    [] c = "dict_items"  -> {"ItemsView", "AbstractSet", "Collection", "Iterable", "Container", "Sized", "Reversible"}
    [] c \in {"dict", "defaultdict", "OrderedDict", "Counter"} ->
         {"Mapping", "MutableMapping", "Collection", "Iterable", "Container", "Sized", "Reversible"}
    [] c = "UMap"  -> {"Mapping", "Collection", "Iterable", "Container", "Sized"}
    [] c = "UIter" -> {"Iterable"}
    [] c = "gen"   -> {"Iterable", "Iterator", "Generator"}
    [] c = "USizedIter" -> {"Iterable", "Iterator", "Sized"}
    [] c \in {"GL", "GN"} -> SeqAbc \cup {"MutableSequence"}   \* class GL(list[T]);  class GN(GL[str], Generic[T])
    [] c = "PM"    -> {"HasM", "Hashable"}                  \* structurally implements the runtime-checkable protocol HasM
    [] c \in {"int", "bool", "float", "complex", "NoneType"} -> {"Hashable"}
    [] OTHER -> {"Hashable"}                                      \* user classes A, B; type objects

(* ------------------------------------------------------------------ objects *)
\* uniform record shape:  k in {"atom","cont","map","iter","type"}
\*   atom : cls, v (value code)        cont : cls, items (iteration order)
\*   map  : cls, items = seq of [key, val]      iter : cls, items (pending items)
\*   type : cls = the class denoted (a class object)
Atom(c, v)  == [k |-> "atom", cls |-> c, items |-> <<>>, v |-> v]
Cont(c, it) == [k |-> "cont", cls |-> c, items |-> it, v |-> 0]
Map(c, it)  == [k |-> "map",  cls |-> c, items |-> it, v |-> 0]
Iter(c, it) == [k |-> "iter", cls |-> c, items |-> it, v |-> 0]
TypeObj(c)  == [k |-> "type", cls |-> c, items |-> <<>>, v |-> 0]
KV(a, b)    == [key |-> a, val |-> b]

i0 == Atom("int", 0)    i1 == Atom("int", 1)     i2 == Atom("int", 2)
bF == Atom("bool", 0)   bT == Atom("bool", 1)
f1 == Atom("float", 1)  f2 == Atom("float", 25)  \* 1.0 and 2.5
cj == Atom("complex", 77)
sa == Atom("str", 101)  sb == Atom("str", 102)   \* "a", "b": one-character strings
none == Atom("NoneType", 0)
oa == Atom("A", 201)    ob == Atom("B", 202)     \* instances of user classes
pm == Atom("PM", 301)   og == Atom("G", 302)     \* implements protocol HasM / instance of a plain user generic

Numeric(x) == x.k = "atom" /\ x.cls \in {"int", "bool", "float"}
\* Python's ==
RECURSIVE PyEq(_, _)
PyEq(x, y) ==
  IF x.k = "atom" /\ y.k = "atom"
  THEN IF Numeric(x) /\ Numeric(y) THEN x.v = y.v ELSE x = y
  ELSE IF x.k = "cont" /\ y.k = "cont" /\ x.cls = y.cls /\ x.cls \in {"tuple", "list"}
  THEN Len(x.items) = Len(y.items) /\ \A i \in DOMAIN x.items : PyEq(x.items[i], y.items[i])
  ELSE x = y

\* isinstance(x, c) for a concrete class or an ABC / origin name c
InstOf(x, c) ==
  IF c = "object" THEN TRUE
  ELSE IF x.k = "type" THEN c = "type" \/ c = "Hashable"
  ELSE SubCls(x.cls, c) \/ c \in Abcs(x.cls)

IsCollection(x) == InstOf(x, "Collection")
\* the items a container yields when iterated / indexed (a str yields itself: "a"[0] == "a")
ItemsOf(x) ==
  IF x.k = "atom" THEN (IF x.cls = "str" THEN <<x>> ELSE <<>>)
  ELSE IF x.k = "map" THEN [i \in DOMAIN x.items |-> x.items[i].key]
  ELSE x.items
LenOf(x) == Len(ItemsOf(x))

(* -------------------------------------------------------------------- hints *)
\* H(k, s, a, m): kind, sign / class name, child hints, member objects
H(k, s, a, m) == [k |-> k, s |-> s, a |-> a, m |-> m]
HAny          == H("any", "", <<>>, <<>>)
HCls(c)       == H("cls", c, <<>>, <<>>)                 \* a class (incl. None -> NoneType)
HLit(ms)      == H("lit", "", <<>>, ms)                  \* Literal[...]
HType(h)      == H("type", "", <<h>>, <<>>)              \* type[h], h a class, a union of classes or Any
HUnion(hs)    == H("union", "", hs, <<>>)
HTupF(hs)     == H("tupf", "", hs, <<>>)                 \* tuple[h1, ..., hn]  (n = 0: tuple[()])
HSeq(s, h)    == H("seq", s, <<h>>, <<>>)                \* s in list, Sequence, MutableSequence, tuple (variadic)
HReit(s, h)   == H("reit", s, <<h>>, <<>>)               \* set frozenset AbstractSet MutableSet Collection deque KeysView ValuesView
HQuasi(s, h)  == H("quasi", s, <<h>>, <<>>)              \* Iterable Container Reversible
HShallow(s)   == H("shallow", s, <<>>, <<>>)             \* Iterator[...], Generator[...]: class only
HMap(s, hk, hv) == H("map", s, <<hk, hv>>, <<>>)         \* dict Mapping MutableMapping defaultdict OrderedDict
HCounter(hk)  == H("map", "Counter", <<hk, HCls("int")>>, <<>>)
HItems(hk, hv) == H("items", "ItemsView", <<hk, hv>>, <<>>)
\* user generics: GL = class GL(list[T]) subscripted GL[h] (class test + pseudo-superclass list[h]);
\* G = class G(Generic[T]) subscripted G[h] (class test only: the parameter cannot be verified)
HGen(s, h)    == H("gen", s, <<h>>, <<>>)
\* GN = class GN(GL[str], Generic[T]) re-binds the SAME TypeVar: GN[h] means "a GN whose items are str", whatever h
\* the hint that the unerased pseudo-superclasses of a subscripted user generic amount to
GenBase(h)    == CASE h.s = "GL" -> HSeq("list", h.a[1]) [] h.s = "GN" -> HSeq("list", HCls("str")) [] OTHER -> HAny
\* PEP 695 recursive alias   type R = list[R | h] :  lists of (h or R) to any depth.  beartype unrolls it one
\* layer and must then IGNORE what it cannot express: RecExp(h) = list[list | h]  (redpep695.py).  The spec
\* mutant rec_drop_marker drops the recursive member instead (list[list[h] | h]: beartype 0.23.0).
HRecAlias(h)       == H("rec", "list", <<h>>, <<>>)
RecExp(h)     == HSeq("list", HUnion(<<IF Mut = "rec_drop_marker" THEN HSeq("list", h.a[1]) ELSE HCls("list"), h.a[1]>>))
HAnn(h, vs)   == H("ann", "", <<h>>, vs)                 \* Annotated[h, V1, ..., Vn], Vi beartype validators

(* --------------------------------------------------------------- validators *)
\* VV(k, n, a, o): kind, name (predicate / attribute / class), child validators, operand objects
VV(k, n, a, o) == [k |-> k, n |-> n, a |-> a, o |-> o]
VIs(p)        == VV("is", p, <<>>, <<>>)                  \* Is[pred]      pred from the catalogue below
VAttr(n, v)   == VV("isattr", n, <<v>>, <<>>)            \* IsAttr[n, v]
VEq(x)        == VV("iseq", "", <<>>, <<x>>)             \* IsEqual[x]
VInst(c)      == VV("isinst", c, <<>>, <<>>)             \* IsInstance[c]
VSub(c)       == VV("issub", c, <<>>, <<>>)              \* IsSubclass[c]
VAnd(v, w)    == VV("and", "", <<v, w>>, <<>>)
VOr(v, w)     == VV("or", "", <<v, w>>, <<>>)
VNot(v)       == VV("not", "", <<v>>, <<>>)

\* attributes of the user objects:  oa.x = 1  oa.y = "a"   ob.x = "a"  ob.y = oa   (nothing else has x / y)
HasAttr(x, n) == (x \in {oa, ob}) /\ n \in {"x", "y"}
AttrOf(x, n)  == IF x = oa THEN (IF n = "x" THEN i1 ELSE sa) ELSE (IF n = "x" THEN sa ELSE oa)

\* total, side-effect-free predicates usable inside Is[...]
Pred(p, x) ==
  CASE p = "truthy" -> (CASE x.k = "atom" -> (IF Numeric(x) THEN x.v # 0 ELSE x.cls # "NoneType")
                          [] x.k \in {"cont", "map"} -> Len(x.items) > 0
                          [] x.k = "iter" /\ x.cls = "USizedIter" -> Len(x.items) > 0   \* has __len__
                          [] OTHER -> TRUE)
    [] p = "isstr"  -> x.k = "atom" /\ x.cls = "str"
    [] p = "sized1" -> x.k \in {"cont", "map"} /\ Len(x.items) = 1

\* ordinary boolean meaning of a validator
RECURSIVE ValSem(_, _)
ValSem(v, x) ==
  CASE v.k = "is"     -> Pred(v.n, x)
    [] v.k = "isattr" -> HasAttr(x, v.n) /\ ValSem(v.a[1], AttrOf(x, v.n))
    [] v.k = "iseq"   -> PyEq(x, v.o[1])
    [] v.k = "isinst" -> InstOf(x, v.n)
    [] v.k = "issub"  -> x.k = "type" /\ SubCls(x.cls, v.n)
    [] v.k = "and"    -> ValSem(v.a[1], x) /\ ValSem(v.a[2], x)
    [] v.k = "or"     -> ValSem(v.a[1], x) \/ ValSem(v.a[2], x)
    [] v.k = "not"    -> ~ValSem(v.a[1], x)

SeqSigns   == {"list", "Sequence", "MutableSequence", "tuple"}
ReitSigns  == {"set", "frozenset", "AbstractSet", "MutableSet", "Collection", "deque", "KeysView", "ValuesView"}
QuasiSigns == {"Iterable", "Container", "Reversible"}
MapSigns   == {"dict", "Mapping", "MutableMapping", "defaultdict", "OrderedDict", "Counter"}

\* configuration facts that matter to the verdict
\*   rnd   : is_random          tower : is_pep484_tower       ov : hint_overrides {A: B} active
\*   ov3   : hint_overrides {A: A | int | str} active (an override whose target is a union of three members)
Conf(rnd, tower, ov) == [rnd |-> rnd, tower |-> tower, ov |-> ov, ov3 |-> FALSE]
Conf0 == Conf(TRUE, FALSE, FALSE)

(* -------- documented rewrites of the configuration (C18), applied at every depth ---- *)
RECURSIVE Rewrite(_, _)
Rewrite(h, conf) ==
  IF h.k = "cls" /\ conf.tower /\ h.s = "float" THEN HUnion(<<HCls("float"), HCls("int")>>)
  ELSE IF h.k = "cls" /\ conf.tower /\ h.s = "complex"
       THEN HUnion(<<HCls("complex"), HCls("float"), HCls("int")>>)
  ELSE IF h.k = "cls" /\ conf.ov /\ h.s = "A" THEN HCls("B")
  ELSE IF h.k = "cls" /\ conf.ov3 /\ h.s = "A" THEN HUnion(<<HCls("A"), HCls("int"), HCls("str")>>)
  ELSE [h EXCEPT !.a = [i \in DOMAIN h.a |-> Rewrite(h.a[i], conf)]]

(* ----------------------------------------------------- the published meaning *)
RECURSIVE Sat(_, _)
Sat(h, x) ==
  CASE h.k = "any"  -> TRUE
    [] h.k = "cls"  -> InstOf(x, h.s)
    [] h.k = "lit"  -> \E i \in DOMAIN h.m : x.k = "atom" /\ x.cls = h.m[i].cls /\ PyEq(x, h.m[i])
    [] h.k = "type" -> x.k = "type" /\ Sat(h.a[1], Atom(x.cls, 0))
    [] h.k = "union" -> \E i \in DOMAIN h.a : Sat(h.a[i], x)
    [] h.k = "tupf" -> /\ InstOf(x, "tuple") /\ LenOf(x) = Len(h.a)
                       /\ \A i \in DOMAIN h.a : Sat(h.a[i], ItemsOf(x)[i])
    [] h.k \in {"seq", "reit", "quasi"} ->
         /\ InstOf(x, h.s) /\ \A i \in 1..LenOf(x) : Sat(h.a[1], ItemsOf(x)[i])
    [] h.k = "shallow" -> InstOf(x, h.s)
    [] h.k = "map"  -> /\ InstOf(x, h.s) /\ x.k = "map"
                       /\ \A i \in DOMAIN x.items : Sat(h.a[1], x.items[i].key) /\ Sat(h.a[2], x.items[i].val)
    [] h.k = "items" -> /\ InstOf(x, "ItemsView")
                        /\ \A i \in DOMAIN x.items :
                             LET p == x.items[i] IN
                             p.k = "cont" /\ p.cls = "tuple" /\ Len(p.items) = 2
                             /\ Sat(h.a[1], p.items[1]) /\ Sat(h.a[2], p.items[2])
    [] h.k = "gen"  -> InstOf(x, h.s) /\ Sat(GenBase(h), x)
    [] h.k = "rec"  -> /\ InstOf(x, "list")              \* the published meaning is truly recursive
                       /\ \A i \in 1..LenOf(x) : Sat(h, ItemsOf(x)[i]) \/ Sat(h.a[1], ItemsOf(x)[i])
    [] h.k = "ann"  -> Sat(h.a[1], x) /\ \A i \in DOMAIN h.m : ValSem(h.m[i], x)

\* beartype's documented full-depth meaning: as Sat, but Literal is "instance of a member's
\* type and == a member"
RECURSIVE SatB(_, _)
SatB(h, x) ==
  CASE h.k = "lit"  -> /\ \E i \in DOMAIN h.m : InstOf(x, h.m[i].cls)
                       /\ \E i \in DOMAIN h.m : PyEq(x, h.m[i])
    [] h.k = "union" -> \E i \in DOMAIN h.a : SatB(h.a[i], x)
    [] h.k = "tupf" -> /\ InstOf(x, "tuple") /\ LenOf(x) = Len(h.a)
                       /\ \A i \in DOMAIN h.a : SatB(h.a[i], ItemsOf(x)[i])
    [] h.k \in {"seq", "reit", "quasi"} ->
         /\ InstOf(x, h.s) /\ \A i \in 1..LenOf(x) : SatB(h.a[1], ItemsOf(x)[i])
    [] h.k = "map"  -> /\ InstOf(x, h.s) /\ x.k = "map"
                       /\ \A i \in DOMAIN x.items : SatB(h.a[1], x.items[i].key) /\ SatB(h.a[2], x.items[i].val)
    [] h.k = "items" -> /\ InstOf(x, "ItemsView")
                        /\ \A i \in DOMAIN x.items :
                             LET p == x.items[i] IN
                             p.k = "cont" /\ p.cls = "tuple" /\ Len(p.items) = 2
                             /\ SatB(h.a[1], p.items[1]) /\ SatB(h.a[2], p.items[2])
    [] h.k = "gen"  -> InstOf(x, h.s) /\ SatB(GenBase(h), x)
    [] h.k = "rec"  -> /\ InstOf(x, "list")
                       /\ \A i \in 1..LenOf(x) : SatB(h, ItemsOf(x)[i]) \/ SatB(h.a[1], ItemsOf(x)[i])
    [] h.k = "ann"  -> SatB(h.a[1], x) /\ \A i \in DOMAIN h.m : ValSem(h.m[i], x)
    [] OTHER -> Sat(h, x)

(* --------------------------------------------- violations no sampling can hide *)
RECURSIVE MustReject(_, _)
MustReject(h, x) ==
  CASE h.k = "any"  -> FALSE
    [] h.k = "cls"  -> ~InstOf(x, h.s)
    [] h.k = "lit"  -> \/ ~\E i \in DOMAIN h.m : PyEq(x, h.m[i])
                       \/ ~\E i \in DOMAIN h.m : InstOf(x, h.m[i].cls)
    [] h.k = "type" -> ~Sat(h, x)
    [] h.k = "union" -> \A i \in DOMAIN h.a : MustReject(h.a[i], x)
    [] h.k = "tupf" -> \/ ~InstOf(x, "tuple") \/ LenOf(x) # Len(h.a)
                       \/ \E i \in DOMAIN h.a : MustReject(h.a[i], ItemsOf(x)[i])
    [] h.k \in {"seq", "reit"} ->
         \/ ~InstOf(x, h.s)
         \/ (LenOf(x) > 0 /\ \A i \in 1..LenOf(x) : MustReject(h.a[1], ItemsOf(x)[i]))
    [] h.k = "quasi" ->
         \/ ~InstOf(x, h.s)
         \/ (IsCollection(x) /\ LenOf(x) > 0 /\ \A i \in 1..LenOf(x) : MustReject(h.a[1], ItemsOf(x)[i]))
    [] h.k = "shallow" -> ~InstOf(x, h.s)
    [] h.k = "map"  -> \/ ~InstOf(x, h.s)
                       \/ (x.k = "map" /\ Len(x.items) > 0 /\
                           \A i \in DOMAIN x.items :
                              MustReject(h.a[1], x.items[i].key) \/ MustReject(h.a[2], x.items[i].val))
    [] h.k = "items" -> \/ ~InstOf(x, "ItemsView")
                        \/ (Len(x.items) > 0 /\ \A i \in DOMAIN x.items :
                              MustReject(HTupF(h.a), x.items[i]))
    [] h.k = "gen"  -> ~InstOf(x, h.s) \/ MustReject(GenBase(h), x)
    [] h.k = "rec"  -> MustReject(HSeq("list", HUnion(<<HCls("list"), h.a[1]>>)), x)   \* guaranteed only for the unrolled layer
    [] h.k = "ann"  -> MustReject(h.a[1], x) \/ \E i \in DOMAIN h.m : ~ValSem(h.m[i], x)

(* ------------------ an accepted object has >= 1 consistent item per container level *)
RECURSIVE Weak(_, _)
Weak(h, x) ==
  CASE h.k = "union" -> \E i \in DOMAIN h.a : Weak(h.a[i], x)
    [] h.k = "tupf" -> /\ InstOf(x, "tuple") /\ LenOf(x) = Len(h.a)
                       /\ \A i \in DOMAIN h.a : Weak(h.a[i], ItemsOf(x)[i])
    [] h.k \in {"seq", "reit"} ->
         /\ InstOf(x, h.s) /\ (LenOf(x) = 0 \/ \E i \in 1..LenOf(x) : Weak(h.a[1], ItemsOf(x)[i]))
    [] h.k = "quasi" ->
         /\ InstOf(x, h.s)
         /\ (~IsCollection(x) \/ LenOf(x) = 0 \/ \E i \in 1..LenOf(x) : Weak(h.a[1], ItemsOf(x)[i]))
    [] h.k = "map"  -> /\ InstOf(x, h.s)
                       /\ (x.k # "map" \/ Len(x.items) = 0 \/
                           \E i \in DOMAIN x.items : Weak(h.a[1], x.items[i].key) /\ Weak(h.a[2], x.items[i].val))
    [] h.k = "items" -> /\ InstOf(x, "ItemsView")
                        /\ (Len(x.items) = 0 \/ \E i \in DOMAIN x.items : Weak(HTupF(h.a), x.items[i]))
    [] h.k = "gen"  -> InstOf(x, h.s) /\ Weak(GenBase(h), x)
    [] h.k = "rec"  -> Weak(HSeq("list", HUnion(<<HCls("list"), h.a[1]>>)), x)
    [] h.k = "ann"  -> Weak(h.a[1], x) /\ \A i \in DOMAIN h.m : ValSem(h.m[i], x)
    [] OTHER -> SatB(h, x)

(* ------------------------------------------------------------------- Reduce *)
\* ignorable hints: the code generator emits no check for them (HINT_SANE_IGNORABLE)
RECURSIVE Ignorable(_)
Ignorable(h) ==
  \/ h.k = "any"
  \/ (h.k = "cls" /\ h.s = "object")
  \/ (h.k = "union" /\ \E i \in DOMAIN h.a : Ignorable(h.a[i]))

\* union flattening: nested unions are merged into their parent, in order
RECURSIVE FlatMembers(_)
FlatMembers(hs) ==
  IF hs = <<>> THEN <<>>
  ELSE LET hd == Head(hs) IN
       (IF hd.k = "union" THEN FlatMembers(hd.a) ELSE <<hd>>) \o FlatMembers(Tail(hs))

(* ----------------------------------------------------- the generated check *)
\* index sampled from a sequence of length n for draw r
Pick(n, r, conf) == IF conf.rnd THEN (r % n) + 1 ELSE 1

\* the code a validator contributes to the generated check (beartype/vale/_core, _is/*):
\*   Is[f]          f(obj)                      IsEqual[a]     obj == a
\*   IsInstance[c]  isinstance(obj, c)          IsSubclass[c]  isinstance(obj, type) and issubclass(obj, c)
\*   IsAttr[n, v]   (tmp := getattr(obj, n, SENTINEL)) is not SENTINEL and <v on tmp>
\*   v & w          (<v> and <w>)      v | w   (<v> or <w>)      ~v   (not <v>)
RECURSIVE ValCode(_, _)
ValCode(v, x) ==
  CASE v.k = "is"     -> Pred(v.n, x)
    [] v.k = "isattr" -> HasAttr(x, v.n) /\ ValCode(v.a[1], AttrOf(x, v.n))
    [] v.k = "iseq"   -> PyEq(x, v.o[1])
    [] v.k = "isinst" -> InstOf(x, v.n)
    [] v.k = "issub"  -> x.k = "type" /\ SubCls(x.cls, v.n)
    [] v.k = "and"    -> IF Mut = "vale_and_as_or" THEN ValCode(v.a[1], x) \/ ValCode(v.a[2], x)
                         ELSE ValCode(v.a[1], x) /\ ValCode(v.a[2], x)
    [] v.k = "or"     -> ValCode(v.a[1], x) \/ ValCode(v.a[2], x)
    [] v.k = "not"    -> IF Mut = "vale_not_first_conjunct" /\ v.a[1].k = "and"
                         THEN (~ValCode(v.a[1].a[1], x)) /\ ValCode(v.a[1].a[2], x)
                         ELSE ~ValCode(v.a[1], x)

\* Mut: spec mutants for non-vacuity ("none" = the real design)

RECURSIVE ChkR(_, _, _, _)
ChkR(h, x, r, conf) ==
  IF Ignorable(h) THEN TRUE ELSE
  CASE h.k = "cls"  -> InstOf(x, h.s)
    [] h.k = "lit"  -> /\ \E i \in DOMAIN h.m : InstOf(x, h.m[i].cls)          \* isinstance(x, member types)
                       /\ \E i \in DOMAIN h.m : PyEq(x, h.m[i])                \* x == m1 or x == m2 ...
    [] h.k = "type" -> /\ x.k = "type"                                         \* isinstance(x, type) and
                       /\ (Ignorable(h.a[1]) \/ ChkR(h.a[1], Atom(x.cls, 0), r, conf))   \* issubclass(x, C)
    [] h.k = "union" ->
         LET ms == FlatMembers(h.a) IN
         IF Mut = "union_first_only" THEN ChkR(ms[1], x, r, conf)
         ELSE \E i \in DOMAIN ms : ChkR(ms[i], x, r, conf)
    [] h.k = "tupf" ->
         /\ InstOf(x, "tuple")
         /\ (IF Mut = "tupf_len_ge" THEN LenOf(x) >= Len(h.a) ELSE LenOf(x) = Len(h.a))
         /\ \A i \in DOMAIN h.a : Ignorable(h.a[i]) \/ ChkR(h.a[i], ItemsOf(x)[i], r, conf)
    [] h.k = "seq"  ->
         /\ InstOf(x, h.s)
         /\ (Ignorable(h.a[1]) \/ LenOf(x) = 0
             \/ ChkR(h.a[1], ItemsOf(x)[IF Mut = "seq_len_minus_1" /\ LenOf(x) > 1
                                         THEN (r % (LenOf(x) - 1)) + 1
                                         ELSE Pick(LenOf(x), r, conf)], r, conf))
    [] h.k = "reit" ->
         /\ InstOf(x, h.s)
         /\ (Ignorable(h.a[1]) \/ LenOf(x) = 0 \/ ChkR(h.a[1], ItemsOf(x)[1], r, conf))
    [] h.k = "quasi" ->
         /\ InstOf(x, h.s)
         /\ (Ignorable(h.a[1]) \/ ~IsCollection(x) \/ LenOf(x) = 0
             \/ ChkR(h.a[1],
                     ItemsOf(x)[IF InstOf(x, "Sequence") THEN Pick(LenOf(x), r, conf) ELSE 1], r, conf))
    [] h.k = "shallow" -> InstOf(x, h.s)
    [] h.k = "map"  ->
         /\ InstOf(x, h.s)
         /\ LET ik == Ignorable(h.a[1])  iv == Ignorable(h.a[2]) IN
            \/ (ik /\ iv) \/ Len(x.items) = 0
            \/ /\ (ik \/ ChkR(h.a[1], x.items[1].key, r, conf))
               /\ (iv \/ ChkR(IF Mut = "map_value_vs_key" THEN h.a[1] ELSE h.a[2], x.items[1].val, r, conf))
    [] h.k = "items" ->
         /\ InstOf(x, "ItemsView")
         /\ (Len(x.items) = 0 \/ ChkR(HTupF(h.a), x.items[1], r, conf))
    [] h.k = "rec"  -> ChkR(RecExp(h), x, r, conf)
    [] h.k = "gen"  ->          \* isinstance(x, G) and <check of every unerased pseudo-superclass>
         /\ InstOf(x, h.s)
         /\ ChkR(GenBase(h), x, r, conf)
    [] h.k = "ann"  ->          \* metahint first (elided when ignorable), then every validator's code, and-ed
         /\ (Ignorable(h.a[1]) \/ ChkR(h.a[1], x, r, conf))
         /\ \A i \in DOMAIN h.m : ValCode(h.m[i], x)

\* hint overrides / the numeric tower are the first reducer: applied once per occurrence
Chk(h, x, r, conf) == ChkR(Rewrite(h, conf), x, r, conf)

(* ------------------------------------------- data accesses of the generated check (C09, C10) *)
\* E(ok, rd, ln, it, bad): verdict, item reads (x[i], next(it), x[key]), len() calls, iterators created
\* from collections (iter(x), iter(x.values())), forbidden operations (touching a one-shot iterable)
E(ok, rd, ln, it, bad) == [ok |-> ok, rd |-> rd, ln |-> ln, it |-> it, bad |-> bad]
EPlus(e, f) == E(f.ok, e.rd + f.rd, e.ln + f.ln, e.it + f.it, e.bad + f.bad)     \* e then f (f decides)
ENo(ok) == E(ok, 0, 0, 0, 0)

RECURSIVE Ev(_, _, _, _), EvTup(_, _, _, _, _), EvUnion(_, _, _, _, _)
Ev(h, x, r, conf) ==
  IF Ignorable(h) THEN ENo(TRUE) ELSE
  CASE h.k \in {"cls", "lit", "type", "shallow"} -> ENo(ChkR(h, x, r, conf))
    [] h.k = "union" -> EvUnion(FlatMembers(h.a), 1, x, r, conf)
    [] h.k = "tupf" ->
         IF ~InstOf(x, "tuple") THEN ENo(FALSE)
         ELSE IF LenOf(x) # Len(h.a) THEN E(FALSE, 0, 1, 0, 0)
         ELSE EPlus(E(TRUE, 0, 1, 0, 0), EvTup(h.a, 1, x, r, conf))
    [] h.k = "seq" ->
         IF ~InstOf(x, h.s) THEN ENo(FALSE)
         ELSE IF Ignorable(h.a[1]) THEN ENo(TRUE)
         ELSE IF LenOf(x) = 0 THEN E(TRUE, 0, 1, 0, 0)
         ELSE IF Mut = "seq_scan_all" THEN E(TRUE, LenOf(x), 2, 0, 0)
         ELSE EPlus(E(TRUE, 1, 2, 0, 0), Ev(h.a[1], ItemsOf(x)[Pick(LenOf(x), r, conf)], r, conf))
    [] h.k = "reit" ->
         IF ~InstOf(x, h.s) THEN ENo(FALSE)
         ELSE IF Ignorable(h.a[1]) THEN ENo(TRUE)
         ELSE IF LenOf(x) = 0 THEN E(TRUE, 0, 1, 0, 0)
         ELSE EPlus(E(TRUE, 1, 1, 1, 0), Ev(h.a[1], ItemsOf(x)[1], r, conf))
    [] h.k = "quasi" ->
         IF ~InstOf(x, h.s) THEN ENo(FALSE)
         ELSE IF Ignorable(h.a[1]) THEN ENo(TRUE)
         ELSE IF ~IsCollection(x)
              THEN (IF Mut = "quasi_iterates_noncollection" THEN E(TRUE, 1, 0, 0, 1) ELSE ENo(TRUE))
         ELSE IF LenOf(x) = 0 THEN E(TRUE, 0, 1, 0, 0)
         ELSE IF InstOf(x, "Sequence")
              THEN EPlus(E(TRUE, 1, 2, 0, 0), Ev(h.a[1], ItemsOf(x)[Pick(LenOf(x), r, conf)], r, conf))
              ELSE EPlus(E(TRUE, 1, 1, 1, 0), Ev(h.a[1], ItemsOf(x)[1], r, conf))
    [] h.k = "map" ->
         IF ~InstOf(x, h.s) THEN ENo(FALSE)
         ELSE LET ik == Ignorable(h.a[1])  iv == Ignorable(h.a[2]) IN
              IF ik /\ iv THEN ENo(TRUE)
              ELSE IF Len(x.items) = 0 THEN E(TRUE, 0, 1, 0, 0)
              ELSE IF ik THEN EPlus(E(TRUE, 1, 1, 1, 0), Ev(h.a[2], x.items[1].val, r, conf))   \* next(iter(x.values()))
              ELSE LET ek == EPlus(E(TRUE, 1, 1, 1, 0), Ev(h.a[1], x.items[1].key, r, conf)) IN   \* next(iter(x))
                   IF ~ek.ok \/ iv THEN ek
                   ELSE EPlus(EPlus(ek, E(TRUE, 1, 0, 0, 0)), Ev(h.a[2], x.items[1].val, r, conf))   \* x[key]
    [] h.k = "items" ->
         IF ~InstOf(x, "ItemsView") THEN ENo(FALSE)
         ELSE IF Len(x.items) = 0 THEN E(TRUE, 0, 1, 0, 0)
         ELSE EPlus(E(TRUE, 1, 1, 1, 0), Ev(HTupF(h.a), x.items[1], r, conf))
    [] h.k = "rec" -> Ev(RecExp(h), x, r, conf)
    [] h.k = "gen" ->        \* user generic: class test, then the unerased pseudo-superclass list[T] (GL) / nothing (G)
         IF ~InstOf(x, h.s) THEN ENo(FALSE)
         ELSE Ev(GenBase(h), x, r, conf)
    [] h.k = "ann" ->
         LET eb == IF Ignorable(h.a[1]) THEN ENo(TRUE) ELSE Ev(h.a[1], x, r, conf) IN
         IF ~eb.ok THEN eb ELSE EPlus(eb, ENo(\A i \in DOMAIN h.m : ValCode(h.m[i], x)))
\* fixed tuple: positions in order, stop at the first failing one
EvTup(hs, i, x, r, conf) ==
  IF i > Len(hs) THEN ENo(TRUE)
  ELSE IF Ignorable(hs[i]) THEN EvTup(hs, i + 1, x, r, conf)
  ELSE LET e == EPlus(E(TRUE, 1, 0, 0, 0), Ev(hs[i], ItemsOf(x)[i], r, conf)) IN
       IF ~e.ok THEN e ELSE EPlus(e, EvTup(hs, i + 1, x, r, conf))
\* union: members in order, stop at the first accepting one
EvUnion(ms, i, x, r, conf) ==
  IF i > Len(ms) THEN ENo(FALSE)
  ELSE LET e == Ev(ms[i], x, r, conf) IN
       IF e.ok THEN e ELSE EPlus(e, EvUnion(ms, i + 1, x, r, conf))

\* the declarative bound of C09: item reads allowed by the hint alone (one item, or one key and its
\* value, per container level the hint describes; a fixed tuple may read each of its positions)
RECURSIVE ReadBound(_), SumBound(_)
SumBound(hs) == IF hs = <<>> THEN 0 ELSE ReadBound(Head(hs)) + SumBound(Tail(hs))
ReadBound(h) ==
  CASE h.k \in {"seq", "reit", "quasi"} -> 1 + ReadBound(h.a[1])
    [] h.k = "map"   -> 2 + ReadBound(h.a[1]) + ReadBound(h.a[2])
    [] h.k = "items" -> 3 + ReadBound(h.a[1]) + ReadBound(h.a[2])
    [] h.k = "tupf"  -> Len(h.a) + SumBound(h.a)
    [] h.k = "union" -> SumBound(h.a)
    [] h.k = "ann"   -> ReadBound(h.a[1])
    [] h.k = "gen"   -> ReadBound(GenBase(h))
    [] h.k = "rec"   -> 2 + 2 * ReadBound(h.a[1])
    [] OTHER -> 0
RECURSIVE Nodes(_), SumNodes(_)
SumNodes(hs) == IF hs = <<>> THEN 0 ELSE Nodes(Head(hs)) + SumNodes(Tail(hs))
Nodes(h) == 1 + SumNodes(h.a)
\* len() calls: at most two per container level (emptiness test + index computation)
LenBound(h) == 2 * Nodes(h)

=============================================================================
