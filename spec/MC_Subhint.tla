----------------------------- MODULE MC_Subhint -----------------------------
(* C19: enumeration for Subhint.tla.  A bounded set of hints over the kinds the        *)
(* property names (classes, unions, literals, Annotated, fixed / variadic tuples,       *)
(* containers, mappings, type[...], callables, NewTypes, TypeVars), the object          *)
(* universe of MC_Semantics.tla, the order laws over ALL pairs and triples of the set,  *)
(* soundness against Sat / SatB over the whole object universe, the coherence of the    *)
(* wrapper projection, the singleton cache of doormeta as a small state machine, and    *)
(* one emitted row per hint (R2).                                                       *)
EXTENDS Subhint, SequencesExt, FiniteSetsExt, Json, IOUtils

CONSTANTS Tier,     \* "quick" | "thorough"
          L,        \* maximal container length of the object universe
          Emit,     \* TRUE: one JSON row per hint
          Legacy    \* feature flags of Subhint.tla under which the invariants are evaluated

(* ------------------------------------------------------------------ objects *)
MS == INSTANCE MC_Semantics WITH ph <- 0, hid <- 0, Emit <- FALSE
OSeq == TLCEval(MS!OSeq)
NObj == TLCEval(Len(OSeq))
Lcm  == MS!Lcm

(* -------------------------------------------------------------------- hints *)
IntH == HCls("int")   BoolH == HCls("bool")  StrH == HCls("str")  NoneH == HCls("NoneType")
ObjH == HCls("object")  FloatH == HCls("float")  AH == HCls("A")  BH == HCls("B")
Lit1 == HLit(<<i1>>)  LitT == HLit(<<bT>>)  Lit1a == HLit(<<i1, sa>>)  LitNb == HLit(<<none, sb>>)  LitA == HLit(<<sa>>)
V1 == VIs("truthy")   V2 == VInst("bool")
AnnI == HAnn(IntH, <<V1>>)   AnnS == HAnn(StrH, <<V1>>)   AnnB == HAnn(BoolH, <<V1>>)
U(a, b) == HUnion(<<a, b>>)
TvFree == HTVar("free", <<>>)   TvInt == HTVar("bound", <<IntH>>)   TvIS == HTVar("constr", <<IntH, StrH>>)
LI == HSeq("list", IntH)

Classes == {HAny, ObjH, IntH, BoolH, StrH, FloatH, NoneH, AH, BH, HCls("list"), HCls("dict"), HCls("tuple"),
            HCls("Sequence"), HCls("Collection"), HCls("Callable"), HCls("type")}
Lits    == {Lit1, LitT, Lit1a, LitNb, LitA}
Types   == {HType(IntH), HType(BoolH), HType(HAny), HType(U(IntH, StrH)), HType(AH)}
Shallow == {HShallow("Iterator"), HShallow("Generator")}
News    == {HNew("int"), HNew("A")} \cup (IF Tier = "quick" THEN {} ELSE {HNew("str")})
TVars   == {TvFree, TvInt, TvIS} \cup (IF Tier = "quick" THEN {} ELSE {HTVar("bound", <<AH>>), HTVar("bound", <<LI>>)})
Anns    == {AnnI, AnnS, AnnB, HAnn(IntH, <<V2>>), HAnn(IntH, <<V1, V2>>), HAnn(LI, <<V1>>)}
           \cup (IF Tier = "quick" THEN {} ELSE {HAnn(HSeq("list", StrH), <<V1>>), HAnn(ObjH, <<V1>>), HAnn(AH, <<V1>>),
                                                 HAnn(BH, <<V1>>), HAnn(U(IntH, StrH), <<V1>>)})
Calls   == {HCall(<<IntH>>, StrH), HCall(<<BoolH>>, StrH), HCall(<<StrH>>, StrH), HCallAny(StrH), HCallAny(HAny),
            HCall(<<>>, StrH), HCall(<<IntH>>, HAny), HCall(<<IntH, IntH>>, StrH), HCall(<<ObjH>>, HAny)}
           \cup (IF Tier = "quick" THEN {}
                 ELSE {HCall(<<IntH>>, IntH), HCall(<<IntH>>, BoolH), HCall(<<ObjH>>, StrH), HCall(<<BoolH, StrH>>, StrH),
                       HCall(<<LI>>, StrH), HCall(<<HSeq("Sequence", IntH)>>, StrH), HCall(<<FloatH>>, StrH),
                       HCallAny(IntH), HCall(<<HAny>>, StrH), HCall(<<U(IntH, StrH)>>, StrH)})
Leaves == Classes \cup Lits \cup Types \cup Shallow \cup News \cup TVars \cup Anns \cup Calls

KidQ == {HAny, IntH, BoolH, StrH, Lit1, LitT}
KidT == KidQ \cup {ObjH, FloatH, NoneH, AH, BH, Lit1a, U(IntH, StrH), U(IntH, NoneH), LI, HNew("int"), TvInt, AnnI}
Kid  == IF Tier = "quick" THEN KidQ ELSE KidT
KidS == {HAny, IntH, BoolH, StrH}           \* the small kid set
SeqQ == { HSeq("list", k) : k \in Kid } \cup { HSeq(s, k) : s \in {"Sequence", "tuple"}, k \in KidS }
        \cup { HSeq("MutableSequence", IntH) }
ReitQ == { HReit(s, IntH) : s \in ReitSigns } \cup { HReit("Collection", StrH), HReit("set", BoolH) }
QuasiQ == { HQuasi(s, IntH) : s \in QuasiSigns } \cup { HQuasi("Iterable", HAny) }
MapQ == { HMap("dict", StrH, v) : v \in {IntH, BoolH, HAny} } \cup { HMap("dict", HAny, HAny) }
        \cup { HMap(s, StrH, IntH) : s \in {"Mapping", "MutableMapping", "defaultdict", "OrderedDict"} }
        \cup { HCounter(StrH), HItems(StrH, IntH), HItems(StrH, HAny) }
TupQ == { HTupF(<<>>), HTupF(<<IntH>>), HTupF(<<IntH, StrH>>), HTupF(<<BoolH, StrH>>), HTupF(<<IntH, IntH>>),
          HTupF(<<HAny, HAny>>), HTupF(<<IntH, HAny>>), HTupF(<<Lit1, StrH>>), HTupF(<<LitT, StrH>>) }
UnionQ == { U(IntH, StrH), U(IntH, NoneH), U(BoolH, NoneH), U(StrH, NoneH), HUnion(<<IntH, StrH, NoneH>>),
            U(IntH, BoolH), U(Lit1, NoneH), U(LitT, NoneH), U(Lit1, LitA), U(IntH, HAny), U(LI, NoneH),
            U(LI, HSeq("list", StrH)), U(HReit("Collection", StrH), HMap("dict", StrH, IntH)),
            U(AnnI, NoneH), U(AnnS, NoneH), U(HNew("int"), NoneH), U(TvInt, NoneH) }
DeepQ == { HSeq("list", LI), HSeq("list", HSeq("list", BoolH)), HSeq("list", U(IntH, StrH)), HSeq("list", U(IntH, NoneH)),
           HMap("dict", StrH, LI), HSeq("Sequence", HSeq("Sequence", IntH)), HSeq("list", HTupF(<<IntH, StrH>>)),
           HSeq("tuple", LI), HSeq("list", AnnI), HSeq("list", AnnS), HSeq("list", HCall(<<IntH>>, StrH)),
           HTupF(<<LI, StrH>>) }

\* thorough: the full container / mapping / tuple / union products over the larger kid set
SeqT == { HSeq(s, k) : s \in SeqSigns, k \in KidT }
ReitT == { HReit(s, k) : s \in ReitSigns, k \in KidS \cup {Lit1, LitT, AH, BH} }
QuasiT == { HQuasi(s, k) : s \in QuasiSigns, k \in KidS \cup {ObjH, AH, BH} }
MapT == { HMap(s, k, v) : s \in MapSigns \ {"Counter"}, k \in {StrH, IntH, HAny}, v \in {IntH, BoolH, HAny, LI} }
        \cup { HCounter(k) : k \in {StrH, IntH, HAny} }
        \cup { HItems(k, v) : k \in {StrH, IntH}, v \in {IntH, BoolH, HAny} }
TupT == { HTupF(<<a, b>>) : a, b \in {IntH, BoolH, StrH, HAny, Lit1, LitT} } \cup { HTupF(<<a>>) : a \in KidS }
        \cup { HTupF(<<IntH, StrH, IntH>>) }
UnionT == { U(a, b) : a \in {IntH, BoolH, StrH, AH, Lit1, LitT, LI, AnnI}, b \in {NoneH, StrH, BH, LitA, HSeq("list", StrH)} }
          \ { U(StrH, StrH) }

UnionT2 == { U(a, b) : a \in {IntH, BoolH, Lit1, AnnI, LI}, b \in {AnnS, TvInt, HNew("int"), HTupF(<<IntH, StrH>>)} }
           \cup { HUnion(<<IntH, StrH, LI>>), HUnion(<<Lit1, LitA, NoneH>>), HUnion(<<BoolH, StrH, NoneH>>) }
KidD == { LI, HSeq("list", StrH), HSeq("list", BoolH), HTupF(<<IntH, StrH>>), HSeq("tuple", IntH), HMap("dict", StrH, IntH),
          U(IntH, StrH), U(IntH, NoneH), AnnI, AnnS, Lit1, LitT, HNew("int"), TvInt, HCall(<<IntH>>, StrH),
          HType(IntH), HType(BoolH) }
DeepT == { HSeq(s, k) : s \in {"list", "Sequence", "tuple"}, k \in KidD } \cup { HMap("dict", StrH, k) : k \in KidD }
         \cup { HTupF(<<k, StrH>>) : k \in {LI, AnnI, AnnS, U(IntH, NoneH), HSeq("tuple", IntH)} }

\* repr twins: distinct hints with one repr() and different meanings (same-named TypeVars with different bounds /
\* constraints, same-named NewTypes over different bases, classes made by one factory), bare and nested
TwTI == Named(HTVar("bound", <<IntH>>), 1)     TwTS == Named(HTVar("bound", <<StrH>>), 1)
TwCI == Named(HTVar("constr", <<IntH, NoneH>>), 2)   TwCS == Named(HTVar("constr", <<StrH, BoolH>>), 2)
TwNI == Named(HNew("int"), 3)                  TwNS == Named(HNew("str"), 3)
TwKI == HCls("K:int")                          TwKS == HCls("K:str")
Twins == {TwTI, TwTS, TwCI, TwCS, TwNI, TwNS, TwKI, TwKS,
          HSeq("list", TwTI), HSeq("list", TwTS), U(TwNI, NoneH), U(TwNS, NoneH)}

HintSet == Twins \cup Leaves \cup SeqQ \cup ReitQ \cup QuasiQ \cup MapQ \cup TupQ \cup UnionQ \cup DeepQ
           \cup (IF Tier = "quick" THEN {}
                 ELSE SeqT \cup ReitT \cup QuasiT \cup MapT \cup TupT \cup UnionT \cup UnionT2 \cup DeepT)
HintSeq == TLCEval(SetToSeq(HintSet))
NHint == TLCEval(Len(HintSeq))
HS == 1..NHint

(* ----------------------------------------------------------- state machine *)
\* st 0 -> 1 (a chunk of hints) -> 2 (one hint: its row of the relation is computed, the laws
\*      that need one row are evaluated) -> 3 (TypeHint(h): doormeta.__call__) -> 4 (TypeHint(h) again)
\*      -> 5 (TypeHint(h2) for the repr twin h2 of h, if it has one, in the same process)
\* The laws over several rows (transitivity, == / hash) are checked by MC_SubhintLaws.tla on the
\* matrix assembled from the rows this module emits.
CH == 4
\* the repr twin of hint i (0: none)
ReprSeq == TLCEval([i \in HS |-> ReprOf(HintSeq[i])])
Twinable == TLCEval({ i \in HS : ReprSeq[i] # HintSeq[i] })      \* hints that contain a named thing
TwinIx == TLCEval([i \in HS |-> IF i \in Twinable /\ \E j \in Twinable : j # i /\ ReprSeq[j] = ReprSeq[i]
                               THEN CHOOSE j \in Twinable : j # i /\ ReprSeq[j] = ReprSeq[i] ELSE 0])
\* the key discipline of the wrapper cache: the hint itself (its == / hash: distinct abstract hints are unequal
\* hints), or - spec mutant "repr_key" - its repr()
Key(i) == IF "repr_key" \in Legacy THEN ReprSeq[i] ELSE HintSeq[i]
NoW == [id |-> 0, h |-> 0]
VARIABLES st, ia,
          row,                    \* [j |-> IsSub(Legacy, HintSeq[ia], HintSeq[j])]
          cache, made,            \* the wrapper cache of doormeta: key -> wrapper; wrappers made
          w1, w2, w3              \* wrappers returned: [id, h = index of the hint the wrapper was built from]
vars == <<st, ia, row, cache, made, w1, w2, w3>>
Init == st = 0 /\ ia = 0 /\ row = << >> /\ cache = << >> /\ made = 0 /\ w1 = NoW /\ w2 = NoW /\ w3 = NoW
Chunk == /\ st = 0 /\ st' = 1
         /\ ia' \in { 1 + k * CH : k \in 0 .. ((NHint - 1) \div CH) }
         /\ UNCHANGED <<row, cache, made, w1, w2, w3>>
PickHint == /\ st = 1 /\ st' = 2
            /\ ia' \in { j \in ia .. (ia + CH - 1) : j <= NHint }
            /\ row' = [j \in HS |-> IsSub(Legacy, HintSeq[ia'], HintSeq[j])]
            /\ UNCHANGED <<cache, made, w1, w2, w3>>
\* _TypeHintMetaclass.__call__: _HINT_TO_WRAPPER.cache_or_get_cached_func_return_passed_arg(key=hint, ...)
Hit(i) == "no_wrapper_cache" \notin Legacy /\ Key(i) \in DOMAIN cache
Fresh(i) == [id |-> made + 1, h |-> i]
WrapOnce == /\ st = 2 /\ st' = 3
            /\ IF Hit(ia) THEN w1' = cache[Key(ia)] /\ UNCHANGED <<cache, made>>
               ELSE made' = made + 1 /\ w1' = Fresh(ia) /\ cache' = (Key(ia) :> Fresh(ia)) @@ cache
            /\ UNCHANGED <<ia, row, w2, w3>>
WrapAgain == /\ st = 3 /\ st' = 4
             /\ IF Hit(ia) THEN w2' = cache[Key(ia)] /\ UNCHANGED <<cache, made>>
                ELSE made' = made + 1 /\ w2' = Fresh(ia) /\ cache' = (Key(ia) :> Fresh(ia)) @@ cache
             /\ UNCHANGED <<ia, row, w1, w3>>
WrapTwin == /\ st = 4 /\ TwinIx[ia] # 0 /\ st' = 5
            /\ LET t == TwinIx[ia] IN
               IF Hit(t) THEN w3' = cache[Key(t)] /\ UNCHANGED <<cache, made>>
               ELSE made' = made + 1 /\ w3' = Fresh(t) /\ cache' = (Key(t) :> Fresh(t)) @@ cache
            /\ UNCHANGED <<ia, row, w1, w2>>
Next == Chunk \/ PickHint \/ WrapOnce \/ WrapAgain \/ WrapTwin
Spec == Init /\ [][Next]_vars
A == HintSeq[ia]
Active == st = 2

(* ------------------------------------------------------- the property (R1) *)
\* an exception ("X") counts as "does not hold"
Reflexive == Active => row[ia] = "T"
SatIdx(h) == { j \in 1..NObj : Sat(Erase(h), OSeq[j]) }
\* whenever is_subhint(A, B) holds for hints not involving Any, every object that fully satisfies A
\* also satisfies B (SatB: beartype's documented full-depth meaning of B)
Sound ==
  (Active /\ ~HasAny(A) /\ SatKnown(A)) =>
     LET sat == SatIdx(A) IN
     \A b \in HS : (row[b] = "T" /\ ~HasAny(HintSeq[b])) =>
        LET eb == Erase(HintSeq[b]) IN \A j \in sat : SatB(eb, OSeq[j])
\* len / iter / [] / in and .args describe the same children
Coh_Children == Active => ArgsAreKids(Legacy, A)
\* TypeHint(h) is TypeHint(h)
Coh_Singleton == st >= 4 => w1 = w2
\* TypeHint(h).hint is h; wrappers of distinct hints are distinct - also for repr twins wrapped in one process
Coh_HintIsH == /\ st >= 3 => w1.h = ia
               /\ st = 5 => (w3.h = TwinIx[ia] /\ w3.id # w1.id)
\* is_subhint(h2, B) is computed on the wrapper TypeHint(h2): with h wrapped first, it must still be sound for
\* the objects that fully satisfy the twin h2
Sound_Twin ==
  (st = 5 /\ ~HasAny(HintSeq[TwinIx[ia]]) /\ SatKnown(HintSeq[TwinIx[ia]])) =>
     LET t == HintSeq[TwinIx[ia]]   seen == HintSeq[w3.h]   sat == SatIdx(t) IN
     \A b \in HS : (IsSub(Legacy, seen, HintSeq[b]) = "T" /\ ~HasAny(HintSeq[b])) =>
        LET eb == Erase(HintSeq[b]) IN \A j \in sat : SatB(eb, OSeq[j])

(* ---------------------------------------------------------------- rows (R2) *)
Code(v) == IF v = "T" THEN 1 ELSE IF v = "F" THEN 0 ELSE 2
\* does some object that fully satisfies a fail SatB of b?  (the model's own soundness verdict of the pair)
Unsound(sat, b) == IF \A j \in sat : SatB(Erase(b), OSeq[j]) THEN 0 ELSE 1
Vec(F, a) == IF F = Legacy THEN row ELSE [j \in HS |-> IsSub(F, a, HintSeq[j])]
Row == LET a == A  hs == HintSeq
           judged == ~HasAny(a) /\ SatKnown(a)
           sat == IF judged THEN SatIdx(a) ELSE {}
           sf == Vec(LegacyFaithful, a) IN
   [t |-> "row", i |-> ia, h |-> a, wk |-> WK(a), origin |-> Origin(a), nkids |-> Len(Kids(a)), nargs |-> ArgsLen(a),
    argskids |-> ArgsAreKids(LegacyFaithful, a), argsign |-> ArgsIgn(LegacyFaithful, a), ign |-> IgnX(LegacyFaithful, a), hasany |-> HasAny(a),
    judged |-> judged, sat |-> SetToSeq(sat), twin |-> TwinIx[ia],
    subF |-> [j \in HS |-> Code(sf[j])],
    subX |-> LET v == Vec(LegacyFixed, a) IN [j \in HS |-> Code(v[j])],
    subI |-> LET v == Vec({}, a) IN [j \in HS |-> Code(v[j])],
    eqF  |-> [j \in HS |-> Code(EqH(LegacyFaithful, a, hs[j]))],
    eqX  |-> [j \in HS |-> Code(EqH(LegacyFixed, a, hs[j]))],
    eqI  |-> [j \in HS |-> Code(EqH({}, a, hs[j]))],
    unsF |-> [j \in HS |-> IF judged /\ sf[j] = "T" /\ ~HasAny(hs[j]) THEN Unsound(sat, hs[j]) ELSE 0]]
EmitRows == (Active /\ Emit) =>
              JsonSerialize(IOEnv.ROW_DIR \o "/row_" \o ToString(ia) \o ".json", Row)
EmitMeta == (st = 0 /\ Emit) =>
              JsonSerialize(IOEnv.ROW_DIR \o "/meta.json",
                            [t |-> "meta", hints |-> HintSeq, objs |-> OSeq, lcm |-> Lcm, nhint |-> NHint])
=============================================================================
