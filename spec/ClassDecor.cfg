\* A small stand-alone configuration of ClassDecor.tla (the driver verifkit/drivers/c13.py
\* generates its own configurations, one per group of universes; this is its mutant base).
SPECIFICATION Spec
CONSTANTS
  Rule = "nested"
  SubRule = "mro"
  Mutant = "none"
  Optimized = FALSE
  Groups <- DefaultGroups
  Emit = FALSE
INVARIANT RouteEq
INVARIANT ReturnsSelf
INVARIANT NestedDecorated
INVARIANT InheritedUntouched
INVARIANT AliasUntouched
INVARIANT ClassIdempotent
INVARIANT FuncIdempotent
INVARIANT NoopIdentity
INVARIANT OptimizedIdentity
INVARIANT Wraps
INVARIANT WrapsOriginal
INVARIANT DepthOne
INVARIANT KindKept
CHECK_DEADLOCK FALSE
